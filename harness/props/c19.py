"""C19 — subgraph callbacks run exactly once, with the prescribed arguments.

tie G : translator/subgraph_specs.py extracts (AST) the argument-type expression of every
        `subgraph(<types>, <callback>)` call and the `out_variadic` expression of every control-flow
        constructor of ai.onnx v17..v21 (+ the source strings of tools/generate_opset.py) into the IR
        of Model/Subgraph.lean, and the list of call sites that could re-invoke a stored callback.
proof : Props/C19.lean (args_prescribed_*, called_once, out_count, bad_callbacks_typeerror over the
        *generated* specs / call sites).
tie H : the real constructors are called with recording callbacks over enumerated operand counts and
        types; what each callback received, the out_variadic handed to the node, the exception class
        and the invocation counters after builds / inference / value propagation are compared with
        the model (driver).
oracle: (model-free) the same observations judged against ONNX's prescription written directly in
        Python, the counters re-read after every later step, and build + run under onnxruntime of
        bodies that use their arguments (Loop, Scan with rank >= 1 state, SequenceMap with a tensor
        additional input) against numpy.
"""
from __future__ import annotations

import itertools
import random
import warnings

from harness import core

CTORS = ["if_", "loop", "scan", "sequence_map"]
NODE_CLASSES = {"_If": "if_", "_Loop": "loop", "_Scan": "scan", "_SequenceMap": "sequence_map"}
STEPS_FULL = ["build", "infer", "build_drop", "valueProp", "to_onnx", "inspect", "copy", "pickle", "graphMethod",
              "varMethod", "inline", "build"]
MODEL_STEP = {"build": "build", "build_drop": "build", "to_onnx": "build", "infer": "infer", "valueProp": "valueProp",
              "inspect": "inspect", "copy": "copy", "pickle": "copy", "graphMethod": "graphMethod",
              "varMethod": "varMethod", "inline": "inline"}


class _Boom(Exception):
    pass


class _BoomBase(BaseException):
    """a callback may also leave with a BaseException (KeyboardInterrupt-like): it must propagate unchanged"""


# ----------------------------------------------------------------------------- type descriptors
# tensor {"t": onnx dtype number, "s": None | [int | str | None, ...]}, {"seq": d}, {"opt": d},
# None = a Var whose type is unknown.
def T(dt, shape):
    return {"t": dt, "s": None if shape is None else list(shape)}


F32, I64, BOOL, I32, F64 = 1, 7, 9, 6, 11
TENSORS = [
    T(F32, ()),  # rank 0
    T(F32, (3,)),  # rank 1
    T(I64, (2, 3)),  # rank 2
    T(F32, (2, "N", None)),  # rank 3, symbolic and unknown dims
    T(BOOL, None),  # unknown shape (unknown rank)
    T(F32, (0, 3)),  # a zero-sized static dim
]
NON_TENSORS = [
    {"seq": T(F32, (3,))},
    {"seq": T(I64, None)},
    {"opt": T(F32, (2,))},
    {"opt": {"seq": T(F32, ())}},
]
POOL = TENSORS + NON_TENSORS
# more types for the seeded long lists of the thorough tier
EXTRA_TYPES = [
    {"seq": {"seq": T(F32, (2,))}},  # nested sequence
    {"opt": T(I64, None)},  # optional of unknown shape
    {"opt": {"seq": T(BOOL, (2, None))}},
    T(8, (2,)),  # string tensor
    T(F64, (1, 2, 3, 4)),  # rank 4
    T(I32, (None,)),
]
SEQS = [{"seq": T(F32, (3,))}, {"seq": T(I64, None)}, {"seq": T(BOOL, (2, 2))}]
SEQ_RANK0 = {"seq": T(F32, ())}  # elements of rank 0: `()` is a known shape, not an unknown one
ZERO_LEN = [T(F32, (0,)), T(I64, (0, 2)), T(F32, (0, 0))]  # zero-length scan axes
# how Loop's trip count / condition and If's condition are given: an argument, omitted, a constant
LOOP_M = ["arg", "none", "const3", "const0", "computed3", "init3", "init0"]
LOOP_COND = [None, "constTrue", "constFalse", "computedTrue", "initFalse"]
# a compile-time-known value can come from every value source: `op.const`, the Constant constructor, a value computed
# from constants by value propagation, an initializer
VALUE_SOURCES = ["const", "constant", "computed", "computed2", "init"]
IF_COND = ["arg"] + [f"{src_}{tv_}" for src_ in VALUE_SOURCES for tv_ in ("True", "False")]


def known_value(env, op, src, value, shape1=False):
    """A Var whose value is known when the constructor runs: bool `value` (or an int64 trip count), from source `src`."""
    np = env.np
    if isinstance(value, bool):
        arr = np.array([value]) if shape1 else np.array(value)
    else:
        arr = np.array(value, np.int64)
    if src == "const":
        return op.const(arr)
    if src == "constant":
        return op.constant(value=arr)
    if src == "init":
        return env.graph.initializer(arr)
    if isinstance(value, bool):
        if src == "computed":  # not(not value)
            return op.not_(op.const(np.array([not value]) if shape1 else np.array(not value)))
        k = op.const(np.array([2] if shape1 else 2, np.int64))  # computed2: a comparison of constants
        return op.equal(k, op.const(np.array([2] if shape1 else 2, np.int64))) if value else op.less(k, k)
    return op.add(op.const(np.array(value - 1, np.int64)), op.const(np.array(1, np.int64)))


def split_known(tag):
    """'computedTrue' -> ('computed', True); 'init3' -> ('init', 3)"""
    for src in sorted(VALUE_SOURCES, key=len, reverse=True):
        if tag.startswith(src):
            rest = tag[len(src):]
            return src, (rest == "True") if rest in ("True", "False") else int(rest)
    raise ValueError(tag)


class _Types:
    """The public type constructors (spox.Tensor / Sequence / Optional)."""

    def __init__(self, spox):
        self.Tensor, self.Sequence, self.Optional = spox.Tensor, spox.Sequence, spox.Optional


class Unobservable(Exception):
    """A facet of spox the harness wanted to look at is not there (renamed / removed / changed)."""


class Env:
    """The real spox, reached from outside. Everything the model-free oracle needs comes from the
    public API (spox.argument / build / Tensor / Var.type, the opset modules); internals are optional
    and their absence is recorded in `problems` (-> ck.broken), never raised."""

    def __init__(self):
        import importlib

        import numpy as np
        import onnx
        import spox

        self.np, self.onnx, self.spox = np, onnx, spox
        self.ts = _Types(spox)
        self.problems = []
        self.graph = self.node = None
        self.Var = getattr(spox, "Var", None)
        for attr, modname in (("graph", "spox._graph"), ("node", "spox._node")):
            try:
                setattr(self, attr, importlib.import_module(modname))
            except Exception as e:  # noqa: BLE001
                self.problems.append(f"{modname} not importable: {type(e).__name__}: {e}")
        self.mods = {}
        for p in sorted((core.REPO / "src/spox/opset/ai/onnx").glob("v*.py"), key=lambda q: int(q.stem[1:])):
            try:
                self.mods[p.stem] = importlib.import_module(f"spox.opset.ai.onnx.{p.stem}")
            except Exception as e:  # noqa: BLE001
                self.problems.append(f"spox.opset.ai.onnx.{p.stem} not importable: {type(e).__name__}: {e}")
        self.seen_vars = []  # keeps every Var handed to a callback alive (ids stay unique)
        self.seen_ids = set()
        self.spy = None  # active recording of Node.__init__ calls
        self.spy_ok = False
        self.cur_operands = []  # outer-scope operand Vars of the call in progress (for `rel = outer`)
        self.cur_shape_arg = None  # an outer int64[?] value (for `rel = unkshape`)

    # -- types
    def to_spox(self, d):
        ts = self.ts
        if "seq" in d:
            return ts.Sequence(self.to_spox(d["seq"]))
        if "opt" in d:
            return ts.Optional(self.to_spox(d["opt"]))
        dt = self.onnx.helper.tensor_dtype_to_np_dtype(d["t"])
        if d["t"] == 8:
            dt = self.np.dtype(str)
        return ts.Tensor(dt.type if d["t"] <= 16 else dt, None if d["s"] is None else tuple(d["s"]))

    def from_spox(self, t):
        ts = self.ts
        if t is None:
            return None
        if isinstance(t, ts.Sequence):
            return {"seq": self.from_spox(t.elem_type)}
        if isinstance(t, ts.Optional):
            return {"opt": self.from_spox(t.elem_type)}
        if isinstance(t, ts.Tensor):
            num = self.onnx.helper.np_dtype_to_tensor_dtype(self.np.dtype(t.dtype))
            return {"t": int(num), "s": None if t.shape is None else list(t.shape)}
        return {"other": repr(t)}

    def operand(self, d):
        if d is None:  # a Var of unknown type (needs the protected Var constructor)
            try:
                v = self.spox.argument(self.ts.Tensor(self.np.float32, ()))
                u = self.Var(v._op, None)
                assert u.type is None
                return u
            except Exception as e:  # noqa: BLE001
                raise Unobservable(f"cannot make a Var of unknown type: {type(e).__name__}: {e}") from e
        return self.spox.argument(self.to_spox(d))


def install_spy(env: Env):
    """Record (node class, out_variadic) of every control-flow node construction (observation only)."""
    try:
        Node = env.node.Node
        if getattr(Node.__init__, "_c19_spy", False):
            env.spy_ok = True
            return
        orig = Node.__init__

        def init(self, *a, **k):
            if env.spy is not None and type(self).__name__ in NODE_CLASSES:
                env.spy.append((type(self).__name__, k.get("out_variadic", "unobservable")))
            return orig(self, *a, **k)

        init._c19_spy = True
        init._c19_orig = orig
        Node.__init__ = init
        env.spy_ok = True
    except Exception as e:  # noqa: BLE001
        env.spy_ok = False
        env.problems.append(f"Node.__init__ (out_variadic of control-flow nodes) not observable: {type(e).__name__}: {e}")


def remove_spy(env: Env):
    try:
        Node = env.node.Node
        if getattr(Node.__init__, "_c19_spy", False):
            Node.__init__ = Node.__init__._c19_orig
    except Exception:  # noqa: BLE001
        pass


# ----------------------------------------------------------------------------- running a case
RELATIONS = ["same", "identity", "dim", "rank", "dtype", "unkshape", "swap", "outer", "const"]


def related(env, op, rel, v, i, peers, outer_vals):
    try:
        return _related(env, op, rel, v, i, peers, outer_vals)
    except Exception:  # noqa: BLE001 - the transformation does not apply to this value: hand it back
        return v


def _related(env, op, rel, v, i, peers, outer_vals):
    """A result standing in relation `rel` to the body argument `v` (the i-th of `peers`).
    Only tensors of known shape are transformed; everything else is handed back unchanged."""
    np = env.np
    t = getattr(v, "type", None)
    is_tensor = isinstance(t, env.ts.Tensor)
    if rel == "same" or not is_tensor and rel not in ("swap", "outer"):
        return v
    if rel == "identity":
        return op.identity(v)
    if rel == "swap":  # the carried values in another order
        return peers[(i + 1) % len(peers)] if peers else v
    if rel == "outer":  # an outer-scope value of the operand's own type (the operand itself)
        return outer_vals[i] if i < len(outer_vals) and outer_vals[i] is not None else v
    if rel == "dtype":
        return op.cast(v, to=np.int32 if t.dtype != np.int32 else np.float32)
    if rel == "unkshape":  # a result whose rank is unknown
        return op.reshape(v, env.cur_shape_arg) if env.cur_shape_arg is not None else v
    if t.shape is None:
        return v
    if rel == "rank":
        return op.unsqueeze(v, op.const(np.array([0], np.int64)))
    if rel == "dim":  # same dtype and rank, another constant dimension
        if len(t.shape) == 0:
            return v
        if len(t.shape) >= 2 and t.shape[0] != t.shape[1]:
            perm = list(range(len(t.shape)))
            perm[0], perm[1] = 1, 0
            return op.transpose(v, perm=perm)
        return op.concat([v, v], axis=0)
    if rel == "const":
        if all(isinstance(d, int) for d in t.shape) and t.dtype != np.str_:
            return op.const(np.zeros(t.shape, t.dtype))
        return v
    return v


def natural_results(env, op, ctor, case, args):
    """The results of a body that uses its arguments; `case["rel"]` says how the values fed back
    (carried values / states / mapped elements) are related to the arguments they came from."""
    if ctor == "if_":
        return [op.const(float(i)) for i in range(case["cbs"]["else_branch"].get("natural", 1))]
    k_extra = case.get("k_extra", 0)
    rel = case.get("rel", "same")
    outer_vals = env.cur_operands
    if ctor == "loop":
        car = list(args[2:])
        out = [args[1]] + [related(env, op, rel, v, i, car, outer_vals) for i, v in enumerate(car)]
        out += [op.identity(args[0]) for _ in range(k_extra)]
        return out
    if ctor == "scan":
        m = case["ints"]["num_scan_inputs"]
        n_ops = len(case["lists"]["initial_state_and_scan_inputs"])
        n_state = max(n_ops - m, 0)
        states = list(args[:n_state])
        out = [related(env, op, rel, v, i, states, outer_vals) for i, v in enumerate(states)]
        scans = list(args[n_state:])
        for i in range(k_extra):
            out.append(related(env, op, rel if rel not in ("swap", "outer") else "identity",
                               scans[i % len(scans)], i, scans, []) if scans else op.const(1.0))
        return out
    if ctor == "sequence_map":
        al = list(args)
        out = [related(env, op, rel if rel != "outer" else "identity", args[0], 0, al, [])]
        for i in range(k_extra):
            j = (i + 1) % len(args)
            out.append(related(env, op, rel if rel != "outer" else "identity", args[j], j, al, []))
        return out
    raise ValueError(ctor)


def natural_count(ctor, case):
    if ctor == "if_":
        return case["cbs"]["else_branch"].get("natural", 1)
    k = case.get("k_extra", 0)
    if ctor == "loop":
        return 1 + len(case["lists"]["v_initial"]) + k
    if ctor == "scan":
        m = case["ints"]["num_scan_inputs"]
        return max(len(case["lists"]["initial_state_and_scan_inputs"]) - m, 0) + k
    return 1 + k


# elements that are not Vars; the first group are containers *of Vars* (nothing may be spliced in)
SEQ_OF_VARS = ["listOfVars", "tupleOfVars", "list1", "nested2", "genOfVars", "setOfVars", "dictOfVars", "ndarrayOfVars"]
OTHER_NON_VARS = ["int", "none", "str", "float", "emptyList", "emptyTuple", "duck", "varClass"]
BAD_ELEMS = SEQ_OF_VARS + OTHER_NON_VARS


class _Duck:
    """Looks like a Var, is not one."""

    def __init__(self, v):
        self.type, self._op, self._value, self._name = v.type, getattr(v, "_op", None), None, None

    def unwrap_type(self):
        return self.type


def malformed_result(env, op, ctor, case, cb, args):
    """An iterable whose element at position `pos` is not a Var. For the containers of Vars the
    natural results are used and a slice of them is wrapped, e.g. `[cond, [u, v]]`."""
    n = max(cb["n"], 1)
    bad = cb.get("bad", ["int", "none", "str", "float"][cb.get("variant", 0) % 4])
    vs = natural_results(env, op, ctor, case, args)
    vs = vs + [op.const(0.0) for _ in range(n + 2 - len(vs))]
    pos = cb.get("pos", cb.get("variant", 0)) % n
    inner = vs[pos:pos + 2]
    if bad == "listOfVars":
        el, used = list(inner), 2
    elif bad == "tupleOfVars":
        el, used = tuple(inner), 2
    elif bad == "list1":
        el, used = [vs[pos]], 1
    elif bad == "nested2":
        el, used = [[vs[pos]]], 1
    elif bad == "genOfVars":
        el, used = (v for v in inner), 2
    elif bad == "setOfVars":
        el, used = set(inner), 2
    elif bad == "dictOfVars":
        el, used = {v: i for i, v in enumerate(inner)}, 2
    elif bad == "ndarrayOfVars":
        el = env.np.empty(len(inner), dtype=object)
        for i, v in enumerate(inner):
            el[i] = v
        used = 2
    else:
        used = 1
        el = {"int": 3, "none": None, "str": "x", "float": 1.5, "emptyList": [], "emptyTuple": (),
              "duck": _Duck(vs[pos]), "varClass": env.Var}[bad]
    rest = vs[pos + used:]
    out = vs[:pos] + [el] + rest[: n - pos - 1]
    outer = cb.get("outer", "list")
    if outer == "tuple":
        return tuple(out)
    if outer == "gen":  # e.g. a generator yielding a list
        return (x for x in out)
    return out


def elem_kinds(cb):
    """What the model is told about a malformed result: the kind of each element."""
    n = max(cb["n"], 1)
    bad = cb.get("bad", "int")
    pos = cb.get("pos", cb.get("variant", 0)) % n
    return ["var"] * pos + ["seqOfVars" if bad in SEQ_OF_VARS else "nonVar"] + ["var"] * (n - pos - 1)


def make_callback(env, op, ctor, case, role, rec, counters):
    cb = case["cbs"][role]
    beh, variant = cb["beh"], cb.get("variant", 0)
    if beh == "notCallable":
        return [None, 3, "not a function", [1, 2]][variant % 4]

    def fun(*args):
        counters[role] = counters.get(role, 0) + 1
        rec.append((role, args))
        if beh == "raises":
            raise (_BoomBase if variant % 2 else _Boom)("callback raised")
        if beh == "nonIterable":
            # (a 0-d array, bytes and a string are "iterable" for isinstance, but not iterables of Vars)
            return [None, 5, op.const(1.0), 2.5, env.np.array(1.0), b"ab", "xy"][variant % 7]
        n = cb["n"]
        if beh == "hasNonVar":
            return malformed_result(env, op, ctor, case, cb, args)
        vs = natural_results(env, op, ctor, case, args)
        vs = vs[:n] + [op.const(0.0) for _ in range(n - len(vs))]
        cont = cb.get("container", "list")
        if cont == "tuple":
            return tuple(vs)
        if cont == "gen":
            return (v for v in vs)
        if cont == "map":
            return map(lambda v: v, vs)
        if cont in ("dictkeys", "dict", "set"):
            uniq = []
            for v in vs:  # a dict / set would merge a Var that occurs twice
                if any(v is u for u in uniq):
                    try:
                        v = op.identity(v)
                    except Exception:  # noqa: BLE001 - no Identity for this type (nested sequences): plain list
                        return vs
                uniq.append(v)
            if cont == "set":
                return set(uniq)
            d_ = {v: i for i, v in enumerate(uniq)}
            return d_ if cont == "dict" else d_.keys()
        if cont in ONE_SHOT_MAKERS:
            return ONE_SHOT_MAKERS[cont](list(vs))
        if cont == "ndarray":  # a numpy object array of Vars is an iterable of Vars
            arr = env.np.empty(len(vs), dtype=object)
            for i, v in enumerate(vs):
                arr[i] = v
            return arr
        if cont == "varsubclass" and vs:  # an instance of a subclass of Var is a Var
            try:
                Sub = type("VarSub", (env.Var,), {})
                last = vs[-1]
                sub = Sub(last._op, last.type)
                return vs[:-1] + [sub]
            except Exception:  # noqa: BLE001
                return vs
        return vs

    form = cb.get("form")
    if form:
        from harness import lib_c19forms as forms

        return forms.make_form(form, fun, cb_nargs(case, role))
    return fun


def cb_nargs(case, role):
    """number of arguments ONNX prescribes for the callback in `role` (0 when nothing is prescribed)"""
    pres = prescription(case)
    return len(pres[role]) if pres is not None and role in pres else 0


def form_accepts(case, role):
    """Model-free: does Python's own call with the prescribed number of arguments enter a callable of this form?"""
    from harness import lib_c19forms as forms

    return forms.python_accepts(case["cbs"][role]["form"], cb_nargs(case, role))


class _OneShot:
    """An iterator object (its own iterator): can be walked exactly once."""

    def __init__(self, xs):
        self._xs, self._i = xs, 0

    def __iter__(self):
        return self

    def __next__(self):
        if self._i >= len(self._xs):
            raise StopIteration
        self._i += 1
        return self._xs[self._i - 1]


def _seqclass(xs):
    import collections.abc

    class Seq(collections.abc.Sequence):
        def __getitem__(self, i):
            return xs[i]

        def __len__(self):
            return len(xs)

    return Seq()


def _deque(xs):
    import collections

    return collections.deque(xs)


# further iterables of Vars: one-shot iterators and non-list sequences (all must count their elements)
ONE_SHOT_MAKERS = {
    "iter": lambda xs: iter(xs),
    "chain": lambda xs: itertools.chain(xs[:1], xs[1:]),
    "oneshot": lambda xs: _OneShot(xs),
    "reversed": lambda xs: reversed(xs[::-1]),
    "zipstar": lambda xs: (t[0] for t in zip(xs, xs)),
    "deque": _deque,
    "dictvalues": lambda xs: {i: v for i, v in enumerate(xs)}.values(),
    "seqclass": _seqclass,
}
CONTAINERS_MAIN = ["list", "list", "tuple", "gen", "map", "dictkeys", "iter", "oneshot", "chain"]
CONTAINERS_ALL = ["list", "tuple", "gen", "map", "dictkeys"] + sorted(ONE_SHOT_MAKERS)
ONE_SHOT = {"gen", "map", "iter", "chain", "oneshot", "reversed", "zipstar"}


def concrete(d):
    """A type with every shape known (the only kind `build` / onnx.checker accept at the model border)."""
    if d is None:
        return False
    if "seq" in d:
        return concrete(d["seq"])
    if "opt" in d:
        return concrete(d["opt"])
    return d["s"] is not None


def buildable(env, op, v):
    """An output derived from `v` that `build` accepts whatever v's shape information is."""
    t = v.type
    ts = env.ts
    if isinstance(t, ts.Tensor):
        return v if t.shape is not None else op.shape(v)
    if isinstance(t, ts.Sequence):
        return v if concrete(env.from_spox(t)) else op.sequence_length(v)
    if isinstance(t, ts.Optional):
        return op.optional_has_element(v)
    return v


AMBIENTS = [None, "overload", "overload_tp", "overload_nocp", "vp_none", "vp_ort", "warn_none", "warn_outputs"]


def ambient_context(env: Env, name, op):
    """The scoped setting under which the constructor is called (public `spox._future` managers)."""
    import contextlib

    if name is None:
        return contextlib.nullcontext()
    try:
        import spox._future as fut

        if name == "overload":
            return fut.operator_overloading(op)
        if name == "overload_tp":
            return fut.operator_overloading(op, type_promotion=True, constant_promotion=True)
        if name == "overload_nocp":
            return fut.operator_overloading(op, type_promotion=False, constant_promotion=False)
        if name == "vp_none":
            return fut.value_prop_backend(fut.ValuePropBackend.NONE)
        if name == "vp_ort":
            return fut.value_prop_backend(fut.ValuePropBackend.ONNXRUNTIME)
        if name == "warn_none":
            return fut.type_warning_level(fut.TypeWarningLevel.NONE)
        if name == "warn_outputs":
            return fut.type_warning_level(fut.TypeWarningLevel.OUTPUTS)
    except Exception as e:  # noqa: BLE001
        raise Unobservable(f"scoped setting {name} not available: {type(e).__name__}: {e}") from e
    raise Unobservable(f"unknown ambient setting {name}")


def run_real(env: Env, case, steps=()):
    """Call the real constructor of `case`; returns the observation dict."""
    np = env.np
    mod = env.mods[case["mod"]]
    ctor = case["ctor"]
    op = mod
    rec, counters = [], {}
    obs = {"events": [], "result": None, "stage": None, "spy": [], "counts_ctor": {}, "counts": {},
           "fresh": True, "unnamed": True, "steps": [], "step_errors": []}
    with warnings.catch_warnings():
        warnings.simplefilter("ignore")
        if case.get("dupvar"):  # one Var object in every slot of its type
            made = {}

            def mk(d):
                if d is None:
                    return env.operand(d)
                k_ = repr(d)
                if k_ not in made:
                    made[k_] = env.operand(d)
                return made[k_]

            operands = {k: [mk(d) for d in v] for k, v in case.get("lists", {}).items()}
        else:
            operands = {k: [env.operand(d) for d in v] for k, v in case.get("lists", {}).items()}
        singles = {k: env.operand(d) for k, v in case.get("singles", {}).items() for d in [v]}
    cbs = {role: make_callback(env, op, ctor, case, role, rec, counters) for role in case["cbs"]}
    if case.get("same_cb"):  # one callable object passed in both roles
        cbs["then_branch"] = cbs["else_branch"]
    f = getattr(mod, ctor)
    env.spy = []
    outer = {}
    consts = {}  # operands that are constants (not model inputs)
    if ctor == "if_":
        ic = case.get("if_cond", "arg")
        if ic == "arg":
            outer["cond"] = env.spox.argument(env.ts.Tensor(np.bool_, ()))
        else:  # a compile-time-known condition: one branch can never execute; both are still traced exactly once
            with warnings.catch_warnings():
                warnings.simplefilter("ignore")
                consts["cond"] = known_value(env, op, *split_known(ic))
    elif ctor == "loop":
        mm = case.get("M", "arg")
        if mm == "arg":
            outer["M"] = env.spox.argument(env.ts.Tensor(np.int64, ()))
        elif mm != "none":  # known trip count (3, or 0: the body never executes)
            with warnings.catch_warnings():
                warnings.simplefilter("ignore")
                consts["M"] = known_value(env, op, *split_known(mm))
        cc = case.get("cond")
        if isinstance(cc, str):
            with warnings.catch_warnings():
                warnings.simplefilter("ignore")
                src_, val_ = split_known(cc)
                consts["cond"] = known_value(env, op, src_, val_, shape1=True)
        elif cc is not None:
            outer["cond"] = env.operand(cc)
    if case.get("opcont") == "tuple":  # the operand lists as tuples (the parameters are `Sequence[Var]`)
        operands = {k: tuple(v) for k, v in operands.items()}
    given = dict(outer, **consts)
    env.cur_operands = list(operands.get("v_initial", [])) or list(operands.get("initial_state_and_scan_inputs", []))
    env.cur_operands = [v if v.type is not None else None for v in env.cur_operands]
    env.cur_shape_arg = None
    if case.get("rel") == "unkshape":
        with warnings.catch_warnings():
            warnings.simplefilter("ignore")
            outer["shp"] = env.spox.argument(env.ts.Tensor(np.int64, (None,)))
        env.cur_shape_arg = outer["shp"]
    obs["counts_calls"], obs["stages"] = [], []
    for _rep in range(case.get("repeat", 1)):  # the same call again, with the very same callback objects
        before = dict(counters)
        n_spy = len(env.spy)
        amb = ambient_context(env, case.get("ambient"), op)
        try:
            with warnings.catch_warnings(), amb:
                warnings.simplefilter("ignore")
                if case.get("kwcall"):  # every parameter by keyword
                    if ctor == "if_":
                        outs = f(cond=given["cond"], else_branch=cbs["else_branch"], then_branch=cbs["then_branch"])
                    elif ctor == "loop":
                        outs = f(body=cbs["body"], v_initial=operands["v_initial"], cond=given.get("cond"), M=given.get("M"))
                    elif ctor == "scan":
                        outs = f(body=cbs["body"], num_scan_inputs=case["ints"]["num_scan_inputs"],
                                 initial_state_and_scan_inputs=operands["initial_state_and_scan_inputs"],
                                 scan_input_axes=case.get("axes"), **case.get("scan_attrs", {}))
                    else:
                        outs = f(body=cbs["body"], additional_inputs=operands["additional_inputs"],
                                 input_sequence=singles["input_sequence"])
                elif ctor == "if_":
                    outs = f(given["cond"], then_branch=cbs["then_branch"], else_branch=cbs["else_branch"])
                elif ctor == "loop":
                    outs = f(given.get("M"), given.get("cond"), v_initial=operands["v_initial"], body=cbs["body"])
                elif ctor == "scan":
                    outs = f(
                        operands["initial_state_and_scan_inputs"], body=cbs["body"],
                        num_scan_inputs=case["ints"]["num_scan_inputs"], scan_input_axes=case.get("axes"),
                        **case.get("scan_attrs", {}),
                    )
                else:
                    outs = f(singles["input_sequence"], operands["additional_inputs"], body=cbs["body"])
            outs = list(outs)
            obs["result"] = ("ok", len(outs))
        except (Exception, _BoomBase) as e:  # noqa: BLE001
            outs = None
            obs["result"] = ("err", type(e).__name__, str(e)[:160])
        delta = {r: counters.get(r, 0) - before.get(r, 0) for r in case["cbs"]}
        obs["counts_calls"].append(delta)
        if outs is not None:
            st_ = "done"
        elif env.spy_ok:
            st_ = "node" if len(env.spy) > n_spy else "pre"
        else:  # without the spy: the node is being created once every callback returned a well-formed result
            roles_ = ["else_branch"] if case.get("same_cb") else (["else_branch", "then_branch"] if ctor == "if_" else ["body"])
            st_ = "node" if all_good(case) and all(delta.get(r, 0) >= 1 for r in roles_) else "pre"
        obs["stages"].append(st_)
    obs["spy"] = list(env.spy)
    env.spy = None
    obs["stage"] = obs["stages"][-1]
    obs["spy_ok"] = env.spy_ok
    all_operands = [v for vs in operands.values() for v in vs] + list(singles.values()) + list(outer.values())
    for role, args in rec:
        obs["events"].append((role, [env.from_spox(a.type) if isinstance(a, env.Var) else "non-var" for a in args]))
        for a in args:
            if id(a) in env.seen_ids or any(a is o for o in all_operands):
                obs["fresh"] = False
            env.seen_ids.add(id(a))
            env.seen_vars.append(a)
            if getattr(a, "_name", None) is not None:
                obs["unnamed"] = False
        if len({id(a) for a in args}) != len(args):
            obs["fresh"] = False
    obs["counts_ctor"] = dict(counters)
    # what the node keeps: Graph._arguments are the very Vars the callback received, _constructor the callback
    obs["stored"] = None
    if outs:
        try:
            node0 = outs[0]._op
            last = {}
            for role, args in rec:
                last[role] = args
            if case.get("same_cb"):
                last = {}
            for role, args in last.items():
                g = getattr(node0.attrs, role).value
                same = g._arguments is not None and len(g._arguments) == len(args) and all(
                    a is b for a, b in zip(g._arguments, args))
                if not same:
                    obs["stored"] = f"{role}: Graph._arguments are not the Vars the callback received"
                elif g._constructor is not cbs[role]:
                    obs["stored"] = f"{role}: Graph._constructor is not the callback"
        except Exception as e:  # noqa: BLE001
            obs["stored"] = f"cannot read stored graph: {type(e).__name__}: {e}"
    # ---- later steps
    if outs is not None and steps:
        node = getattr(outs[0], "_op", None) if outs else None
        ins = {}
        for i, v in enumerate(all_operands):  # (one Var may sit in several operand slots: one model input)
            if v.type is not None and not any(v is u for u in ins.values()):
                ins[f"a{i}"] = v
        with warnings.catch_warnings():
            warnings.simplefilter("ignore")
            outd = {f"o{i}": buildable(env, op, v) for i, v in enumerate(outs)}
        for st in steps:
            before = dict(counters)
            try:
                with warnings.catch_warnings():
                    warnings.simplefilter("ignore")
                    if st == "build" and outd:
                        try:
                            env.spox.build(ins, outd)
                        except ValueError as e:
                            if "does not specify the shape" not in str(e):
                                raise
                            # unknown shapes among the inputs / outputs: the non-concrete build
                            env.graph.results(**outd).with_arguments(*ins.values()).to_onnx_model(concrete=False)
                    elif st == "build_drop" and outd:
                        try:
                            env.spox.build(ins, outd, drop_unused_inputs=True)
                        except ValueError as e:
                            if "does not specify the shape" not in str(e):
                                raise
                            env.graph.results(**outd).to_onnx_model(concrete=False)
                    elif st == "to_onnx" and outd:
                        env.graph.results(**outd).with_arguments(*ins.values()).to_onnx()
                    elif st == "infer" and node is not None:
                        node.infer_output_types()
                    elif st == "valueProp" and node is not None:
                        node.propagate_values()
                    elif st == "inspect" and node is not None:
                        for sub in node.subgraphs:
                            repr(sub)
                            list(sub.requested_arguments or ())
                            dict(sub.requested_results)
                            sub == sub, hash(sub)
                        repr(node), hash(node)
                    elif st in ("copy", "pickle") and node is not None:
                        import copy
                        import pickle

                        things = list(outs) + list(node.subgraphs) + [node]
                        for th in things:
                            for fn in ([copy.copy, copy.deepcopy] if st == "copy" else [pickle.dumps]):
                                try:
                                    fn(th)
                                except Exception:  # noqa: BLE001 - unsupported copies are fine; re-invoking is not
                                    pass
                    elif st == "graphMethod" and node is not None:
                        for sub in node.subgraphs:
                            g2 = sub.with_name("renamed").with_doc("doc").with_opset(("", 17))
                            if sub.requested_arguments is not None:
                                g2 = g2.with_arguments(*sub.requested_arguments)
                            repr(g2)
                    elif st == "varMethod":
                        import copy

                        for v in outs:
                            v.unwrap_type(), repr(v), copy.copy(v), str(v.type)
                    elif st == "inline" and outd:
                        try:
                            mp = env.spox.build(ins, outd)
                        except ValueError:
                            mp = None  # unknown shapes at the model border: nothing to inline
                        if mp is not None:
                            again = env.spox.inline(mp)(**ins)
                            env.spox.build(ins, {k: v for k, v in again.items()})
            except Exception as e:  # noqa: BLE001
                obs["step_errors"].append((st, type(e).__name__, str(e)[:200]))
            obs["steps"].append((st, {r: counters.get(r, 0) - before.get(r, 0) for r in case["cbs"]}))
    obs["counts"] = dict(counters)
    return obs


# ----------------------------------------------------------------------------- ONNX's prescription, in Python
def is_tensor(d):
    return d is not None and "t" in d


def drop_axis(shape, ax):
    if shape is None:
        return None
    r = len(shape)
    a = ax + r if ax < 0 else ax
    return [d for i, d in enumerate(shape) if i != a]


def prescription(case):
    """{role: [types]} as the ONNX operator specification prescribes, or None when the operands are
    not valid for the operator (nothing is prescribed then)."""
    ctor = case["ctor"]
    if ctor == "if_":
        return {"else_branch": [], "then_branch": []}
    if ctor == "loop":
        car = case["lists"]["v_initial"]
        if any(d is None for d in car):
            return None
        return {"body": [T(I64, ()), T(BOOL, ())] + car}
    if ctor == "scan":
        ops = case["lists"]["initial_state_and_scan_inputs"]
        m = case["ints"]["num_scan_inputs"]
        if not all(is_tensor(d) for d in ops) or not (0 <= m <= len(ops)):
            return None
        n = len(ops) - m
        axes = case.get("axes")
        if axes is None:
            axes = [0] * m
        if len(axes) != m:
            return None
        out = list(ops[:n])
        for d, ax in zip(ops[n:], axes):
            if d["s"] is not None:
                r = len(d["s"])
                if r < 1 or not (-r <= ax < r):
                    return None
            out.append(T(d["t"], drop_axis(d["s"], ax)))
        return {"body": out}
    if ctor == "sequence_map":
        s = case["singles"]["input_sequence"]
        ex = case["lists"]["additional_inputs"]
        if s is None or "seq" not in s or not is_tensor(s["seq"]):
            return None
        out = [s["seq"]]
        for d in ex:
            if d is not None and "seq" in d and is_tensor(d["seq"]):
                out.append(d["seq"])
            elif is_tensor(d):
                out.append(d)
            else:
                return None
        return {"body": out}
    raise ValueError(ctor)


def arg_role(case, i):
    ctor = case["ctor"]
    if ctor == "loop":
        return ["iteration", "condition"][i] if i < 2 else "carried"
    if ctor == "scan":
        n = len(case["lists"]["initial_state_and_scan_inputs"]) - case["ints"]["num_scan_inputs"]
        return "state" if i < n else "scan-input"
    if ctor == "sequence_map":
        if i == 0:
            return "element"
        d = case["lists"]["additional_inputs"][i - 1]
        return "extra-sequence" if d is not None and "seq" in d else "extra-tensor"
    return "arg"


def fmt_shape(s):
    return "unknown" if s is None else "(" + ",".join(str(d) for d in s) + ("," if len(s) == 1 else "") + ")"


def classify_type(case, i, want, got):
    role = arg_role(case, i)
    ctor = case["ctor"]
    if not is_tensor(want) or not is_tensor(got):
        return f"{ctor}:{role}:kind"
    if want["t"] != got["t"]:
        return f"{ctor}:{role}:dtype"
    if ctor == "loop" and role in ("iteration", "condition"):
        return f"{ctor}:{role}:shape={fmt_shape(got['s'])}"
    if ctor == "scan" and role == "scan-input":
        n = len(case["lists"]["initial_state_and_scan_inputs"]) - case["ints"]["num_scan_inputs"]
        d = case["lists"]["initial_state_and_scan_inputs"][i]
        ax = (case.get("axes") or [0] * 99)[i - n]
        if ax != 0 and got["s"] == drop_axis(d["s"], 0):
            return "scan:scan-input:scan_input_axes-ignored"
    return f"{ctor}:{role}:shape"


def all_good(case):
    return all(c["beh"] == "vars" for c in case["cbs"].values())


def judge(case, obs):
    """Model-free oracle: the property's own words on the observation. -> [(key, what)]"""
    bad = []
    ctor = case["ctor"]
    pres = prescription(case)
    res = obs["result"]
    order = ["else_branch", "then_branch"] if ctor == "if_" else ["body"]
    ev_roles = [r for r, _ in obs["events"]]
    # -- exactly once per constructor call (a callable passed in both roles of an If: once per role)
    roles_mult = [("else_branch", 2)] if case.get("same_cb") else [(r, 1) for r in order]
    for delta, stage in zip(obs["counts_calls"], obs["stages"]):
        for role, mult in roles_mult:
            c = delta.get(role, 0)
            beh = case["cbs"][role]["beh"]
            reached = stage in ("done", "node")
            if c > mult:
                bad.append((f"{ctor}:{role}:count={c}", f"{role} invoked {c} times during one constructor call (passed {mult}x)"))
            elif beh != "notCallable" and pres is not None and reached and c != mult:
                bad.append((f"{ctor}:{role}:count={c}", f"{role} invoked {c} times during one constructor call (passed {mult}x)"))
    # -- prescribed number, order and types of arguments
    if pres is not None:
        for role, types in obs["events"]:
            want = pres[role]
            if len(types) != len(want):
                bad.append((f"{ctor}:{role}:nargs", f"{role} received {len(types)} arguments, ONNX prescribes {len(want)}"))
                continue
            for i, (w, g) in enumerate(zip(want, types)):
                if w != g:
                    bad.append((classify_type(case, i, w, g),
                                f"{ctor} body argument {i} ({arg_role(case, i)}) typed {g}, ONNX prescribes {w}"))
        # operands valid for the operator, every callback well-formed: the callbacks must be reached
        if all_good(case) and obs["stage"] == "pre" and not all(r in ev_roles for r in order if not case.get("same_cb")):
            kinds = "+".join(sorted({arg_role(case, i) for i in range(len(pres[order[-1]]))})) or "none"
            bad.append((f"{ctor}:valid-operands-rejected:{kinds}:exception={res[1]}",
                        f"{ctor} raised {res[1]} ({res[2]}) before calling its body although the operands are valid"))
    # -- a curated call that ONNX allows (scalar `cond` operand, body passing the condition on)
    if case.get("expect_ok") and res[0] == "err":
        bad.append((f"{ctor}:{case['expect_ok']}-rejected", f"{ctor} with {case['expect_ok']} raised {res[1]}: {res[2]}"))
    # -- fresh, unnamed argument Vars
    if not obs["fresh"]:
        bad.append((f"{ctor}:args:not-fresh", "a body argument is not a fresh Var"))
    if not obs["unnamed"]:
        bad.append((f"{ctor}:args:named", "a body argument Var carries a name"))
    # -- output count
    if pres is not None and all_good(case) and obs["stage"] in ("done", "node"):
        src = "else_branch" if ctor == "if_" else "body"
        want_n = case["cbs"][src]["n"] - (1 if ctor == "loop" else 0)
        got_n = [ov for cls, ov in obs["spy"] if NODE_CLASSES.get(cls) == ctor]
        cont = case["cbs"][src].get("container", "list")
        tag = ":one-shot-iterable" if cont in ONE_SHOT else ""
        if got_n and isinstance(got_n[-1], int) and got_n[-1] != want_n:
            bad.append((f"{ctor}:out-count{tag}", f"callback returned {case['cbs'][src]['n']} Vars, node created with out_variadic={got_n[-1]} (expected {want_n})"))
        elif res[0] == "ok" and res[1] != want_n:
            bad.append((f"{ctor}:out-count{tag}", f"callback returned {case['cbs'][src]['n']} Vars, constructor returned {res[1]} outputs (expected {want_n})"))
    # -- callable forms: what Python's call with the prescribed arguments accepts must be accepted
    if pres is not None and all_good(case) and res[0] == "err" and obs["stage"] == "pre":
        for role in order:
            fm = case["cbs"][role].get("form")
            if fm and obs["counts_ctor"].get(role, 0) == 0 and form_accepts(case, role):
                bad.append((f"{ctor}:callback-form:{fm}:rejected:{res[1]}",
                            f"{ctor}: a valid {role} of the form `{fm}` (Python accepts the call with the {cb_nargs(case, role)} prescribed arguments) was rejected with {res[1]}: {res[2]}; invoked 0 times"))
                break
    # -- malformed callbacks
    if pres is not None and not all_good(case):
        first_bad = next((r for r in order if case["cbs"][r]["beh"] != "vars"), None)
        beh = case["cbs"][first_bad]["beh"]
        if beh == "badArity":  # Python's call itself rejects the callable: TypeError, the body never entered
            fm = case["cbs"][first_bad].get("form")
            if form_accepts(case, first_bad):
                pass  # (not a rejecting form for this arity: nothing to judge)
            else:
                if res[0] != "err" or res[1] != "TypeError":
                    got = res[1] if res[0] == "err" else "no exception"
                    bad.append((f"{ctor}:callback-form:{fm}:{got}", f"{first_bad} of the form `{fm}` cannot take the prescribed arguments: expected TypeError, got {got}"))
                if obs["counts_ctor"].get(first_bad, 0) != 0:
                    bad.append((f"{ctor}:callback-form:{fm}:entered", f"{first_bad} of the form `{fm}` was entered although the call cannot bind its arguments"))
        if beh in ("notCallable", "nonIterable", "hasNonVar"):
            if res[0] != "err" or res[1] != "TypeError":
                got = res[1] if res[0] == "err" else "no exception"
                bk = case["cbs"][first_bad].get("bad", "")
                lab = beh + (":nested-vars" if bk in SEQ_OF_VARS else "")
                bad.append((f"{ctor}:bad-callback:{lab}:{got}",
                            f"{beh} callback ({bk or 'non-Var element'}): expected TypeError at the call, got {got}"))
            if beh == "notCallable" and obs["counts_ctor"].get(first_bad, 0) != 0:
                bad.append((f"{ctor}:bad-callback:notCallable:called", "non-callable was called?"))
    # -- never again
    for st, delta in obs["steps"]:
        for role, dlt in delta.items():
            if dlt:
                bad.append((f"{ctor}:recalled-after:{st}", f"{role} invoked {dlt} more time(s) by {st}"))
    return bad


# ----------------------------------------------------------------------------- model request / comparison
def cb_ids(case):
    """role -> identity of the callback object passed in that role"""
    ids = {role: i for i, role in enumerate(sorted(case["cbs"]))}
    if case.get("same_cb"):
        ids["then_branch"] = ids["else_branch"]
    return ids


def model_request(case, steps):
    cbs = {}
    for role, i in cb_ids(case).items():
        c = case["cbs"][role]
        cbs[role] = {"id": i, "beh": "vars" if c["beh"] == "badArity" else c["beh"], "n": c.get("n", 0)}
        if c.get("form"):
            from harness import lib_c19forms as forms

            cbs[role]["sig"] = forms.sig_of(c["form"], cb_nargs(case, role))
        if c["beh"] == "hasNonVar":
            cbs[role]["elems"] = elem_kinds(c)
    return {
        "repeat": case.get("repeat", 1),
        "mod": case["mod"], "ctor": case["ctor"], "lists": case.get("lists", {}),
        "singles": case.get("singles", {}), "ints": case.get("ints", {}), "cbs": cbs,
        "steps": [MODEL_STEP[s] for s in steps],
    }


def compare(case, obs, m, steps):
    """-> None if model and implementation agree, else a description."""
    if m is None or "error" in m:
        return f"model error: {m}"
    ids = cb_ids(case)
    real_events = [[ids[r], ts] for r, ts in obs["events"]]
    model_events = [[e["cb"], e["types"]] for e in m["events"]]
    if real_events != model_events:
        return f"events differ: real={real_events} model={model_events}"
    for e in m["events"]:
        if len(set(e["args"])) != len(e["args"]):
            return "model args not distinct"
    res, mr = obs["result"], m["result"]
    if "err" in mr:
        want = {"TypeError": "TypeError", "AttributeError": "AttributeError", "Other": "_Boom"}[mr["err"]]
        if not (res[0] == "err" and (res[1] == want or (want == "_Boom" and res[1] == "_BoomBase")) and obs["stage"] == "pre"):
            return f"model raises {mr['err']}, real: {res} at stage {obs['stage']}"
    else:
        if obs["stage"] == "pre":
            return f"model returns {mr['ok']} outputs, real raised before creating the node: {res}"
        ov = [o for cls, o in obs["spy"] if NODE_CLASSES.get(cls) == case["ctor"]]
        if obs.get("spy_ok"):
            if not ov or not isinstance(ov[-1], int):
                return f"out_variadic handed to the node not observable (saw {ov})"
            if ov[-1] != mr["ok"]:
                return f"model out_variadic {mr['ok']}, real node got {ov}"
        if res[0] == "ok" and res[1] != mr["ok"]:
            return f"model {mr['ok']} outputs, real {res[1]}"
    if obs.get("stored"):
        return "stored graph: " + obs["stored"]
    def by_id(counts):
        out = {}
        for r, i in ids.items():
            if not (case.get("same_cb") and r == "then_branch"):
                out[str(i)] = out.get(str(i), 0) + counts.get(r, 0)
        return out

    real_counts = by_id(obs["counts_ctor"])
    if real_counts != m["countsAfterCtor"]:
        return f"counters after the constructor: real={real_counts} model={m['countsAfterCtor']}"
    if obs["stage"] == "done" and steps:
        real_counts = by_id(obs["counts"])
        if real_counts != m["counts"]:
            return f"counters after {steps}: real={real_counts} model={m['counts']}"
    return None


# ----------------------------------------------------------------------------- case generators
def good_cb(n, container="list", natural=None):
    d = {"beh": "vars", "n": n, "container": container}
    if natural is not None:
        d["natural"] = natural
    return d


def finish_case(case, rng, container=None):
    """Attach a well-formed body returning the natural number of Vars."""
    ctor = case["ctor"]
    case.setdefault("k_extra", rng.randrange(0, 3))
    if ctor == "scan":
        ops = case["lists"]["initial_state_and_scan_inputs"]
        if len(ops) - case["ints"]["num_scan_inputs"] + case["k_extra"] <= 0:
            case["k_extra"] = 1
    if ctor == "scan" and "scan_attrs" not in case and rng.random() < 0.4:
        m_, k_ = case["ints"]["num_scan_inputs"], case["k_extra"]
        attrs = {}
        if rng.random() < 0.7 and m_ > 0:
            attrs["scan_input_directions"] = [rng.randrange(2) for _ in range(m_)]
        if rng.random() < 0.6 and k_ > 0:
            attrs["scan_output_directions"] = [rng.randrange(2) for _ in range(k_)]
        if rng.random() < 0.6 and k_ > 0:
            attrs["scan_output_axes"] = [rng.choice([0, 0, 1, -1]) for _ in range(k_)]
        case["scan_attrs"] = attrs
    if "ambient" not in case:
        case["ambient"] = rng.choice(AMBIENTS[1:]) if rng.random() < 0.35 else None
    # trip count / condition: an argument, omitted, or a constant (incl. bodies that can never execute)
    if ctor == "loop" and "M" not in case and rng.random() < 0.3:
        case["M"] = rng.choice(LOOP_M[1:])
    if ctor == "loop" and "cond" not in case and rng.random() < 0.2:
        case["cond"] = rng.choice(LOOP_COND[1:])
    if ctor == "loop" and case.get("M") == "none" and not case["lists"]["v_initial"]:
        # no trip count and no operand at all: a program without inputs that never terminates — value
        # propagation (e.g. of the inlined model) would evaluate it forever; give it a trip count
        case["M"] = "const3"
    if ctor == "if_" and "if_cond" not in case and rng.random() < 0.4:
        case["if_cond"] = rng.choice(IF_COND[1:])
    if ctor != "if_" and "opcont" not in case and rng.random() < 0.2:
        case["opcont"] = "tuple"
    if ctor != "if_" and "dupvar" not in case and rng.random() < 0.15:
        case["dupvar"] = True
    if "kwcall" not in case and rng.random() < 0.15:
        case["kwcall"] = True
    if ctor != "if_" and "rel" not in case:
        case["rel"] = rng.choice(RELATIONS) if rng.random() < 0.6 else "same"
    cont = container or rng.choice(CONTAINERS_MAIN)
    if ctor == "if_":
        n = case.get("n_if", 1)
        case["cbs"] = {"else_branch": good_cb(n, cont, n), "then_branch": good_cb(n, cont, n)}
    else:
        case["cbs"] = {"body": good_cb(natural_count(ctor, case), cont)}
    # the callback as a lambda with defaults, functools.partial, bound method, callable instance, ... (accepted forms)
    if rng.random() < 0.15 and prescription(case) is not None:
        from harness import lib_c19forms as forms

        for role in case["cbs"]:
            fm = rng.choice(forms.ACCEPTED)
            if forms.applicable(fm, cb_nargs(case, role)):
                case["cbs"][role]["form"] = fm
    return case


def defining_modules(info):
    """{ctor: [modules that define it]} and [(module, ctor, defining module)]"""
    res = info["resolves"]
    defs = {}
    for m, c, d in res:
        defs.setdefault(c, [])
        if d not in defs[c]:
            defs[c].append(d)
    return defs, res


def fallback_resolves():
    """(module, ctor, defining module) by import only (used when the AST extraction is unavailable)."""
    import importlib

    res = []
    for p in sorted((core.REPO / "src/spox/opset/ai/onnx").glob("v*.py"), key=lambda q: int(q.stem[1:])):
        try:
            m = importlib.import_module(f"spox.opset.ai.onnx.{p.stem}")
        except Exception:  # noqa: BLE001
            continue
        for c in CTORS:
            f = getattr(m, c, None)
            if f is not None:
                res.append((p.stem, c, getattr(f, "__module__", p.stem).rsplit(".", 1)[-1]))
    return res


_DTYPES = None


def all_dtypes():
    """ONNX element type numbers the installed onnx + spox can express as a Tensor type."""
    global _DTYPES
    if _DTYPES is None:
        import onnx
        import spox

        _DTYPES = []
        for num in range(1, 64):
            try:
                onnx.TensorProto.DataType.Name(num)
                dt = onnx.helper.tensor_dtype_to_np_dtype(num)
                t = spox.Tensor(dt if num > 16 else (str if num == 8 else dt.type), (2,))
                if int(onnx.helper.np_dtype_to_tensor_dtype(t.dtype)) == num or num == 8:
                    _DTYPES.append(num)
            except Exception:  # noqa: BLE001
                continue
    return _DTYPES


def gen_cases(ck, info):
    rng = ck.rng
    defs, _ = defining_modules(info)
    defs0 = defs  # the modules that define the constructors
    cases = []
    maxlen_exh = 3  # Loop, SequenceMap
    maxlen_loop = ck.pick(3, 4)
    maxlen_scan = ck.pick(2, 3)
    longer = ck.pick(0, 900)  # seeded lists of length 4-5 over the larger type pool (thorough)
    pool_x = POOL + EXTRA_TYPES
    tensors_x = TENSORS + [d for d in EXTRA_TYPES if "t" in d]
    if ck.thorough:  # every shipped module, also the ones that only re-export the constructor
        defs = {}
        for m_, c_, _d in info["resolves"]:
            defs.setdefault(c_, [])
            if m_ not in defs[c_]:
                defs[c_].append(m_)

    def lists_upto(pool, n):
        for k in range(n + 1):
            yield from (list(t) for t in itertools.product(pool, repeat=k))

    def rand_list(pool, k):
        return [rng.choice(pool) for _ in range(k)]

    pool_u = POOL + [None]
    # ---- Loop: carried values of every kind
    for k_mod, mod in enumerate(defs.get("loop", [])):
        # exhaustive to the full length in the first defining module; the other modules (same accepted spec by
        # `generated_good`): exhaustive to length 2 plus seeded lists of the full length (quick tier)
        full = ck.thorough or k_mod == 0
        for car in lists_upto(POOL, (maxlen_loop if full else 2) if mod in defs0.get("loop", []) else 2):
            cases.append(finish_case({"mod": mod, "ctor": "loop", "lists": {"v_initial": car}}, rng))
        if not full:
            for _ in range(200):
                cases.append(finish_case({"mod": mod, "ctor": "loop", "lists": {"v_initial": rand_list(POOL, maxlen_loop)}}, rng))
        for _ in range(ck.pick(60, 300)):
            cases.append(finish_case({"mod": mod, "ctor": "loop", "lists": {"v_initial": rand_list(pool_u, 3)}}, rng))
        for _ in range(longer):
            cases.append(finish_case({"mod": mod, "ctor": "loop", "lists": {"v_initial": rand_list(pool_x, rng.randrange(4, 6))}}, rng))
        for k in range(1, 4):
            cases.append(finish_case({"mod": mod, "ctor": "loop", "lists": {"v_initial": rand_list(POOL, k - 1) + [None]}}, rng))
        # ONNX: `cond` is a scalar; the body hands the condition it received on
        cases.append(finish_case({"mod": mod, "ctor": "loop", "lists": {"v_initial": [T(F32, (2,))]},
                                  "cond": T(BOOL, ()), "expect_ok": "scalar-cond-operand", "k_extra": 0}, rng, "list"))
        cases.append(finish_case({"mod": mod, "ctor": "loop", "lists": {"v_initial": [T(F32, (2,))]},
                                  "cond": T(BOOL, (1,)), "k_extra": 0}, rng, "list"))
    # ---- Scan: tensors of every rank, every split, scan axes
    for mod in defs.get("scan", []):
        def scan_variants(ops):
            for m in range(0, len(ops) + 2):
                yield {"mod": mod, "ctor": "scan", "lists": {"initial_state_and_scan_inputs": ops},
                       "ints": {"num_scan_inputs": m}, "axes": None}
            for m in range(1, len(ops) + 1):
                scans = ops[len(ops) - m:]
                if all(is_tensor(d) and d["s"] is not None and len(d["s"]) >= 1 for d in scans):
                    yield {"mod": mod, "ctor": "scan", "lists": {"initial_state_and_scan_inputs": ops},
                           "ints": {"num_scan_inputs": m}, "axes": [0] * m}
                    yield {"mod": mod, "ctor": "scan", "lists": {"initial_state_and_scan_inputs": ops},
                           "ints": {"num_scan_inputs": m}, "axes": [-1] * m}
                    if all(len(d["s"]) >= 2 for d in scans):
                        yield {"mod": mod, "ctor": "scan", "lists": {"initial_state_and_scan_inputs": ops},
                               "ints": {"num_scan_inputs": m}, "axes": [1] * m}
        for ops in lists_upto(TENSORS, maxlen_scan if mod in defs0.get("scan", []) else 2):
            for c in scan_variants(ops):
                cases.append(finish_case(c, rng))
        for _ in range(ck.pick(16, 0)):
            for c in scan_variants(rand_list(TENSORS, 3)):
                cases.append(finish_case(c, rng))
        for _ in range(longer // 3):
            for c in scan_variants(rand_list(tensors_x, rng.randrange(4, 6))):
                cases.append(finish_case(c, rng))
        for _ in range(ck.pick(25, 200)):  # operands that are not tensors / of unknown type
            ops = rand_list(pool_u, rng.randrange(1, 4))
            cases.append(finish_case({"mod": mod, "ctor": "scan", "lists": {"initial_state_and_scan_inputs": ops},
                                      "ints": {"num_scan_inputs": rng.randrange(0, len(ops) + 1)}, "axes": None}, rng))
    # ---- SequenceMap
    for mod in defs.get("sequence_map", []):
        for k_s, s in enumerate(SEQS):
            full = ck.thorough or k_s == 0  # the extras are typed independently of the input sequence
            for ex in lists_upto(TENSORS + SEQS, (maxlen_exh if full else 2) if mod in defs0.get("sequence_map", []) else 2):
                cases.append(finish_case({"mod": mod, "ctor": "sequence_map", "singles": {"input_sequence": s},
                                          "lists": {"additional_inputs": ex}}, rng))
            if not full:
                for _ in range(150):
                    cases.append(finish_case({"mod": mod, "ctor": "sequence_map", "singles": {"input_sequence": s},
                                              "lists": {"additional_inputs": rand_list(TENSORS + SEQS, maxlen_exh)}}, rng))
        for _ in range(longer):
            cases.append(finish_case({"mod": mod, "ctor": "sequence_map", "singles": {"input_sequence": rng.choice(SEQS)},
                                      "lists": {"additional_inputs": rand_list(tensors_x + SEQS + [{"seq": T(8, (2,))}], rng.randrange(4, 6))}}, rng))
        for _ in range(ck.pick(25, 200)):  # invalid operands
            cases.append(finish_case({"mod": mod, "ctor": "sequence_map",
                                      "singles": {"input_sequence": rng.choice(SEQS + [T(F32, (3,)), None, {"opt": SEQS[0]}])},
                                      "lists": {"additional_inputs": rand_list(pool_u, rng.randrange(0, 4))}}, rng))
    # ---- If
    for mod in defs.get("if_", []):
        for n in range(0, 4):
            for cont in CONTAINERS_ALL:
                cases.append(finish_case({"mod": mod, "ctor": "if_", "n_if": n}, rng, cont))
    # ---- every shipped module (also the ones that only re-export a constructor): short operand lists,
    #      trip count / condition given as argument / omitted / constant, zero-length scan axes, rank-0 elements
    allmods = {}
    for m_, c_, _d in info["resolves"]:
        allmods.setdefault(c_, [])
        if m_ not in allmods[c_]:
            allmods[c_].append(m_)
    for mod in allmods.get("loop", []):
        light = mod not in defs.get("loop", [])
        if light:
            for car in lists_upto(POOL, 1):
                cases.append(finish_case({"mod": mod, "ctor": "loop", "lists": {"v_initial": car}}, rng))
            for _ in range(8):
                cases.append(finish_case({"mod": mod, "ctor": "loop", "lists": {"v_initial": rand_list(pool_u, rng.randrange(2, 4))}}, rng))
        for mm in LOOP_M:
            for cc in LOOP_COND + [T(BOOL, (1,))]:
                car = rand_list(POOL, rng.randrange(0, 3))
                cases.append(finish_case({"mod": mod, "ctor": "loop", "lists": {"v_initial": car}, "M": mm, "cond": cc}, rng))
    for mod in allmods.get("scan", []):
        light = mod not in defs.get("scan", [])
        lists_ = [[z] for z in ZERO_LEN] + [[T(F32, (3,)), z] for z in ZERO_LEN] + [[ZERO_LEN[0], ZERO_LEN[1]], [ZERO_LEN[2], T(I64, ()), ZERO_LEN[0]]]
        if light:
            lists_ += list(lists_upto(TENSORS, 1)) + [rand_list(TENSORS, rng.randrange(2, 4)) for _ in range(6)]
        for ops in lists_:
            for m in range(0, len(ops) + 1):
                cases.append(finish_case({"mod": mod, "ctor": "scan", "lists": {"initial_state_and_scan_inputs": ops},
                                          "ints": {"num_scan_inputs": m}, "axes": None}, rng))
                if m >= 1 and all(d["s"] is not None and len(d["s"]) >= 1 for d in ops[len(ops) - m:]):
                    cases.append(finish_case({"mod": mod, "ctor": "scan", "lists": {"initial_state_and_scan_inputs": ops},
                                              "ints": {"num_scan_inputs": m}, "axes": [0] * m}, rng))
    for mod in allmods.get("sequence_map", []):
        light = mod not in defs.get("sequence_map", [])
        ins_ = [SEQ_RANK0] + (SEQS if light else [])
        for s_ in ins_:
            for ex in list(lists_upto(TENSORS + SEQS + [SEQ_RANK0], 1)) + [rand_list(TENSORS + SEQS + [SEQ_RANK0], rng.randrange(2, 4)) for _ in range(8)]:
                cases.append(finish_case({"mod": mod, "ctor": "sequence_map", "singles": {"input_sequence": s_},
                                          "lists": {"additional_inputs": ex}}, rng))
    for mod in allmods.get("if_", []):
        light = mod not in defs.get("if_", [])
        for ic in IF_COND:
            for n in range(0, 3):
                if light or ic != "arg":
                    cases.append(finish_case({"mod": mod, "ctor": "if_", "n_if": n, "if_cond": ic}, rng))
        # FIXED part (not sampled): a condition known at construction time, from every value source, with the branch
        # that can never execute well-formed / malformed in every way — it is traced once and its TypeError clause holds
        for ic in IF_COND[1:]:
            dead = "else_branch" if ic.endswith("True") else "then_branch"
            for k_bad, badcb in enumerate([None, {"beh": "notCallable", "n": 0, "variant": 1}, {"beh": "nonIterable", "n": 1, "variant": 0},
                                           {"beh": "hasNonVar", "n": 2, "bad": "int", "pos": 1, "outer": "list"},
                                           {"beh": "hasNonVar", "n": 2, "bad": "listOfVars", "pos": 0, "outer": "tuple"},
                                           {"beh": "badArity", "n": 1, "form": "too_many", "container": "list", "natural": 1},
                                           {"beh": "raises", "n": 1, "variant": 0}]):
                c = finish_case({"mod": mod, "ctor": "if_", "n_if": 1, "if_cond": ic, "ambient": None, "kwcall": False}, rng, "list")
                c["cbs"] = {r_: {k_: v_ for k_, v_ in cb_.items() if k_ != "form"} for r_, cb_ in c["cbs"].items()}
                if badcb is not None:
                    c["cbs"][dead] = dict(badcb)
                cases.append(c)
    # ---- every callable FORM x constructor x shipped module (accepted forms and forms Python's call rejects)
    from harness import lib_c19forms as forms

    base_f = [c for c in cases if prescription(c) is not None and all_good(c) and not c.get("same_cb") and "repeat" not in c
              and c.get("rel", "same") in ("same", "identity") and not any(cb.get("form") for cb in c["cbs"].values())]
    for ctor_ in CTORS:
        for mod in allmods.get(ctor_, []):
            sub = [c for c in base_f if c["ctor"] == ctor_ and c["mod"] == mod]
            if not sub:
                continue
            for fm in forms.ACCEPTED + forms.REJECTED:
                for _try in range(6):
                    c = dict(rng.choice(sub))
                    roles = list(c["cbs"])
                    r = rng.choice(roles)
                    if forms.applicable(fm, cb_nargs(c, r)):
                        break
                else:
                    continue
                cbs = {r2: dict(c["cbs"][r2]) for r2 in roles}
                cbs[r]["form"] = fm
                if fm in forms.REJECTED:
                    cbs[r]["beh"] = "badArity"
                elif ctor_ == "if_" and rng.random() < 0.5:  # both branches in (different) forms
                    r3 = [x for x in roles if x != r][0]
                    cbs[r3]["form"] = rng.choice([f for f in forms.ACCEPTED if forms.applicable(f, 0)])
                c["cbs"] = cbs
                cases.append(c)
    # ---- every element type the installed onnx defines (pass-through positions must keep the dtype)
    for dt in all_dtypes():
        t1, t2 = T(dt, (2,)), T(dt, (2, 3))
        for mod in defs.get("loop", []):
            cases.append(finish_case({"mod": mod, "ctor": "loop", "lists": {"v_initial": [t1, {"seq": t2}]}, "rel": "same", "k_extra": 0}, rng))
        for mod in defs.get("scan", []):
            cases.append(finish_case({"mod": mod, "ctor": "scan", "lists": {"initial_state_and_scan_inputs": [t1, t2]},
                                      "ints": {"num_scan_inputs": 1}, "axes": None, "rel": "same", "k_extra": 0}, rng))
        for mod in defs.get("sequence_map", []):
            cases.append(finish_case({"mod": mod, "ctor": "sequence_map", "singles": {"input_sequence": {"seq": t1}},
                                      "lists": {"additional_inputs": [t2, {"seq": t2}]}, "rel": "same", "k_extra": 0}, rng))
    # ---- every container kind at least once per constructor
    base = [c for c in cases if c["ctor"] != "if_" and prescription(c) is not None][:]
    for mod_ctor in sorted({(c["mod"], c["ctor"]) for c in base}):
        sub = [c for c in base if (c["mod"], c["ctor"]) == mod_ctor and natural_count(c["ctor"], c) >= 2][:40]
        for cont in CONTAINERS_ALL:
            if sub:
                c = dict(rng.choice(sub))
                c["cbs"] = {"body": dict(c["cbs"]["body"], container=cont)}
                cases.append(c)
    # ---- long operand lists (9-13 operands, pairwise different types): argument i is typed for position i
    dts = [F32, I64, I32, F64, BOOL]
    many_tensors = [T(dts[i % 5], (i + 1,) if i % 3 else (i + 1, 2)) for i in range(14)]
    many_mixed = [({"seq": t} if i % 4 == 1 else ({"opt": t} if i % 4 == 3 else t)) for i, t in enumerate(many_tensors)]
    for mod in allmods.get("loop", []):
        for n_ in ck.pick([9, 11, 13], [9, 10, 11, 12, 13, 14]):
            for pool_ in (many_tensors, many_mixed):
                car = list(pool_[:n_])
                rng.shuffle(car)
                cases.append(finish_case({"mod": mod, "ctor": "loop", "lists": {"v_initial": car}, "k_extra": 0}, rng))
    for mod in allmods.get("scan", []):
        for n_ in ck.pick([11, 13], [10, 11, 12, 13, 14]):
            ops = list(many_tensors[:n_])
            rng.shuffle(ops)
            for m_ in sorted({0, 1, n_ // 2, n_ - 1, n_}):
                cases.append(finish_case({"mod": mod, "ctor": "scan", "lists": {"initial_state_and_scan_inputs": ops},
                                          "ints": {"num_scan_inputs": m_}, "axes": None, "k_extra": 1}, rng))
    for mod in allmods.get("sequence_map", []):
        for n_ in ck.pick([10, 12], [9, 10, 11, 12, 13]):
            ex = [({"seq": t} if i % 2 else t) for i, t in enumerate(many_tensors[:n_])]
            rng.shuffle(ex)
            cases.append(finish_case({"mod": mod, "ctor": "sequence_map", "singles": {"input_sequence": rng.choice(SEQS)},
                                      "lists": {"additional_inputs": ex}, "k_extra": 1}, rng))
    # ---- the same callable objects again: a second identical constructor call; one callable in both If roles
    base = [c for c in cases if prescription(c) is not None and all_good(c) and "repeat" not in c]
    for mod_ctor in sorted({(c["mod"], c["ctor"]) for c in base}):
        sub = [c for c in base if (c["mod"], c["ctor"]) == mod_ctor]
        for _ in range(ck.pick(6, 40)):
            c = dict(rng.choice(sub))
            c["repeat"] = rng.choice([2, 2, 3])
            # (a memoising callable answers a repeated call from its cache: its body is legitimately not re-entered)
            c["cbs"] = {r_: (dict(cb_, form="exact_def") if cb_.get("form") == "lru_cache" else cb_) for r_, cb_ in c["cbs"].items()}
            cases.append(c)
    for mod in defs.get("if_", []):
        for n in range(1, 3):
            for rep in (1, 2):
                c = finish_case({"mod": mod, "ctor": "if_", "n_if": n, "same_cb": True, "repeat": rep}, rng, "list")
                cases.append(c)
    # ---- malformed callbacks and unnatural result counts
    base = [c for c in cases if prescription(c) is not None and not c.get("same_cb")]
    for _ in range(ck.pick(480 if getattr(ck, "c19_escalated", False) else 240, 1500)):
        c = dict(rng.choice(base))
        roles = list(c["cbs"])
        cbs = {r: dict(c["cbs"][r]) for r in roles}
        r = rng.choice(roles)
        kind = rng.choice(["notCallable", "nonIterable", "hasNonVar", "raises", "count", "count"])
        if kind == "count":
            n = rng.randrange(0, 5)
            for r2 in roles:
                cbs[r2]["n"] = n
        else:
            cbs[r] = {"beh": kind, "n": rng.randrange(1, 4), "variant": rng.randrange(7)}
            if kind == "hasNonVar":
                cbs[r].update(bad=rng.choice(BAD_ELEMS), pos=rng.randrange(3), outer=rng.choice(["list", "tuple", "gen"]))
        c["cbs"] = cbs
        cases.append(c)
    # every kind of non-Var element, at every position, in every outer container, for every constructor
    for mod_ctor in sorted({(c["mod"], c["ctor"]) for c in base}):
        sub = [c for c in base if (c["mod"], c["ctor"]) == mod_ctor and all_good(c) and c.get("rel", "same") == "same"
               and "repeat" not in c]
        sub = [c for c in sub if natural_count(c["ctor"], c) >= 3] or sub
        if not sub:
            continue
        # full sweeps in the first defining module of the constructor (and everywhere in the thorough tier); the
        # other modules run the same `subgraph()`: every bad element once, one malformed result per setting
        full_sweep = ck.thorough or mod_ctor[0] == (defs0.get(mod_ctor[1]) or [mod_ctor[0]])[0]
        for bad in BAD_ELEMS:
            for pos in (range(3) if full_sweep else [rng.randrange(3)]):
                c = dict(rng.choice(sub))
                roles = list(c["cbs"])
                cbs = {r2: dict(c["cbs"][r2]) for r2 in roles}
                r = roles[(pos + len(bad)) % len(roles)]
                cbs[r] = {"beh": "hasNonVar", "n": 3, "bad": bad, "pos": pos,
                          "outer": ["list", "tuple", "gen"][(pos + len(bad)) % 3]}
                c["cbs"] = cbs
                cases.append(c)
        # the verdict on a malformed result must not depend on the scoped settings in force at the call
        for amb in AMBIENTS[1:]:
            bads_ = ["int", "float", "none", "str", "listOfVars", "tupleOfVars", "emptyList"]
            for bad in (bads_ if full_sweep else [rng.choice(bads_)]):
                c = dict(rng.choice(sub))
                roles = list(c["cbs"])
                cbs = {r2: dict(c["cbs"][r2]) for r2 in roles}
                r = rng.choice(roles)
                cbs[r] = {"beh": "hasNonVar", "n": rng.randrange(1, 4), "bad": bad, "pos": rng.randrange(3),
                          "outer": rng.choice(["list", "tuple", "gen"])}
                c["cbs"] = cbs
                c["ambient"] = amb
                cases.append(c)
            for variant in (range(7) if full_sweep else [rng.randrange(7)]):  # bare scalars / None / a Var / 0-d array / bytes / str
                c = dict(rng.choice(sub))
                roles = list(c["cbs"])
                cbs = {r2: dict(c["cbs"][r2]) for r2 in roles}
                cbs[rng.choice(roles)] = {"beh": "nonIterable", "n": 1, "variant": variant}
                c["cbs"] = cbs
                c["ambient"] = amb
                cases.append(c)
        # all-Var results in unusual containers: they count
        for cont in ["dict", "set", "ndarray", "varsubclass"]:
            for _ in range(2):
                c = dict(rng.choice(sub))
                c["cbs"] = {r2: dict(c["cbs"][r2], container=cont) for r2 in c["cbs"]}
                cases.append(c)
    # a memoising callable answers a second call with equal arguments from its cache (its body is legitimately not
    # re-entered): where one callable object is called more than once, use the plain form
    for c in cases:
        if c.get("repeat", 1) > 1 or c.get("same_cb"):
            if any(cb.get("form") == "lru_cache" for cb in c["cbs"].values()):
                c["cbs"] = {r_: (dict(cb_, form="exact_def") if cb_.get("form") == "lru_cache" else cb_) for r_, cb_ in c["cbs"].items()}
    return cases


# ----------------------------------------------------------------------------- onnxruntime programs
ORT_PROGS = ["loop_uses_args", "scan_rank1_state", "scan_reverse_out_axis", "scan_rank2_state_two_scans", "scan_two_states",
             "seqmap_tensor_extra", "seqmap_seq_extra", "if_no_args",
             # >= 11 arguments AND >= 11 results, pairwise different: result i must end up at output i
             "loop_many_results", "scan_many_results", "if_many_results"]


def run_ort_prog(env: Env, mod_name, prog, seed):
    """Build a body that uses its arguments, run it under onnxruntime, compare with numpy.
    -> None or (stage, description)"""
    import onnxruntime as ort

    np = env.np
    op = env.mods[mod_name]
    rng = np.random.default_rng(seed)
    Tn, Sq, arg, build = env.ts.Tensor, env.ts.Sequence, env.spox.argument, env.spox.build
    calls = []
    stage = "construct"
    try:
        with warnings.catch_warnings():
            warnings.simplefilter("ignore")
            if prog == "loop_uses_args":
                k = int(rng.integers(1, 4))
                x = arg(Tn(np.float32, (k,)))
                acc = arg(Tn(np.float32, ()))
                M = arg(Tn(np.int64, ()))

                def body(i, c, v, a):
                    calls.append(1)
                    fi = op.cast(i, to=np.float32)
                    return [c, op.add(v, fi), op.add(a, op.reshape(fi, op.const(np.array([], np.int64)))), op.mul(v, op.const(np.float32(2)))]

                v, a, sc = op.loop(M, v_initial=[x, acc], body=body)
                # (v19/v21 Loop leaves the carried outputs' shapes unknown; give build concrete ones)
                v = op.reshape(v, op.const(np.array([k], np.int64)))
                a = op.reshape(a, op.const(np.array([], np.int64)))
                sc = op.reshape(sc, op.const(np.array([-1, k], np.int64)))
                ins, outs = {"x": x, "acc": acc, "M": M}, {"v": v, "a": a, "sc": sc}
                m = int(rng.integers(1, 5))
                xv = rng.standard_normal(k).astype(np.float32)
                feeds = {"x": xv, "acc": np.array(1.5, np.float32), "M": np.array(m, np.int64)}
                vs, av, scs = xv.copy(), np.float32(1.5), []
                for it in range(m):
                    scs.append(vs * 2)
                    vs = vs + np.float32(it)
                    av = av + np.float32(it)
                expect = [vs, av, np.stack(scs)]
            elif prog == "loop_many_results":
                k = int(rng.integers(11, 14))
                xs = [arg(Tn(np.float32, (j + 1,))) for j in range(k)]
                M = arg(Tn(np.int64, ()))

                def body(i, c, *vs):
                    calls.append(1)
                    return [c] + [op.add(v, op.const(np.float32(j + 1))) for j, v in enumerate(vs)] + [op.mul(vs[0], op.const(np.float32(2)))]

                res = op.loop(M, v_initial=xs, body=body)
                fin = [op.reshape(v, op.const(np.array([j + 1], np.int64))) for j, v in enumerate(res[:k])]
                sc = op.reshape(res[k], op.const(np.array([-1, 1], np.int64)))
                ins = {f"x{j}": x for j, x in enumerate(xs)}
                ins["M"] = M
                outs = {f"v{j}": v for j, v in enumerate(fin)}
                outs["sc"] = sc
                m = int(rng.integers(1, 4))
                xv = [rng.standard_normal(j + 1).astype(np.float32) for j in range(k)]
                feeds = {f"x{j}": v for j, v in enumerate(xv)}
                feeds["M"] = np.array(m, np.int64)
                expect = [v + np.float32(m * (j + 1)) for j, v in enumerate(xv)]
                expect.append(np.stack([(xv[0] + np.float32(it)) * 2 for it in range(m)]))
            elif prog == "scan_many_results":
                k = int(rng.integers(11, 14))
                t = int(rng.integers(1, 4))
                sts = [arg(Tn(np.float32, (j % 3 + 1,))) for j in range(k)]
                xs = arg(Tn(np.float32, (t,)))

                def body(*a):
                    calls.append(1)
                    x = a[-1]
                    return [op.add(s_, op.mul(x, op.const(np.float32(j + 1)))) for j, s_ in enumerate(a[:-1])] + [op.neg(x)]

                res = op.scan(sts + [xs], body=body, num_scan_inputs=1)
                ins = {f"s{j}": v for j, v in enumerate(sts)}
                ins["xs"] = xs
                outs = {f"f{j}": v for j, v in enumerate(res)}
                sv = [rng.standard_normal(j % 3 + 1).astype(np.float32) for j in range(k)]
                xv = rng.standard_normal(t).astype(np.float32)
                feeds = {f"s{j}": v for j, v in enumerate(sv)}
                feeds["xs"] = xv
                expect = []
                for j, v in enumerate(sv):
                    cur = v.copy()
                    for it in range(t):
                        cur = cur + xv[it] * np.float32(j + 1)
                    expect.append(cur)
                expect.append(-xv)
            elif prog == "if_many_results":
                k = int(rng.integers(11, 14))
                x = arg(Tn(np.float32, (2,)))
                b = arg(Tn(np.bool_, ()))

                def then_b():
                    calls.append(1)
                    return (op.add(x, op.const(np.float32(j))) for j in range(k))

                def else_b():
                    calls.append(1)
                    return [op.sub(x, op.const(np.float32(j))) for j in range(k)]

                res = op.if_(b, then_branch=then_b, else_branch=else_b)
                xv = rng.standard_normal(2).astype(np.float32)
                bv = bool(rng.integers(0, 2))
                ins, outs, feeds = {"x": x, "b": b}, {f"o{j}": v for j, v in enumerate(res)}, {"x": xv, "b": np.array(bv)}
                expect = [xv + np.float32(j) if bv else xv - np.float32(j) for j in range(k)]
            elif prog == "scan_reverse_out_axis":
                # input scanned in reverse, scan output stacked along axis 1: body argument types unchanged
                t = int(rng.integers(2, 5))
                d = int(rng.integers(1, 4))
                st = arg(Tn(np.float32, (d,)))
                xs = arg(Tn(np.float32, (t, d)))

                def body(s_, x):
                    calls.append(1)
                    y = op.add(op.mul(s_, op.const(np.float32(0.5))), x)
                    return [y, y]

                f, ys = op.scan([st, xs], body=body, num_scan_inputs=1, scan_input_directions=[1],
                                scan_output_axes=[1], scan_output_directions=[0])
                ins, outs = {"st": st, "xs": xs}, {"f": f, "ys": ys}
                sv = rng.standard_normal(d).astype(np.float32)
                xv = rng.standard_normal((t, d)).astype(np.float32)
                feeds = {"st": sv, "xs": xv}
                cur, ysv = sv.copy(), []
                for i in reversed(range(t)):
                    cur = cur * np.float32(0.5) + xv[i]
                    ysv.append(cur)
                expect = [cur, np.stack(ysv, axis=1)]
            elif prog in ("scan_rank1_state", "scan_rank2_state_two_scans", "scan_two_states"):
                t = int(rng.integers(1, 5))
                d = int(rng.integers(1, 4))
                if prog == "scan_rank1_state":
                    st = arg(Tn(np.float32, (d,)))
                    xs = arg(Tn(np.float32, (t, d)))

                    def body(s, x):
                        calls.append(1)
                        y = op.add(s, x)
                        return [y, y]

                    f, ys = op.scan([st, xs], body=body, num_scan_inputs=1)
                    ins, outs = {"st": st, "xs": xs}, {"f": f, "ys": ys}
                    sv = rng.standard_normal(d).astype(np.float32)
                    xv = rng.standard_normal((t, d)).astype(np.float32)
                    feeds = {"st": sv, "xs": xv}
                    cs = sv + np.cumsum(xv, axis=0)
                    expect = [cs[-1], cs]
                elif prog == "scan_rank2_state_two_scans":
                    st = arg(Tn(np.float32, (2, d)))
                    xs = arg(Tn(np.float32, (t, 2, d)))
                    ws = arg(Tn(np.float32, (t,)))

                    def body(s, x, w):
                        calls.append(1)
                        y = op.add(s, op.mul(x, w))
                        return [y, op.reduce_sum(y, keepdims=False)]

                    f, ys = op.scan([st, xs, ws], body=body, num_scan_inputs=2)
                    ins, outs = {"st": st, "xs": xs, "ws": ws}, {"f": f, "ys": ys}
                    sv = rng.standard_normal((2, d)).astype(np.float32)
                    xv = rng.standard_normal((t, 2, d)).astype(np.float32)
                    wv = rng.standard_normal(t).astype(np.float32)
                    feeds = {"st": sv, "xs": xv, "ws": wv}
                    cur, sums = sv.copy(), []
                    for i in range(t):
                        cur = cur + xv[i] * wv[i]
                        sums.append(cur.sum())
                    expect = [cur, np.array(sums, np.float32)]
                else:
                    s1 = arg(Tn(np.float32, (d,)))
                    s2 = arg(Tn(np.int64, ()))
                    xs = arg(Tn(np.float32, (t, d)))

                    def body(a, n, x):
                        calls.append(1)
                        return [op.add(a, x), op.add(n, op.const(np.int64(1))), op.mul(x, op.cast(n, to=np.float32))]

                    fa, fn, ys = op.scan([s1, s2, xs], body=body, num_scan_inputs=1)
                    ins, outs = {"s1": s1, "s2": s2, "xs": xs}, {"fa": fa, "fn": fn, "ys": ys}
                    av = rng.standard_normal(d).astype(np.float32)
                    xv = rng.standard_normal((t, d)).astype(np.float32)
                    feeds = {"s1": av, "s2": np.array(3, np.int64), "xs": xv}
                    expect = [av + xv.sum(axis=0), np.array(3 + t, np.int64),
                              np.stack([xv[i] * np.float32(3 + i) for i in range(t)])]
            elif prog in ("seqmap_tensor_extra", "seqmap_seq_extra"):
                d = int(rng.integers(1, 4))
                n = int(rng.integers(1, 4))
                sq = arg(Sq(Tn(np.float32, (d,))))
                seqv = [rng.standard_normal(d).astype(np.float32) for _ in range(n)]
                if prog == "seqmap_tensor_extra":
                    tt = arg(Tn(np.float32, (d,)))

                    def body(a, b):
                        calls.append(1)
                        return [op.add(a, b)]

                    (o,) = op.sequence_map(sq, [tt], body=body)
                    tv = rng.standard_normal(d).astype(np.float32)
                    ins, outs, feeds = {"sq": sq, "t": tt}, {"o": o}, {"sq": seqv, "t": tv}
                    expect = [[s + tv for s in seqv]]
                else:
                    s2 = arg(Sq(Tn(np.float32, (d,))))

                    def body(a, b):
                        calls.append(1)
                        return [op.mul(a, b)]

                    (o,) = op.sequence_map(sq, [s2], body=body)
                    s2v = [rng.standard_normal(d).astype(np.float32) for _ in range(n)]
                    ins, outs, feeds = {"sq": sq, "s2": s2}, {"o": o}, {"sq": seqv, "s2": s2v}
                    expect = [[a * b for a, b in zip(seqv, s2v)]]
            else:
                x = arg(Tn(np.float32, (2,)))
                b = arg(Tn(np.bool_, ()))

                def then_b():
                    calls.append(1)
                    return [op.add(x, x)]

                def else_b():
                    calls.append(1)
                    return [op.neg(x)]

                (o,) = op.if_(b, then_branch=then_b, else_branch=else_b)
                xv = rng.standard_normal(2).astype(np.float32)
                bv = bool(rng.integers(0, 2))
                ins, outs, feeds = {"x": x, "b": b}, {"o": o}, {"x": xv, "b": np.array(bv)}
                expect = [xv + xv if bv else -xv]
            n_calls = len(calls)
            stage = "build"
            model = build(ins, outs)
            build(ins, outs)
            stage = "recalled"
            if len(calls) != n_calls:
                return (stage, f"callbacks invoked {len(calls) - n_calls} more time(s) by build")
            stage = "run"
            sess = ort.InferenceSession(model.SerializeToString(), providers=["CPUExecutionProvider"])
            got = sess.run(None, feeds)
    except Exception as e:  # noqa: BLE001
        return (stage + ":" + type(e).__name__, str(e)[:200])
    for g, w in zip(got, expect):
        if isinstance(w, list):
            ok = len(g) == len(w) and all(np.allclose(a, b, rtol=1e-4, atol=1e-5) for a, b in zip(g, w))
        else:
            ok = np.shape(g) == np.shape(w) and np.allclose(g, w, rtol=1e-4, atol=1e-5)
        if not ok:
            return ("mismatch", f"onnxruntime {g!r} != numpy {w!r}")
    return None


def prog_ctor(prog):
    return {"loop": "loop", "scan": "scan", "seqm": "sequence_map", "if_n": "if_", "if_m": "if_"}[prog[:4]]


# ----------------------------------------------------------------------------- subgraph(types, fun) called directly
DIRECT_OK = ["list", "tuple", "gen", "iter", "map", "dictkeys", "oneshot"]
DIRECT_BAD = {"none": "notIterable", "int": "notIterable", "type": "notIterable", "listNonType": "hasNonType",
              "str": "hasNonType", "listWithNone": "hasNonType", "genWithInt": "hasNonType"}


def direct_cases(ck):
    rng = ck.rng
    lists = [[], [T(F32, (2,))], [T(F32, ()), {"seq": T(I64, (2,))}, {"opt": T(F32, (2,))}],
             [T([F32, I64, I32, F64, BOOL][i % 5], (i + 1,)) for i in range(12)]]
    cbs = [{"beh": "vars", "n": 2, "container": "list"}, {"beh": "vars", "n": 1, "container": "gen"},
           {"beh": "vars", "n": 0, "container": "tuple"}, {"beh": "nonIterable", "n": 1, "variant": 1},
           {"beh": "hasNonVar", "n": 2, "bad": "int", "pos": 1}, {"beh": "hasNonVar", "n": 3, "bad": "listOfVars", "pos": 0},
           {"beh": "notCallable", "n": 0, "variant": 2}, {"beh": "raises", "n": 1}]
    out = []
    for cont in DIRECT_OK:
        for tys in lists:
            for cb in cbs:
                out.append({"kind": "direct", "types": cont, "tys": tys, "cb": dict(cb)})
    for bad in DIRECT_BAD:
        for cb in (cbs[0], cbs[6]):
            out.append({"kind": "direct", "types": bad, "tys": [T(F32, (2,))], "cb": dict(cb)})
    for _ in range(ck.pick(30, 300)):
        tys = [rng.choice(POOL + EXTRA_TYPES) for _ in range(rng.randrange(0, 6))]
        out.append({"kind": "direct", "types": rng.choice(DIRECT_OK), "tys": tys, "cb": dict(rng.choice(cbs))})
    from harness import lib_c19forms as forms

    for tys in lists[:3]:
        for fm in forms.ACCEPTED + forms.REJECTED:
            if forms.applicable(fm, len(tys)):
                cb = dict(cbs[0], form=fm)
                if fm in forms.REJECTED:
                    cb["beh"] = "badArity"
                out.append({"kind": "direct", "types": rng.choice(DIRECT_OK), "tys": tys, "cb": cb})
    return out


def run_direct_case(env: Env, case):
    """-> observation of one direct `subgraph(types, fun)` call (op = the first opset module)."""
    op = env.mods[sorted(env.mods, key=lambda q: int(q[1:]))[0]]
    sub = env.graph.subgraph
    ts = [env.to_spox(d) for d in case["tys"]]
    kind = case["types"]
    if kind in DIRECT_OK:
        obj = {"list": list, "tuple": tuple, "gen": lambda x: (t for t in x), "iter": iter, "map": lambda x: map(lambda t: t, x),
               "dictkeys": lambda x: {t: 0 for t in x}.keys(), "oneshot": _OneShot}[kind](ts)
        if kind == "dictkeys" and len(set(ts)) != len(ts):
            obj = list(ts)
    else:
        obj = {"none": None, "int": 3, "type": ts[0], "listNonType": [1, 2], "str": "ab", "listWithNone": [ts[0], None],
               "genWithInt": (x for x in [ts[0], 7])}[kind]
    rec, counters = [], {}
    fake = {"ctor": "loop", "cbs": {"body": case["cb"]}, "lists": {"v_initial": []}, "k_extra": 0, "rel": "same"}
    fun = make_callback(env, op, "loop", fake, "body", rec, counters)
    if case["cb"]["beh"] in ("vars", "hasNonVar", "badArity"):
        n = case["cb"]["n"]
        inner = fun

        def fun(*args):  # results unrelated to Loop's conventions: n constants (or the malformed list)
            counters["body"] = counters.get("body", 0) + 1
            rec.append(("body", args))
            vs = [op.const(float(i)) for i in range(max(n, 3))]
            if case["cb"]["beh"] == "hasNonVar":
                vs = vs[:n]
                vs[case["cb"]["pos"] % n] = 3 if case["cb"]["bad"] == "int" else [op.const(1.0), op.const(2.0)]
                return vs
            vs = vs[:n]
            cont = case["cb"].get("container", "list")
            return tuple(vs) if cont == "tuple" else ((v for v in vs) if cont == "gen" else vs)

        del inner
    if case["cb"].get("form"):
        from harness import lib_c19forms as forms

        fun = forms.make_form(case["cb"]["form"], fun, len(ts))
    obs = {"events": [], "fresh": True, "unnamed": True}
    try:
        with warnings.catch_warnings():
            warnings.simplefilter("ignore")
            g = sub(obj, fun)
        obs["result"] = ("ok", len(g.requested_results), len(g.requested_arguments or ()))
    except (Exception, _BoomBase) as e:  # noqa: BLE001
        obs["result"] = ("err", type(e).__name__, str(e)[:160])
    for _role, args in rec:
        obs["events"].append([env.from_spox(a.type) if isinstance(a, env.Var) else "non-var" for a in args])
        for a in args:
            if id(a) in env.seen_ids:
                obs["fresh"] = False
            env.seen_ids.add(id(a))
            env.seen_vars.append(a)
            if getattr(a, "_name", None) is not None:
                obs["unnamed"] = False
        if len({id(a) for a in args}) != len(args):
            obs["fresh"] = False
    obs["count"] = counters.get("body", 0)
    return obs


def judge_direct(case, obs):
    """Model-free: the callback is invoked once with exactly the arguments `types` prescribes."""
    bad = []
    beh = case["cb"]["beh"]
    res = obs["result"]
    if case["types"] not in DIRECT_OK:
        return bad  # malformed `types`: nothing is prescribed for the callback (model correspondence only)
    want = case["tys"]
    fm = case["cb"].get("form")
    if fm:
        from harness import lib_c19forms as forms

        acc = forms.python_accepts(fm, len(want))
        if not acc:
            if not (res[0] == "err" and res[1] == "TypeError"):
                bad.append((f"subgraph:direct:callback-form:{fm}:{res[1] if res[0] == 'err' else 'no exception'}",
                            f"a callback of the form `{fm}` cannot take {len(want)} arguments: expected TypeError, got {res[:2]}"))
            if obs["count"]:
                bad.append((f"subgraph:direct:callback-form:{fm}:entered", f"callback of the form `{fm}` entered"))
            return bad
        if res[0] == "err" and obs["count"] == 0:
            bad.append((f"subgraph:direct:callback-form:{fm}:rejected:{res[1]}",
                        f"subgraph(types, fun): a valid callback of the form `{fm}` ({len(want)} arguments) was rejected with {res[1]}: {res[2]}"))
            return bad
        beh = "vars"
    if obs["count"] > 1 or (beh != "notCallable" and obs["count"] != 1):
        bad.append((f"subgraph:direct:count={obs['count']}", f"subgraph(types, fun) invoked fun {obs['count']} times"))
    for types in obs["events"]:
        if len(types) != len(want):
            bad.append(("subgraph:direct:nargs", f"subgraph(<{case['types']} of {len(want)} types>, fun) called fun with {len(types)} arguments"))
        elif types != want:
            bad.append(("subgraph:direct:type", f"subgraph called fun with arguments typed {types}, types given: {want}"))
    if not obs["fresh"]:
        bad.append(("subgraph:direct:args:not-fresh", "an argument of a direct subgraph() call is not a fresh Var"))
    if not obs["unnamed"]:
        bad.append(("subgraph:direct:args:named", "an argument of a direct subgraph() call carries a name"))
    if beh == "vars" and res[0] == "ok" and res[1] != case["cb"]["n"]:
        bad.append(("subgraph:direct:out-count", f"callback returned {case['cb']['n']} Vars, the subgraph has {res[1]} results"))
    if beh in ("notCallable", "nonIterable", "hasNonVar") and not (res[0] == "err" and res[1] == "TypeError"):
        bad.append((f"subgraph:direct:bad-callback:{beh}:{res[1] if res[0] == 'err' else 'no exception'}",
                    f"{beh} callback: expected TypeError, got {res[:2]}"))
    return bad


def direct_request(case):
    kind = "ok" if case["types"] in DIRECT_OK else DIRECT_BAD[case["types"]]
    cb = {"id": 0, "beh": "vars" if case["cb"]["beh"] == "badArity" else case["cb"]["beh"], "n": case["cb"].get("n", 0)}
    if case["cb"].get("form"):
        from harness import lib_c19forms as forms

        cb["sig"] = forms.sig_of(case["cb"]["form"], len(case["tys"]))
    return {"direct": {"types": kind, "tys": case["tys"] if kind == "ok" else [], "cb": cb}}


def compare_direct(case, obs, m):
    if m is None or "error" in m:
        return f"model error: {m}"
    if [e["types"] for e in m["events"]] != obs["events"]:
        return f"events differ: real={obs['events']} model={[e['types'] for e in m['events']]}"
    res, mr = obs["result"], m["result"]
    if "err" in mr:
        want = {"TypeError": "TypeError", "AttributeError": "AttributeError", "Other": "_Boom"}[mr["err"]]
        if not (res[0] == "err" and (res[1] == want or (want == "_Boom" and res[1] == "_BoomBase"))):
            return f"model raises {mr['err']}, real: {res}"
    elif not (res[0] == "ok" and res[1] == mr["ok"] and res[2] == mr["nargs"]):
        return f"model: {mr}, real: {res}"
    if obs["count"] != m["count"]:
        return f"invocations: real={obs['count']} model={m['count']}"
    return None


def run_direct(ck: core.Check, env: Env):
    stats = {"cases": 0, "mismatches": 0, "results": {}}
    if getattr(env.graph, "subgraph", None) is None:
        ck.broken("correspondence", "C19 facet of spox not observable", "spox._graph.subgraph (direct entry point) not found")
        return stats
    cases = direct_cases(ck)
    try:
        models = ck.driver().ask_many("C19", [direct_request(c) for c in cases])
    except Exception as e:  # noqa: BLE001
        ck.broken("correspondence", "C19 driver (direct)", str(e))
        models = []
    if len(models) != len(cases):
        models = [None] * len(cases)
    for case, m in zip(cases, models):
        try:
            obs = run_direct_case(env, case)
        except Exception as e:  # noqa: BLE001
            if stats["cases"] == 0:
                ck.broken("correspondence", "C19 direct subgraph() case not observable", f"{type(e).__name__}: {e}\n{core.fmt_exc()[-500:]}")
            continue
        stats["cases"] += 1
        k = obs["result"][0] if obs["result"][0] == "ok" else obs["result"][1]
        stats["results"][k] = stats["results"].get(k, 0) + 1
        ck.count(("direct", case["types"], repr(case["tys"]), repr(sorted(case["cb"].items()))))
        for key, what in judge_direct(case, obs):
            ck.failure(key, what, {"kind": "direct", "case": case})
        if m is not None:
            d = compare_direct(case, obs, m)
            if d:
                stats["mismatches"] += 1
                if stats["mismatches"] <= 3:
                    ck.broken("correspondence", "C19 model-vs-implementation (direct subgraph())", f"case={case} :: {d}")
    ck.cov["direct_subgraph"] = stats
    return stats


# ----------------------------------------------------------------------------- nested control flow
def run_nested(ck: core.Check, env: Env):
    import sys

    from harness import lib_c19nest as nest

    P = sys.modules[__name__]
    rng = ck.rng
    mods = [m for m in sorted(env.mods, key=lambda q: int(q[1:])) if all(hasattr(env.mods[m], c) for c in CTORS)]
    stats = {"programs": 0, "constructed": 0, "rejected": {}, "depth": {}, "bodies": 0, "step_errors": {}, "mismatches": 0,
             "pairs": {}, "unobservable": {}}
    if not mods:
        return stats
    esc = getattr(ck, "c19_escalated", False)
    progs = nest.gen_programs(rng, P, mods, ck.pick(150 if esc else 45, 400), ck.pick(50 if esc else 15, 150))
    progs += nest.add_failing(rng, progs, ck.pick(90 if esc else 36, 240))  # one malformed callback somewhere in the tree
    try:
        models = ck.driver().ask_many("C19", [nest.model_request(p_, nest.STEPS) for p_ in progs])
    except Exception as e:  # noqa: BLE001
        ck.broken("correspondence", "C19 driver (nested)", str(e))
        models = [None] * len(progs)
    if len(models) != len(progs):
        ck.broken("correspondence", "C19 driver (nested)", f"{len(models)} answers for {len(progs)} requests")
        models = [None] * len(progs)
    for prog, m in zip(progs, models):
        try:
            obs = nest.run_program(env, prog)
        except Exception as e:  # noqa: BLE001
            sig = f"{type(e).__name__}: {str(e)[:120]}"
            stats["unobservable"][sig] = stats["unobservable"].get(sig, 0) + 1
            if stats["unobservable"][sig] == 1 and len(stats["unobservable"]) <= 3:
                ck.broken("correspondence", "C19 nested program not observable", f"{sig}\n{core.fmt_exc()[-600:]}")
            continue
        bodies = list(nest.all_bodies(prog["call"]))
        depth = max(d for *_x, d, _p in bodies)
        ck.count(("nested", prog["mod"], repr(nest.model_call(prog["call"]))))
        stats["programs"] += 1
        stats["bodies"] += len(bodies)
        stats["depth"][depth] = stats["depth"].get(depth, 0) + 1
        for b, call, role, d, parent in bodies:
            if parent is not None:
                pc = next(c for bb, c, *_r in bodies if bb["id"] == parent)
                k = f"{pc['ctor']}>{call['ctor']}"
                stats["pairs"][k] = stats["pairs"].get(k, 0) + 1
        if obs["result"][0] == "ok":
            stats["constructed"] += 1
        else:
            k = f"{prog['call']['ctor']}:{obs['result'][1]}"
            stats["rejected"][k] = stats["rejected"].get(k, 0) + 1
        for st, en, _msg in obs["step_errors"]:
            stats["step_errors"][f"{st}:{en}"] = stats["step_errors"].get(f"{st}:{en}", 0) + 1
        for k, what in nest.judge(P, prog, obs):
            ck.failure(k, what, {"kind": "nested", "prog": prog})
        if m is not None:
            d_ = nest.compare(prog, obs, m, nest.STEPS)
            if d_:
                stats["mismatches"] += 1
                if stats["mismatches"] <= 3:
                    ck.broken("correspondence", "C19 model-vs-implementation (nested)", f"mod={prog['mod']} call={nest.model_call(prog['call'])} :: {d_}")
    ck.cov["nested"] = stats
    return stats


# ----------------------------------------------------------------------------- run
def run(ck: core.Check):
    from translator import subgraph_specs

    try:
        info = subgraph_specs.generate()
    except Exception as e:  # noqa: BLE001 - a source the extractor cannot read is a broken tie, not a crash
        ck.broken("translator", "C19 subgraph spec extraction", f"{type(e).__name__}: {e}\n{core.fmt_exc()}")
        info = {"modules": {}, "generator": {}, "sites": {}, "resolves": fallback_resolves()}
    problems = []
    for m, fns in info["modules"].items():
        for c, spec in fns.items():
            problems += [f"{m}.{c}: {p}" for p in spec["problems"]]
            if c not in CTORS:
                problems.append(f"{m}.{c}: calls subgraph() but is not a known control-flow constructor")
    for c, spec in info["generator"].items():
        problems += [f"generate_opset.py {c}: {p}" for p in spec["problems"]]
    for p in problems:
        ck.broken("translator", "C19 subgraph spec extraction", p)
    try:
        from translator import callgraph

        cg = callgraph.generate()
        ck.cov["call_graph"] = {
            "functions": cg["n_functions"], "nodes": len(cg["nodes"]), "edges": len(cg["edges"]),
            "edges_from_reachable": cg["edges_emitted"], "reachable": len(cg["reach"]),
            "entry_points": {k: len(v) for k, v in cg["entries"].items()},
            "sinks": cg["sinks_why"], "dynamic_calls": cg["dynamic"],
        }
        for sink, path in cg["sink_paths"].items():
            ck.broken("callgraph", f"stored callback reachable: {sink}", " -> ".join(path))
    except Exception as e:  # noqa: BLE001
        ck.broken("translator", "C19 call graph extraction", f"{type(e).__name__}: {e}\n{core.fmt_exc()}")
    # change-triggered escalation (tie G): normalised-AST hashes of the covered functions vs the validated tree
    try:
        from harness import lib_c19_sources

        _cur, diff = lib_c19_sources.changed()
    except Exception as e:  # noqa: BLE001
        diff = [f"<hash extraction failed: {type(e).__name__}>"]
    ck.c19_escalated = bool(diff)
    ck.cov["source_changes_vs_validated_tree"] = diff[:60]
    if diff:
        ck.log(f"covered sources differ from the validated tree ({len(diff)} entries, e.g. {diff[:3]}): larger counts")
    inv = info.get("inventory", {})
    for p in inv.get("problems", []):
        ck.broken("translator", "C19 constructor inventory", p)
    ck.cov["constructor_inventory"] = {"callable_params": inv.get("callableParams"), "attr_wiring": inv.get("attrWiring")}
    ck.cov["generated_specs"] = {f"{m}.{c}": s["subgraphs"] for m, f in info["modules"].items() for c, s in f.items()}
    ck.cov["callback_sites"] = info["sites"]
    ck.lean(["SpoxModel.Props.C19"], audit="SpoxModel.Audit.C19")
    if ck.thorough:  # every hand-written module the property theorems rest on
        ck.leanchecker(["SpoxModel.Props.C19", "SpoxModel.Lemmas.Subgraph", "SpoxModel.Lemmas.SubgraphNested",
                        "SpoxModel.Model.Subgraph", "SpoxModel.Model.SubgraphNested", "SpoxModel.Model.SubgraphSpec",
                        "SpoxModel.Model.CallForm", "SpoxModel.Model.CallGraph",
                        "SpoxModel.Model.SubgraphNames", "SpoxModel.Lemmas.SubgraphNames"])

    env = Env()
    install_spy(env)
    for pr in env.problems:
        ck.broken("correspondence", "C19 facet of spox not observable", pr)
    try:
        _run(ck, env, info)
    finally:
        remove_spy(env)


def _run(ck: core.Check, env: Env, info):
    rng = ck.rng
    defs, resolves = defining_modules(info)
    # re-exported constructors are the very same function objects (behavioural, by import)
    for m, c, d in resolves:
        if m not in env.mods or d not in env.mods or getattr(env.mods[m], c, None) is not getattr(env.mods[d], c, 0):
            ck.broken("correspondence", "C19 resolves", f"{m}.{c} is not {d}.{c}")
    resolves = [r for r in resolves if r[0] in env.mods and r[2] in env.mods]
    info = dict(info, resolves=resolves)
    cases = gen_cases(ck, info)
    # which cases also get the later steps (builds, inference, value propagation)
    n_steps = ck.pick(600 if getattr(ck, "c19_escalated", False) else 300, 2200)
    idx = list(range(len(cases)))
    def steppable(c):
        ds = [d for v in c.get("lists", {}).values() for d in v] + list(c.get("singles", {}).values())
        return all(concrete(d) for d in ds) and prescription(c) is not None

    idx_ok = [i for i in idx if steppable(cases[i])]
    small = [i for i in idx_ok if sum(len(v) for v in cases[i].get("lists", {}).values()) <= 1]
    chosen = set(small[: n_steps // 3])
    rest = [i for i in idx_ok if i not in chosen]
    rng.shuffle(rest)
    chosen |= set(rest[: n_steps - len(chosen)])
    steps_of = [STEPS_FULL if i in chosen else [] for i in idx]

    try:
        model = ck.driver().ask_many("C19", [model_request(c, s) for c, s in zip(cases, steps_of)])
    except Exception as e:  # noqa: BLE001
        ck.broken("correspondence", "C19 driver", str(e))
        model = [None] * len(cases)
    if len(model) != len(cases):
        ck.broken("correspondence", "C19 driver", f"{len(model)} answers for {len(cases)} requests")
        model = [None] * len(cases)

    stats = {"ctor": {}, "stage": {}, "model_err": 0, "with_steps": 0, "step_errors": {}, "containers": {},
             "behaviours": {}, "ambient": {}, "max_operands": 0, "prescribed": 0, "relations": {}, "relations_constructed": {}}
    mismatches = 0
    unobservable = {}
    for case, steps, m in zip(cases, steps_of, model):
        try:
            obs = run_real(env, case, steps)
        except Exception as e:  # noqa: BLE001 - the harness could not look; never a crash, never a verdict by itself
            sig = f"{type(e).__name__}: {str(e)[:120]}"
            unobservable[sig] = unobservable.get(sig, 0) + 1
            if len(unobservable) <= 3 and unobservable[sig] == 1:
                ck.broken("correspondence", "C19 case not observable", f"case={case} :: {sig}\n{core.fmt_exc()[-600:]}")
            continue
        nops = sum(len(v) for v in case.get("lists", {}).values())
        key = (case["mod"], case["ctor"], repr(case.get("lists")), repr(case.get("singles")), repr(case.get("ints")),
               repr(case.get("axes")), repr(case.get("scan_attrs")), case.get("rel"), case.get("ambient"),
               case.get("M"), repr(case.get("cond")), case.get("if_cond"), case.get("opcont"), case.get("dupvar"), case.get("kwcall"), repr(sorted((r, c["beh"], c.get("n"), c.get("form")) for r, c in case["cbs"].items())))
        ck.count(key if (nops >= 1 or not all_good(case)) else None)
        stats["ctor"][case["ctor"]] = stats["ctor"].get(case["ctor"], 0) + 1
        stats["stage"][obs["stage"]] = stats["stage"].get(obs["stage"], 0) + 1
        if case["ctor"] != "if_":
            rl = case.get("rel", "same")
            stats["relations"][rl] = stats["relations"].get(rl, 0) + 1
            if obs["stage"] == "done":
                stats["relations_constructed"][rl] = stats["relations_constructed"].get(rl, 0) + 1
        stats["max_operands"] = max(stats["max_operands"], nops)
        ak = str(case.get("ambient"))
        stats["ambient"][ak] = stats["ambient"].get(ak, 0) + 1
        stats["prescribed"] += int(prescription(case) is not None)
        stats["with_steps"] += int(bool(obs["steps"]))
        for st, en, msg in obs["step_errors"]:
            stats["step_errors"][f"{st}:{en}"] = stats["step_errors"].get(f"{st}:{en}", 0) + 1
            if len(stats.setdefault("step_error_samples", [])) < 3:
                stats["step_error_samples"].append({"step": st, "error": f"{en}: {msg}", "case": case})
        for c in case["cbs"].values():
            stats["behaviours"][c["beh"]] = stats["behaviours"].get(c["beh"], 0) + 1
            if c["beh"] == "hasNonVar":
                bk = c.get("bad", "scalar")
                stats.setdefault("bad_elements", {})[bk] = stats.setdefault("bad_elements", {}).get(bk, 0) + 1
            if c.get("form"):
                stats.setdefault("forms", {})[c["form"]] = stats.setdefault("forms", {}).get(c["form"], 0) + 1
            if c["beh"] == "vars":
                stats["containers"][c.get("container")] = stats["containers"].get(c.get("container"), 0) + 1
        if len(ck.samples) < 4 and nops >= 2:
            ck.sample({"case": case, "events": obs["events"], "result": obs["result"], "counts": obs["counts"]}, 4)
        # model-free oracle
        for k, what in judge(case, obs):
            ck.failure(k, what, {"kind": "ctor", "case": case, "steps": steps})
        # correspondence with the model
        if m is not None:
            stats["model_err"] += int("err" in m.get("result", {}))
            d = compare(case, obs, m, steps)
            if d:
                mismatches += 1
                if mismatches <= 3:
                    ck.broken("correspondence", "C19 model-vs-implementation", f"case={case} :: {d}")
    # ---- nested control flow: callbacks that call control-flow constructors themselves (depth 2-3)
    nstats = run_nested(ck, env)
    # ---- the documented-internal entry point itself: subgraph(types, fun)
    run_direct(ck, env)
    # round 10: the name glue of subgraph() (enum_arguments / enum_results), model `Model/SubgraphNames.lean`
    try:
        from harness import lib_c19names

        lib_c19names.run(ck, env)
    except Exception as e:  # noqa: BLE001
        ck.broken("correspondence", "C19 name-glue facet", f"{type(e).__name__}: {e}\n{core.fmt_exc()[-400:]}")
    # ---- onnxruntime: bodies that use their arguments
    n_ort = 0
    jobs = []
    for mod in env.mods:
        for prog in ORT_PROGS:
            for rep in range(ck.pick(1, 5)):
                jobs.append((mod, prog, rng.randrange(1 << 30)))
    # in child processes (one per module, in parallel): a native crash of onnx / onnxruntime is a per-program result
    try:
        from harness import lib_c19ort

        ort_results = lib_c19ort.run_jobs(jobs)
    except Exception as e:  # noqa: BLE001
        ck.broken("correspondence", "C19 onnxruntime child processes", f"{type(e).__name__}: {e}")
        ort_results = [None] * len(jobs)
    crashes = 0
    for (mod, prog, seed), r in zip(jobs, ort_results):
        n_ort += 1
        ck.count(("ort", mod, prog))
        if r is not None and r[0] == "child-crash":
            crashes += 1
            ck.broken("correspondence", "C19 onnxruntime program crashed its child process", f"{mod}.{prog} seed={seed}: {r[1]}")
        elif r is not None and str(r[0]).startswith("harness:"):
            ck.broken("correspondence", "C19 onnxruntime program not observable", f"{mod}.{prog}: {r[0]} {r[1]}")
        elif r is not None:
            ck.failure(f"{prog_ctor(prog)}:ort:{prog}:{r[0]}", f"{mod}.{prog}: {r[0]}: {r[1]}",
                       {"kind": "ort", "mod": mod, "prog": prog, "seed": seed})
    ck.cov["ort_child_crashes"] = crashes
    ck.cov.update({
        "correspondence_cases": len(cases),
        "correspondence_mismatches": mismatches,
        "ort_programs": n_ort,
        "unobservable_cases": unobservable,
        "distribution": stats,
        "modules": sorted(env.mods),
    })
    ck.exhaustive = False
    ck.rule = (
        f"every ai.onnx module defining the constructor x all operand lists of length <= 3 (Scan: <= {ck.pick(2, 3)}, plus seeded length-3 lists) over "
        f"{len(POOL)} types (ranks 0-3, symbolic/unknown dims, unknown shape, sequences, optionals) "
        "[Loop: carried; Scan: tensors x every num_scan_inputs 0..len+1 x scan axes none/0/-1/1; SequenceMap: 3 "
        "sequence types x tensor/sequence extras] + seeded length-3 lists, unknown-typed and ill-kinded operands, "
        "lists of 9-14 pairwise differently typed operands, every case possibly inside a scoped setting (operator_overloading x3, value_prop_backend NONE/ORT, type_warning_level NONE/OUTPUTS) with a systematic sweep of malformed results under each, 9 relations between the values a body feeds back and its arguments (same / identity / other constant dim / other rank / other dtype / unknown rank / swapped / outer-scope value / constant), 5 result containers, malformed callbacks (not callable / non-iterable / non-Var element / raising) and "
        "unnatural result counts; non-trivial = at least one operand or a malformed callback; distinct by "
        "(module, constructor, operand types, num_scan_inputs, axes, callback behaviours)"
    )
    ck.assumptions += [
        "the ONNX prescription of body inputs as written in Model/SubgraphSpec.lean (and, independently, in harness/props/c19.py: prescription())",
        "translator/subgraph_specs.py maps the constructors' restricted expression language faithfully (validated by the event correspondence on every run)",
        "later steps reach a callback only through the call sites the translator looks for (_reconstruct / _constructor / a parameter call in _graph.py / subgraph()); validated by re-reading the counters after 3 builds, inference, value propagation, to_onnx and inspection",
    ]
    ck.trusted_base += [
        "C19: the spy on Node.__init__ (records out_variadic of control-flow nodes; observation only, removed after the run)",
    ]


def replay(ck: core.Check, doc) -> bool:
    case = doc.get("case")
    if doc.get("kind") == "obligation" or case is None:
        from translator import subgraph_specs

        subgraph_specs.generate()
        res = ck.lean(["SpoxModel.Props.C19"], audit="SpoxModel.Audit.C19")
        for b in ck.broken_items:
            print("still broken:", b["kind"], b["name"], b["detail"][:200])
        return not res.ok
    env = Env()
    key = doc.get("key")
    known = {f["key"] for f in core.load_findings() if f["property"] == "C19" and f.get("status") == "known"}
    if case.get("kind") == "direct":
        hit = False
        obs = run_direct_case(env, case["case"])
        for k, what in judge_direct(case["case"], obs):
            mine = (k == key) if key else (k not in known)
            print(("* " if mine else "  ") + f"{k}: {what}")
            hit = hit or mine
        return hit
    if case.get("kind") in ("names", "names-loop", "dummy"):
        from harness import lib_c19names

        return lib_c19names.replay(env, case, key, known)
    if case.get("kind") == "nested":
        import sys

        from harness import lib_c19nest as nest

        P = sys.modules[__name__]
        hit = False
        for _rep in range(2):
            obs = nest.run_program(env, case["prog"])
            for k, what in nest.judge(P, case["prog"], obs):
                mine = (k == key) if key else (k not in known)
                print(("* " if mine else "  ") + f"{k}: {what}")
                hit = hit or mine
        return hit
    if case.get("kind") == "ort":
        from harness import lib_c19ort

        r = lib_c19ort.run_jobs([(case["mod"], case["prog"], case["seed"])], 1)[0]
        if r is not None:
            print(f"* {case['mod']}.{case['prog']}: {r[0]}: {r[1]}")
        return r is not None and r[0] != "child-crash" and not str(r[0]).startswith("harness:")
    install_spy(env)
    try:
        # twice in one process: argument Vars must be fresh for every call, also for equal operand types
        obs = run_real(env, case["case"], case.get("steps", []))
        obs2 = run_real(env, case["case"], [])
    finally:
        remove_spy(env)
    bad = judge(case["case"], obs)
    bad += [b for b in judge(case["case"], obs2) if b not in bad]
    hit = False
    for k, what in bad:
        mine = (k == key) if key else (k not in known)
        print(("* " if mine else "  ") + f"{k}: {what}")
        hit = hit or mine
    return hit
