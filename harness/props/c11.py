"""C11 — every shipped operator constructor conforms to its ONNX schema.

tie G : translator/constructors.py — source text of the 8 opset modules (ast) and onnx.defs ->
        Generated/{Constructors,Schemas,Conforms}_<module>.lean; one kernel-decided obligation per
        operator/module pair (`conforms_<module>_<Op>`), `table_conforms` over all of them
proof  : Props/C11.lean (emit_slots, slot_position, emit_attrs, conforming_call, table_conforms, …)
tie H  : (a) the extraction is compared with the live modules (dataclasses.fields, inspect.signature,
        op_type) — a disagreement is a translator bug, not a verdict; (b) the constructor-call model
        (`Conform.callAttrs/callInputs` + `Emit.emitNode`, run by the driver on the extracted
        constructor) is compared with the NodeProto of the real constructor on every oracle case
oracle : model-free — reflection on the live tables/signatures vs. onnx.defs, and real constructor
        calls with subsets of optional inputs / attributes (sentinel arguments), NodeProto compared
        with the schema slot by slot and attribute by attribute, plus onnx.checker.check_node
"""
from __future__ import annotations

import contextlib
import dataclasses
import importlib
import inspect
import itertools
import re
import struct
import typing
import warnings

from harness import core


# ----------------------------------------------------------------------------- environment
class Env:
    """The public API is required; internals the harness observes through are optional."""

    def __init__(self, ck=None):
        import numpy as np
        import onnx
        import spox
        import spox.opset.ai.onnx.v17 as op17
        from spox import argument

        self.np, self.onnx, self.spox = np, onnx, spox
        self.argument = argument
        self.Var = spox.Var
        self.op17 = op17
        self.missing = []

        def opt(name, getter):
            try:
                return getter()
            except Exception as e:  # noqa: BLE001
                self.missing.append(f"{name}: {type(e).__name__}: {e}")
                return None

        self.ts = opt("spox._type_system", lambda: __import__("spox._type_system", fromlist=["Tensor"]))
        self.Scope = opt("spox._scope.Scope", lambda: __import__("spox._scope", fromlist=["Scope"]).Scope)
        self.StandardNode = opt("spox._standard.StandardNode",
                                lambda: __import__("spox._standard", fromlist=["StandardNode"]).StandardNode)
        self.Node = opt("spox._node.Node", lambda: __import__("spox._node", fromlist=["Node"]).Node)
        self.VarFieldKind = opt("spox._fields.VarFieldKind",
                                lambda: __import__("spox._fields", fromlist=["VarFieldKind"]).VarFieldKind)
        if ck is not None:
            for m in self.missing:
                ck.broken("correspondence", "spox internal not observable", m)
        self._mods = {}
        self._force = {}

    def tensor(self, dtype, shape):
        return self.spox.Tensor(dtype, shape)

    def module(self, pymod):
        if pymod not in self._mods:
            with warnings.catch_warnings():
                warnings.simplefilter("ignore")
                self._mods[pymod] = importlib.import_module(pymod)
        return self._mods[pymod]

    def schemas(self, domain, version):
        from translator.constructors import schemas_in_force

        key = (domain, version)
        if key not in self._force:
            self._force[key] = schemas_in_force(domain, version)
        return self._force[key]

    @contextlib.contextmanager
    def no_inference(self):
        """Standard operators are constructed without type inference / value propagation: the
        oracle is about slotting and attributes (C05/C06 cover inference), and sentinel arguments
        need not be meaningful for the operator."""
        SN = self.StandardNode
        saved = {k: SN.__dict__.get(k) for k in ("inference", "validate_types")}
        SN.inference = lambda self, *a, **k: None
        SN.validate_types = lambda self: None
        try:
            with warnings.catch_warnings():
                warnings.simplefilter("ignore")
                yield
        finally:
            for k, v in saved.items():
                if v is None:
                    delattr(SN, k)
                else:
                    setattr(SN, k, v)


def f32_bits(x) -> int:
    import numpy as np

    return int(np.array(x, dtype=np.float32).view(np.uint32))


# ----------------------------------------------------------------------------- (a) extractor vs live
def live_value(v, ann: str) -> dict:
    import numpy as np

    from translator.constructors import py_value

    if isinstance(v, type) and issubclass(v, np.generic):
        return {"t": "dtype", "v": v.__name__}
    return py_value(v, ann)


def validate_against_live(ck, env: Env, info) -> int:
    """The AST extraction agrees with the imported modules. Returns the number of comparisons."""
    from translator.constructors import ATTR_KINDS, MODULES

    n = 0
    bad = []

    def chk(cond, what):
        nonlocal n
        n += 1
        if not cond and len(bad) < 8:
            bad.append(what)

    KIND = {env.VarFieldKind.SINGLE: "single", env.VarFieldKind.OPTIONAL: "optional",
            env.VarFieldKind.VARIADIC: "variadic"}
    seen_cls, seen_fn = set(), set()
    pairs = {(p["module"], p["op"]): p for p in info["pairs"]}
    for mid, rel, domain, version, pymod in MODULES:
        mod = env.module(pymod)
        chk(set(mod._OPERATORS) == set(info["modules"][mid]["operators"]), f"{mid}: _OPERATORS keys differ")
        chk(set(mod._CONSTRUCTORS) == set(info["modules"][mid]["constructors"]), f"{mid}: _CONSTRUCTORS keys differ")
        for op, cls in mod._OPERATORS.items():
            p = pairs.get((mid, op))
            if p is None:
                chk(False, f"{mid}:{op} not extracted")
                continue
            live_cls_id = f"{_mid_of(cls.__module__)}.{cls.__name__}"
            chk(p["class"] == live_cls_id, f"{mid}:{op}: class {p['class']} vs live {live_cls_id}")
            fn = mod._CONSTRUCTORS.get(op)
            live_fn_id = f"{_mid_of(fn.__module__)}.{fn.__name__}" if fn else None
            chk(p["ctor"] == live_fn_id, f"{mid}:{op}: constructor {p['ctor']} vs live {live_fn_id}")
            if live_cls_id in info["classes"] and live_cls_id not in seen_cls:
                seen_cls.add(live_cls_id)
                c = info["classes"][live_cls_id]
                ot = cls.op_type
                chk((c["opName"], c["domain"], c["version"]) == (ot.identifier, ot.domain, ot.version),
                    f"{live_cls_id}: op_type")
                chk(("StandardNode" in c["base"]) == issubclass(cls, env.StandardNode), f"{live_cls_id}: base")
                for part, key in (("Inputs", "inputs"), ("Outputs", "outputs")):
                    C = getattr(cls, part)
                    live = [(f.name, KIND[C._get_field_type(f)]) for f in dataclasses.fields(C)]
                    chk([tuple(x) for x in c[key]] == live, f"{live_cls_id}.{part}: {c[key]} vs {live}")
                hints = typing.get_type_hints(cls.Attributes, vars(env.module(cls.__module__)))
                live_attrs = []
                for f in dataclasses.fields(cls.Attributes):
                    h = hints[f.name]
                    opt = typing.get_origin(h) is typing.Union and type(None) in typing.get_args(h)
                    core_t = [a for a in typing.get_args(h) if a is not type(None)][0] if opt else h
                    live_attrs.append({"name": f.name, "kind": ATTR_KINDS.get(core_t.__name__, "unknown"), "optional": opt})
                live_attrs.sort(key=lambda a: a["name"])
                chk(c["attrs"] == live_attrs, f"{live_cls_id}.Attributes: {c['attrs']} vs {live_attrs}")
            if fn and live_fn_id in info["ctors"] and live_fn_id not in seen_fn:
                seen_fn.add(live_fn_id)
                f = info["ctors"][live_fn_id]
                sig = inspect.signature(fn)
                live_params = []
                for prm in sig.parameters.values():
                    ann = prm.annotation if isinstance(prm.annotation, str) else _ann_str(prm.annotation)
                    live_params.append({
                        "name": prm.name,
                        "kwOnly": prm.kind is inspect.Parameter.KEYWORD_ONLY,
                        "default": None if prm.default is inspect.Parameter.empty else live_value(prm.default, f_ann(f, prm.name)),
                    })
                ext = [{"name": q["name"], "kwOnly": q["kwOnly"], "default": q["default"]} for q in f["params"]]
                chk(ext == live_params, f"{live_fn_id}: signature {ext} vs live {live_params}")
    for b in bad:
        ck.broken("translator", "constructors.py extraction vs live module", b)
    return n


def f_ann(f, name):
    for q in f["params"]:
        if q["name"] == name:
            return q["ann"]
    return ""


def _ann_str(a):
    return getattr(a, "__name__", str(a))


def _mid_of(pymod: str) -> str:
    from translator.constructors import PYMOD_TO_ID

    return PYMOD_TO_ID.get(pymod, pymod)


# ----------------------------------------------------------------------------- oracle: reflection
def schema_default(env, a):
    """schema attribute default as a plain Python value, or None"""
    d = a.default_value
    if d is None or d.type == 0:
        return None
    v = env.onnx.helper.get_attribute_value(d)
    if isinstance(v, bytes):
        v = v.decode()
    elif isinstance(v, list):
        v = [x.decode() if isinstance(x, bytes) else x for x in v]
    return v


def same_default(env, a, pd) -> bool:
    """constructor default `pd` equals the schema default of attribute `a` (as ONNX stores it)"""
    np = env.np
    dv = schema_default(env, a)
    T = a.type.name
    try:
        if T == "INT":
            if isinstance(pd, type) or isinstance(pd, np.dtype):
                return env.onnx.helper.np_dtype_to_tensor_dtype(np.dtype(pd)) == dv
            return isinstance(pd, int) and not isinstance(pd, bool) and pd == dv
        if T == "FLOAT":
            return isinstance(pd, (int, float)) and f32_bits(pd) == f32_bits(dv)
        if T == "STRING":
            return pd == dv
        if T == "INTS":
            return [int(x) for x in pd] == list(dv)
        if T == "FLOATS":
            return [f32_bits(x) for x in pd] == [f32_bits(x) for x in dv]
        if T == "STRINGS":
            return list(pd) == list(dv)
    except Exception:  # noqa: BLE001
        return False
    return False


def reflect(env: Env, mid, op, cls, fn, schema):
    """Signature-level comparison of the live class/constructor with the schema. -> [(key, what)]"""
    out = []
    KIND = {env.VarFieldKind.SINGLE: "Single", env.VarFieldKind.OPTIONAL: "Optional",
            env.VarFieldKind.VARIADIC: "Variadic"}
    ot = cls.op_type
    if schema.deprecated:
        out.append((f"{mid}:{op}:schema:deprecated",
                    f"the schema in force ({schema.name}-{schema.since_version}) is deprecated: onnx.checker refuses the node"))
    if (ot.identifier, ot.domain, ot.version) != (schema.name, schema.domain, schema.since_version):
        out.append((f"{mid}:{op}:op_type:mismatch",
                    f"op_type {(ot.identifier, ot.domain, ot.version)} but schema in force is "
                    f"{(schema.name, schema.domain, schema.since_version)}"))
    for part, formal in (("Inputs", schema.inputs), ("Outputs", schema.outputs)):
        C = getattr(cls, part)
        live = [(f.name, KIND[C._get_field_type(f)]) for f in dataclasses.fields(C)]
        want = [(p.name, p.option.name) for p in formal]
        if live != want:
            out.append((f"{mid}:{op}:{part.lower()}:fields", f"{part} fields {live} but schema has {want}"))
    if fn is None:
        out.append((f"{mid}:{op}:constructor:absent", "no constructor in _CONSTRUCTORS"))
        return out
    sig = inspect.signature(fn)
    pos = [p.name for p in sig.parameters.values() if p.kind is inspect.Parameter.POSITIONAL_OR_KEYWORD]
    want = [p.name for p in schema.inputs]
    if pos != want:
        out.append((f"{mid}:{op}:inputs:order", f"positional parameters {pos} but schema inputs are {want}"))
    for p, formal in zip([sig.parameters[n] for n in pos if n in sig.parameters], schema.inputs):
        if p.name != formal.name:
            continue
        req = p.default is inspect.Parameter.empty
        if formal.option.name == "Single" and not req:
            out.append((f"{mid}:{op}:{p.name}:required", f"input {p.name} is required by the schema but has a default"))
        if formal.option.name == "Optional" and (req or p.default is not None):
            out.append((f"{mid}:{op}:{p.name}:optional", f"optional input {p.name} must default to None"))
    fields = {f.name for f in dataclasses.fields(cls.Attributes)}
    for name, a in schema.attributes.items():
        if name not in sig.parameters or name not in fields:
            out.append((f"{mid}:{op}:{name}:absent",
                        f"schema attribute {name} ({a.type.name}) has no constructor parameter / class field"))
            continue
        p = sig.parameters[name]
        if p.kind is not inspect.Parameter.KEYWORD_ONLY:
            out.append((f"{mid}:{op}:{name}:positional", f"attribute {name} is not keyword-only"))
        has_default = p.default is not inspect.Parameter.empty
        if a.type.name == "GRAPH":
            continue
        if a.required:
            if has_default:
                out.append((f"{mid}:{op}:{name}:required", f"required attribute {name} has default {p.default!r}"))
        elif not has_default:
            out.append((f"{mid}:{op}:{name}:optional", f"optional attribute {name} has no default"))
        elif schema_default(env, a) is None:
            if p.default is not None:
                out.append((f"{mid}:{op}:{name}:default",
                            f"attribute {name} has no schema default but the constructor defaults to {p.default!r}"))
        elif not same_default(env, a, p.default):
            out.append((f"{mid}:{op}:{name}:default",
                        f"attribute {name}: constructor default {p.default!r}, schema default {schema_default(env, a)!r}"))
    for name in fields - set(schema.attributes):
        out.append((f"{mid}:{op}:{name}:extra", f"class attribute {name} is not a schema attribute"))
    return out


# ----------------------------------------------------------------------------- oracle: real calls
def test_value(env: Env, a, variant=0):
    """A distinctive value for schema attribute `a` (never equal to its default); `variant` 1 uses
    edge values (negative / large / empty / non-ASCII)."""
    np = env.np
    T = a.type.name
    d = schema_default(env, a)
    if T == "INT":
        if variant:
            return -7 if d != -7 else -8
        return 3 if d != 3 else 4
    if T == "FLOAT":
        if variant:
            return -1.5 if d is None or f32_bits(d) != f32_bits(-1.5) else -2.5
        return 0.625 if d is None or f32_bits(d) != f32_bits(0.625) else 0.375
    if T == "STRING":
        return ("\u00fc " + a.name) if variant else "s_" + a.name
    if T == "INTS":
        return [] if variant and d != [] else [1, 2]
    if T == "FLOATS":
        return [-0.0, 3.5] if variant else [0.5, 1.5]
    if T == "STRINGS":
        return [""] if variant and d != [""] else ["a", "b"]
    if T == "TENSOR":
        return np.array([[1.5]], dtype=np.float32) if variant else np.array([1, 2], dtype=np.int64)
    if T == "TENSORS":
        return [np.array([1, 2], dtype=np.int64)]
    if T == "TYPE_PROTO":
        return mk_type(env, TYPE_VARIANTS[1 if variant else 0])
    if T == "GRAPH":
        return "<callback>"
    if T == "SPARSE_TENSOR":
        return env.onnx.helper.make_sparse_tensor(
            env.onnx.helper.make_tensor("v", env.onnx.TensorProto.FLOAT, [1], [1.0]),
            env.onnx.helper.make_tensor("i", env.onnx.TensorProto.INT64, [1], [0]), [3])
    return None


# documented deviations of the constructors' calling convention (DESIGN.md C11):
#  - an attribute that doubles as the number of variadic outputs must always be given
OUTPUT_COUNT_ATTRS = {"Split": "num_outputs"}
N_VARIADIC_OUT = 2


# ----------------------------------------------------------------------------- element types
def elem_types(env):
    """every tensor element type the installed ONNX defines: {enum: numpy scalar class}, from ONNX's own
    table (`onnx.helper.tensor_dtype_to_np_dtype`), incl. the ml_dtypes ones (bfloat16, float8*, int4, …)"""
    if getattr(env, "_elems", None) is None:
        np, onnx = env.np, env.onnx
        out = {}
        for name, e in onnx.TensorProto.DataType.items():
            if e == 0:
                continue
            try:
                out[e] = np.str_ if e == onnx.TensorProto.STRING else np.dtype(onnx.helper.tensor_dtype_to_np_dtype(e)).type
            except Exception:  # noqa: BLE001
                continue
        env._elems = out
    return env._elems


def elem_of(env, cls):
    """numpy scalar class / dtype -> ONNX element type enum (reverse of ONNX's table)"""
    np = env.np
    if cls is np.str_ or (isinstance(cls, np.dtype) and cls.kind == "U"):
        return env.onnx.TensorProto.STRING
    want = np.dtype(cls)
    for e, c in elem_types(env).items():
        if c is not np.str_ and np.dtype(c) == want and np.dtype(c).name == want.name:
            return e
    return None


# ----------------------------------------------------------------------------- type values
# (kind, …): the universe of values for TYPE_PROTO attributes - static, named, unknown and mixed
# dimensions, unknown rank, rank 0, nested in sequences
TYPE_VARIANTS = [
    ("tensor", "float32", (2,)),
    ("tensor", "float32", ("N", 3)),
    ("tensor", "float16", ("M",)),
    ("tensor", "int64", (None, "K", 2)),
    ("tensor", "float32", None),
    ("tensor", "bool_", ()),
    ("tensor", "str_", ("N", "N")),
    ("seq", ("tensor", "float16", ("M",))),
    ("seq", ("tensor", "float32", ("batch", None, 3))),
    ("seq", ("tensor", "int32", None)),
]


def mk_type(env, spec):
    """the spox Type for a spec (public constructors `spox.Tensor`, `spox.Sequence`, `spox.Optional`)"""
    np, sp = env.np, env.spox
    if spec[0] == "tensor":
        return sp.Tensor(getattr(np, spec[1]), spec[2])
    if spec[0] == "seq":
        return sp.Sequence(mk_type(env, spec[1]))
    if spec[0] == "optional":
        return sp.Optional(mk_type(env, spec[1]))
    raise ValueError(spec)


def describe_spec(np, onnx, spec):
    """what the TypeProto of a spec must say, written down independently of spox and onnx.helper"""
    if spec[0] == "tensor":
        elem = onnx.TensorProto.STRING if spec[1] == "str_" else onnx.helper.np_dtype_to_tensor_dtype(np.dtype(getattr(np, spec[1])))
        dims = None if spec[2] is None else [("param", d) if isinstance(d, str) else ("value", d) if d is not None else ("unknown",) for d in spec[2]]
        return ("tensor", elem, dims)
    return (spec[0], describe_spec(np, onnx, spec[1]))


def describe_typeproto(tp):
    """TypeProto -> the same description, read field by field"""
    which = tp.WhichOneof("value")
    if which == "tensor_type":
        tt = tp.tensor_type
        dims = None
        if tt.HasField("shape"):
            dims = []
            for d in tt.shape.dim:
                w = d.WhichOneof("value")
                dims.append(("param", d.dim_param) if w == "dim_param" else ("value", d.dim_value) if w == "dim_value" else ("unknown",))
        return ("tensor", tt.elem_type, dims)
    if which == "sequence_type":
        return ("seq", describe_typeproto(tp.sequence_type.elem_type))
    if which == "optional_type":
        return ("optional", describe_typeproto(tp.optional_type.elem_type))
    return ("other", which)


# ----------------------------------------------------------------------------- tensor values
LAYOUTS = ["C", "T", "F", "strided", "negstride", "broadcast", "perm3", "bigendian", "0d", "empty", "sliced1d"]


def layout_array(np, layout: str, dtype: str):
    """An array with distinct logical contents in the given memory layout (the *logical* array is
    what an attribute value means; how numpy stores it must not matter)."""
    dt = np.dtype(dtype)
    if dt.kind == "U":
        base = np.array([["a", "bb", "c"], ["dd", "e", "ff"]])
        flat24 = np.array([f"s{i}" for i in range(24)])
    elif dt.kind == "b":
        base = np.array([[True, False, False], [False, True, True]])
        flat24 = (np.arange(24) % 3 == 0)
    else:
        base = (np.arange(6).reshape(2, 3) + 1).astype(dt)
        flat24 = (np.arange(24) + 1).astype(dt)
    if layout == "C":
        return np.ascontiguousarray(base)
    if layout == "T":
        return base.T
    if layout == "F":
        return np.asfortranarray(base)
    if layout == "strided":
        return flat24.reshape(4, 6)[::2, ::2]
    if layout == "negstride":
        return base[::-1, ::-1]
    if layout == "broadcast":
        return np.broadcast_to(base[0], (2, 3))
    if layout == "perm3":
        return flat24.reshape(2, 3, 4).transpose(2, 0, 1)
    if layout == "bigendian":
        return base.astype(dt.newbyteorder(">")) if dt.kind in "iuf" and dt.itemsize > 1 else base.T
    if layout == "0d":
        return base[1, 2].reshape(())
    if layout == "empty":
        return base[:0].T
    if layout == "sliced1d":
        return flat24[3:20:4]
    raise ValueError(layout)


def decode_tensor(np, onnx, tp):
    """TensorProto -> logical numpy array, decoded from dims + data fields directly (row-major, as
    the ONNX spec defines), independently of spox and of onnx.numpy_helper."""
    TP = onnx.TensorProto
    dims = tuple(tp.dims)
    n = 1
    for d in dims:
        n *= d
    simple = {TP.FLOAT: ("float_data", "<f4"), TP.DOUBLE: ("double_data", "<f8"), TP.INT64: ("int64_data", "<i8"),
              TP.UINT64: ("uint64_data", "<u8"), TP.UINT32: ("uint64_data", "<u4"), TP.INT32: ("int32_data", "<i4"),
              TP.INT16: ("int32_data", "<i2"), TP.INT8: ("int32_data", "<i1"), TP.UINT16: ("int32_data", "<u2"),
              TP.UINT8: ("int32_data", "<u1"), TP.BOOL: ("int32_data", "?")}
    if tp.data_type == TP.STRING:
        vals = [s.decode("utf-8") for s in tp.string_data]
        if len(vals) != n:
            raise ValueError(f"{len(vals)} strings for dims {dims}")
        return np.array(vals, dtype=str).reshape(dims) if n else np.zeros(dims, dtype=str)
    if tp.data_type not in simple:
        return onnx.numpy_helper.to_array(tp)
    field, dt = simple[tp.data_type]
    if tp.raw_data:
        arr = np.frombuffer(tp.raw_data, dtype=np.dtype(dt))
    else:
        arr = np.array(list(getattr(tp, field))).astype(np.dtype(dt)) if n else np.zeros(0, np.dtype(dt))
    if arr.size != n:
        raise ValueError(f"{arr.size} elements for dims {dims}")
    return arr.reshape(dims)


def same_logical(np, got, want) -> bool:
    """same dims, same element type (byte order and string width aside), same contents"""
    if tuple(got.shape) != tuple(want.shape):
        return False
    if want.dtype.kind in "US" or got.dtype.kind in "US":
        return got.dtype.kind in "US" and want.dtype.kind in "US" and got.astype(str).tolist() == want.astype(str).tolist()
    if got.dtype.newbyteorder("=") != want.dtype.newbyteorder("="):
        return False
    return bool(np.array_equal(got, want))


FORMS = ["empty-list", "empty-tuple", "empty-gen", "tuple", "gen", "ndarray"]


def as_form(np, v, form):
    """the same list value, handed over as another kind of iterable"""
    if form is None or not isinstance(v, list):
        return v
    if form == "empty-list":
        return []
    if form == "empty-tuple":
        return ()
    if form == "empty-gen":
        return (x for x in [])
    if form == "tuple":
        return tuple(v)
    if form == "gen":
        return (x for x in list(v))
    if form == "ndarray":
        return np.array(v) if v and not isinstance(v[0], str) else tuple(v)
    return v


def mutate_list(lst, how, stranger):
    """what a caller may do to *its own* list after having passed it to a constructor"""
    if how == "append":
        lst.append(stranger)
    elif how == "pop" and lst:
        lst.pop()
    elif how == "reverse":
        lst.reverse()
        if len(set(map(id, lst))) <= 1:
            lst.append(stranger)
    elif how == "setitem" and lst:
        lst[-1] = stranger
    elif how == "clear":
        lst.clear()
    elif how == "insert0":
        lst.insert(0, stranger)


def slot_names(schema, case):
    """sentinel names of the present input slots, in schema order (one per positional slot)"""
    out = []
    for formal in schema.inputs:
        kind = formal.option.name
        if kind == "Single" or (kind == "Optional" and formal.name in case["present"]):
            out.append(f"in_{formal.name}")
        elif kind == "Variadic":
            out += [f"in_{formal.name}_{i}" for i in range(case["variadic"] or 0)]
    return out


def rep_map(case):
    """slot name -> name of the slot whose Var it shares (`case["same"]`: groups of slots given
    the *same* Var object; the group is named after its first member)"""
    m = {}
    for group in case.get("same") or []:
        for s in group:
            m[s] = group[0]
    return m


def repeat_patterns(slots, rng, n_random=1):
    """groups of slots that receive one and the same Var"""
    pats = []
    if len(slots) >= 2:
        pats.append([list(slots)])                       # one Var everywhere
        pats.append([[slots[0], slots[-1]]])             # first slot = last non-empty slot
        if len(slots) >= 3:
            pats.append([[slots[0], slots[1]]])          # repeat early, distinct tail
            pats.append([[slots[-2], slots[-1]]])        # repeat at the very end
            pats.append([[slots[1], slots[-1]]])
            pats.append([slots[0::2]])                   # a, b, a, b, a
        for _ in range(n_random):
            k = rng.randrange(2, len(slots) + 1)
            pats.append([sorted(rng.sample(slots, k), key=slots.index)])
    seen, out = set(), []
    for p_ in pats:
        key = tuple(tuple(g) for g in p_)
        if key not in seen and all(len(g) >= 2 for g in p_):
            seen.add(key)
            out.append(p_)
    return out


def gen_cases(schema, rng, budget_extra: int, all_attr_subsets_upto: int = 3):
    """Subsets of optional inputs x attribute subsets (none / all / one at a time / a few random)."""
    opt_inputs = [p.name for p in schema.inputs if p.option.name == "Optional"]
    variadic = [p for p in schema.inputs if p.option.name == "Variadic"]
    var_counts = [None]
    if variadic:
        lo = variadic[0].min_arity
        var_counts = sorted({lo, max(lo, 1), max(lo, 2)})
    in_subsets = []
    if len(opt_inputs) <= 5:
        for r in range(len(opt_inputs) + 1):
            in_subsets += [set(c) for c in itertools.combinations(opt_inputs, r)]
    else:
        in_subsets = [set(), set(opt_inputs)] + [{x} for x in opt_inputs] + [set(opt_inputs) - {x} for x in opt_inputs]
        for _ in range(12):
            in_subsets.append({x for x in opt_inputs if rng.random() < 0.5})
    attrs = sorted(schema.attributes)
    optional_attrs = [a for a in attrs if not schema.attributes[a].required]
    required_attrs = [a for a in attrs if schema.attributes[a].required]
    cases = []
    k = 0
    for ins in in_subsets:
        for vc in var_counts:
            for sel in (set(), set(optional_attrs)):
                cases.append({"present": sorted(ins), "variadic": vc, "attrs": sorted(set(required_attrs) | sel),
                              "mode": "pos" if k % 2 else "kw"})
                k += 1
    full = set(opt_inputs)
    for a in optional_attrs:
        cases.append({"present": sorted(full), "variadic": var_counts[-1], "attrs": sorted(set(required_attrs) | {a}),
                      "mode": "kw"})
    if len(optional_attrs) <= all_attr_subsets_upto:
        for r in range(len(optional_attrs) + 1):
            for sel in itertools.combinations(optional_attrs, r):
                for ins in (set(), full):
                    cases.append({"present": sorted(ins), "variadic": var_counts[0],
                                  "attrs": sorted(set(required_attrs) | set(sel)), "mode": "kw"})
    if optional_attrs or required_attrs:
        cases.append({"present": sorted(full), "variadic": var_counts[-1],
                      "attrs": sorted(set(required_attrs) | set(optional_attrs)), "mode": "kw", "variant": 1})
    for _ in range(budget_extra):
        cases.append({
            "present": sorted(x for x in opt_inputs if rng.random() < 0.5),
            "variadic": rng.choice(var_counts),
            "attrs": sorted(set(required_attrs) | {a for a in optional_attrs if rng.random() < 0.5}),
            "mode": rng.choice(["kw", "pos"]),
            "variant": rng.randrange(2),
        })
    # tensor-valued attributes in every memory layout; list-valued ones as every kind of iterable
    k = 0
    for a in attrs:
        T = schema.attributes[a].type.name
        if T == "TENSOR":
            for L in LAYOUTS:
                for dt in (("float32", "int64", "<U2", "bool", "float64", "uint8")[k % 6], "float32" if k % 2 else "int64"):
                    cases.append({"present": sorted(full), "variadic": var_counts[-1],
                                  "attrs": sorted(set(required_attrs) | {a}), "mode": "kw", "layout": {a: [L, dt]}})
                k += 1
        elif T in ("INTS", "FLOATS", "STRINGS"):
            for form in FORMS:
                cases.append({"present": sorted(full), "variadic": var_counts[-1],
                              "attrs": sorted(set(required_attrs) | {a}), "mode": "kw", "forms": {a: form}})
    for a in attrs:
        if schema.attributes[a].type.name == "TYPE_PROTO":
            for ti in range(len(TYPE_VARIANTS)):
                for ins in (set(), full):
                    cases.append({"present": sorted(ins), "variadic": var_counts[-1],
                                  "attrs": sorted(set(required_attrs) | {a}), "mode": "kw", "tvariant": {a: ti}})
    # variadic inputs handed over as list / tuple, the caller's list mutated after the call: the node
    # must hold the arguments given at the call
    if variadic:
        k = 0
        for vc in (2, 3):
            for vform, vmut in (("tuple", None), ("list", None), ("list", "append"), ("list", "pop"), ("list", "reverse"),
                                ("list", "setitem"), ("list", "clear"), ("list", "insert0")):
                for ins in (set(), full):
                    cases.append({"present": sorted(ins), "variadic": vc, "attrs": sorted(required_attrs),
                                  "mode": "pos" if k % 2 else "kw", "vform": vform, "vmut": vmut})
                    k += 1
    # the same Var in several slots (emission must depend on positions, not on argument identity):
    # every presence pattern x {all slots, first = last non-empty, early pair, last pair, alternate, random}
    k = 0
    for ins in in_subsets:
        for vc in sorted(set(var_counts) | ({3} if variadic else set())):
            base = {"present": sorted(ins), "variadic": vc}
            slots = slot_names(schema, base)
            for pat in repeat_patterns(slots, rng):
                cases.append({**base, "attrs": sorted(required_attrs), "mode": "pos" if k % 2 else "kw", "same": pat})
                k += 1
    # de-duplicate
    seen, out = set(), []
    for c in cases:
        key = (tuple(c["present"]), c["variadic"], tuple(c["attrs"]), c["mode"], c.get("variant", 0),
               repr(c.get("same")), repr(c.get("layout")), repr(c.get("forms")), repr(c.get("tvariant")),
               c.get("vform"), c.get("vmut"))
        if key not in seen:
            seen.add(key)
            out.append(c)
    return out


def sentinel_type(env: Env, formal, prefer_seq=False):
    ts, np = env.ts, env.np
    types = list(formal.types)
    if types and (all(t.startswith("seq(") for t in types) or (prefer_seq and any(t.startswith("seq(") for t in types))):
        return ts.Sequence(ts.Tensor(np.float32, (2, 3)))
    if types and all(t.startswith("optional(") for t in types):
        return ts.Optional(ts.Tensor(np.float32, (2, 3)))
    return ts.Tensor(np.float32, (2, 3))


def first_var(env, x):
    if isinstance(x, env.Var):
        return x
    if isinstance(x, (tuple, list)):
        for y in x:
            v = first_var(env, y)
            if v is not None:
                return v
    return None


def run_case(env: Env, fn, schema, case):
    """Call the real constructor; if it raises on tensor-typed sentinels, once more with
    sequence-typed ones wherever the schema allows sequences (the oracle is not about types)."""
    r = run_case1(env, fn, schema, case, False)
    if r["status"] == "raised" and any(
        any(t.startswith("seq(") for t in f.types) and not all(t.startswith("seq(") for t in f.types)
        for f in schema.inputs
    ):
        r2 = run_case1(env, fn, schema, case, True)
        if r2["status"] == "ok":
            return r2
    return r


def run_case1(env: Env, fn, schema, case, prefer_seq):
    """-> dict(status, node, proto, names, given, err)"""
    np = env.np
    names = {}  # id(var) -> name
    keep = []
    args = {}
    arg_desc = {}
    rep = rep_map(case)
    by_name = {}
    caller_lists = []  # the list objects handed to the constructor for variadic inputs

    def mk(slot, formal):
        """the Var for a slot: a fresh argument, or the Var of the slot it is declared to share"""
        r_ = rep.get(slot, slot)
        if r_ not in by_name:
            v = env.argument(sentinel_type(env, formal, prefer_seq))
            keep.append(v)
            names[id(v)] = r_
            by_name[r_] = v
        return by_name[r_]

    for formal in schema.inputs:
        kind = formal.option.name
        if kind == "Single" or (kind == "Optional" and formal.name in case["present"]):
            v = mk(f"in_{formal.name}", formal)
            args[formal.name] = v
            arg_desc[formal.name] = {"k": "s" if kind == "Single" else "o", "v": names[id(v)]}
        elif kind == "Optional":
            args[formal.name] = None
            arg_desc[formal.name] = {"k": "o", "v": None}
        else:
            vs = [mk(f"in_{formal.name}_{i}", formal) for i in range(case["variadic"] or 0)]
            caller_lists.append(vs)
            args[formal.name] = tuple(vs) if case.get("vform") == "tuple" else vs
            arg_desc[formal.name] = {"k": "v", "v": [names[id(v)] for v in vs]}
    cb_vars = [env.argument(env.ts.Tensor(np.float32, (2, 3))) for _ in range(2)]
    keep += cb_vars
    given = {}
    attrs = list(case["attrs"])
    count_attr = OUTPUT_COUNT_ATTRS.get(schema.name)
    if count_attr in schema.attributes and count_attr not in attrs:
        attrs.append(count_attr)  # documented deviation: must always be given (feeds out_variadic)
    for a in attrs:
        sa = schema.attributes[a]
        given[a] = (lambda *xs: list(cb_vars)) if sa.type.name == "GRAPH" else test_value(env, sa, case.get("variant", 0))
        if a in (case.get("layout") or {}):
            L_, d_ = case["layout"][a]
            if L_ == "elem":
                cls_ = elem_types(env)[d_]
                given[a] = np.array(["a", "b"]) if cls_ is np.str_ else np.ones(3).astype(np.dtype(cls_))
            else:
                given[a] = layout_array(np, L_, d_)
        if a in (case.get("tvariant") or {}):
            given[a] = mk_type(env, TYPE_VARIANTS[case["tvariant"][a]])
        if (case.get("forms") or {}).get(a, "").startswith("empty"):
            given[a] = []
    if count_attr in given:
        given[count_attr] = N_VARIADIC_OUT
    extra = {}

    forms = case.get("forms") or {}

    def call(kw):
        kw = {a_: as_form(np, v_, forms.get(a_)) for a_, v_ in kw.items()}  # fresh iterables per attempt
        with env.no_inference():
            if case["mode"] == "pos":
                pos = [args[f.name] for f in schema.inputs]
                return fn(*pos, **kw, **extra)
            return fn(**args, **kw, **extra)

    res = {"status": "ok", "given": dict(given), "args": arg_desc, "dtype_attrs": [], "keep": keep, "extra": extra}
    try:
        try:
            out = call(given)
        except TypeError as e0:
            # documented deviation: a required keyword-only output-count parameter that is not a
            # schema attribute (`split(..., outputs_count=…)` in opset 17) - supply it and go on
            m = re.search(r"missing \d+ required keyword-only arguments?: (.*)$", str(e0))
            names_ = re.findall(r"'(\w+)'", m.group(1)) if m else []
            known = set(schema.attributes) | {f.name for f in schema.inputs}
            if names_ and not (set(names_) & known) and any(f.option.name == "Variadic" for f in schema.outputs):
                for nm in names_:
                    extra[nm] = N_VARIADIC_OUT
                out = call(given)
            else:
                raise
    except TypeError as e:
        msg = str(e)
        m = re.search(r"unexpected keyword argument '(\w+)'", msg)
        if m:
            return {**res, "status": "unknown-keyword", "err": msg, "which": m.group(1)}
        m = re.search(r"missing \d+ required (?:keyword-only|positional) arguments?: (.*)$", msg)
        if m:
            return {**res, "status": "missing-argument", "err": msg, "which": m.group(1)}
        # INT attributes that spox takes as numpy dtypes (`to`, `dtype`): retry with a dtype
        int_attrs = [a for a in case["attrs"] if schema.attributes[a].type.name == "INT"]
        ok = False
        for trial in [[a] for a in int_attrs] + ([int_attrs] if len(int_attrs) > 1 else []):
            kw2 = dict(given)
            for a in trial:
                kw2[a] = elem_types(env).get(case.get("elem"), np.int32)
            try:
                out = call(kw2)
            except TypeError:
                continue
            except Exception as e2:  # noqa: BLE001
                return {**res, "status": "raised", "err": f"{type(e2).__name__}: {e2}"}
            ok = True
            res["dtype_attrs"] = trial
            res["given"] = given = kw2
            break
        if not ok:
            return {**res, "status": "raised", "err": f"TypeError: {msg}"}
    except Exception as e:  # noqa: BLE001
        return {**res, "status": "raised", "err": f"{type(e).__name__}: {e}"}
    var = first_var(env, out)
    if var is None:
        return {**res, "status": "no-output", "err": repr(out)[:100]}
    # the caller goes on using its own list after the call
    if case.get("vmut"):
        stranger = env.argument(env.ts.Tensor(np.float32, (2, 3)))
        keep.append(stranger)
        names[id(stranger)] = "in_STRANGER"
        for lst in caller_lists:
            mutate_list(lst, case["vmut"], stranger)
    # from here on spox internals are used to *observe* the node: trouble is "unobservable", no verdict
    try:
        node = var._op
        scope = env.Scope()
        scope.node[node] = "n"
        for v in node.inputs:
            if v is not None:
                if id(v) not in names:
                    return {**res, "status": "foreign-input", "err": "the node's input is not the Var passed in", "node": node}
                if v not in scope.var:
                    scope.var[v] = names[id(v)]
        for key, v in node.outputs.get_vars().items():  # keys: `field` / `field_i`
            scope.var[v] = key
        protos = node.to_onnx(
            scope, build_subgraph=lambda n, key, g: env.onnx.helper.make_graph([], key, [], [])
        )
        if len(protos) != 1:
            return {**res, "status": "not-one-node", "err": str(len(protos)), "node": node}
        return {**res, "node": node, "proto": protos[0], "out": out}
    except Exception as e:  # noqa: BLE001
        return {**res, "status": "unobservable", "err": f"{type(e).__name__}: {e}"}


def attr_value_matches(env: Env, ap, sa, value, key) -> bool:
    onnx, np = env.onnx, env.np
    T = sa.type.name
    AP = onnx.AttributeProto
    try:
        if T == "INT":
            if isinstance(value, (type, np.dtype)):
                value = elem_of(env, value)
            return ap.type == AP.INT and value is not None and ap.i == value
        if T == "FLOAT":
            return ap.type == AP.FLOAT and f32_bits(ap.f) == f32_bits(value)
        if T == "STRING":
            return ap.type == AP.STRING and ap.s.decode() == value
        if T == "INTS":
            return ap.type == AP.INTS and list(ap.ints) == list(value)
        if T == "FLOATS":
            return ap.type == AP.FLOATS and [f32_bits(x) for x in ap.floats] == [f32_bits(x) for x in value]
        if T == "STRINGS":
            return ap.type == AP.STRINGS and [s.decode() for s in ap.strings] == list(value)
        if T == "TENSOR":
            want_e = elem_of(env, np.asarray(value).dtype)
            return (ap.type == AP.TENSOR and (want_e is None or ap.t.data_type == want_e)
                    and same_logical(np, decode_tensor(np, onnx, ap.t), np.asarray(value)))
        if T == "TYPE_PROTO":
            spec = next((s for s in TYPE_VARIANTS if mk_type(env, s) == value), None)
            return ap.type == AP.TYPE_PROTO and spec is not None and describe_typeproto(ap.tp) == describe_spec(np, onnx, spec)
        if T == "GRAPH":
            return ap.type == AP.GRAPH and ap.g.name == key
    except Exception:  # noqa: BLE001
        return False
    return False


def expected_inputs(schema, case):
    """The property's wording, independently: each argument in its schema slot, inner omitted
    optionals as empty names, omitted trailing optionals dropped (ONNX's minimal arity kept)."""
    full = []
    rep = rep_map(case)
    for formal in schema.inputs:
        kind = formal.option.name
        if kind == "Single":
            full.append(f"in_{formal.name}")
        elif kind == "Optional":
            full.append(f"in_{formal.name}" if formal.name in case["present"] else "")
        else:
            full += [f"in_{formal.name}_{i}" for i in range(case["variadic"] or 0)]
    full = [rep.get(x, x) for x in full]  # slots sharing a Var carry that Var's one name
    n = len(full)
    while n > 0 and full[n - 1] == "" and n > schema.min_input:
        n -= 1
    return full[:n]


def judge(env: Env, mid, op, version, schema, case, r, cls=None):
    """-> [(key, what)]: ways in which this call violates the property statement"""
    onnx = env.onnx
    out = []
    st = r["status"]
    if st == "unknown-keyword":
        w = r["which"]
        kind = "absent" if w in schema.attributes else "input-name"
        out.append((f"{mid}:{op}:{w}:{kind}", f"constructor does not accept schema name {w!r}: {r['err']}"))
        return out
    if st == "missing-argument":
        out.append((f"{mid}:{op}:signature:extra-required",
                    f"constructor demands arguments the schema does not require: {r['err']}"))
        return out
    if st == "unobservable":
        return out
    if st == "optional-outputs-not-omittable":
        out.append((f"{mid}:{op}:outputs:optional-not-omittable",
                    f"the constructor always emits every optional output; ONNX rejects that here: {r['err']}"[:300]))
        return out
    if st != "ok":
        out.append((f"{mid}:{op}:call:{st}", f"{st}: {r.get('err', '')}"[:300]))
        return out
    p = r["proto"]
    node = r.get("node")
    nt = getattr(node, "op_type", None)
    if nt is not None and ((cls is not None and type(node) is not cls) or (nt.identifier, nt.domain, nt.version) != (
        schema.name, schema.domain, schema.since_version
    )):
        out.append((f"{mid}:{op}:constructor:class",
                    f"the constructor builds a {type(node).__name__} node {(nt.identifier, nt.domain, nt.version)}; the module's "
                    f"_OPERATORS entry is {getattr(cls, '__name__', None)} and the schema in force is "
                    f"{(schema.name, schema.domain, schema.since_version)}"))
    if p.op_type != schema.name or p.domain != schema.domain:
        out.append((f"{mid}:{op}:node:op_type", f"emitted {p.domain!r}::{p.op_type}, schema {schema.domain!r}::{schema.name}"))
    want = expected_inputs(schema, case)
    got = list(p.input)
    if got != want:
        # attribute to the first slot that differs
        slot = next((i for i, (a, b) in enumerate(itertools.zip_longest(got, want)) if a != b), 0)
        nm = _slot_name(schema, slot)
        out.append((f"{mid}:{op}:{nm}:slot", f"inputs emitted as {got}, schema slots demand {want}"))
    n_fixed = sum(1 for f in schema.outputs if f.option.name != "Variadic")
    outs = list(p.output)
    if (r["extra"] or OUTPUT_COUNT_ATTRS.get(schema.name) in r["given"]) and len(outs) - n_fixed != N_VARIADIC_OUT:
        out.append((f"{mid}:{op}:outputs:count", f"{N_VARIADIC_OUT} variadic outputs requested, emitted outputs {outs}"))
    if len(outs) < n_fixed or any(o == "" for o in outs) or len(set(outs)) != len(outs):
        out.append((f"{mid}:{op}:outputs:slots", f"outputs emitted as {outs} for {len(schema.outputs)} formal outputs"))
    by_name = {}
    for ap in p.attribute:
        if ap.name in by_name:
            out.append((f"{mid}:{op}:{ap.name}:duplicate", f"attribute {ap.name} emitted twice"))
        by_name[ap.name] = ap
    for name in by_name:
        if name not in schema.attributes:
            out.append((f"{mid}:{op}:{name}:emitted-name", f"attribute emitted under {name!r}, which is not a schema attribute"))
    for name, sa in schema.attributes.items():
        ap = by_name.get(name)
        if name in r["given"]:
            if ap is None:
                out.append((f"{mid}:{op}:{name}:emitted-name", f"attribute {name} was given but is not emitted under its schema name (emitted: {sorted(by_name)})"))
            elif not attr_value_matches(env, ap, sa, r["given"][name], name):
                out.append((f"{mid}:{op}:{name}:value", f"attribute {name} given {r['given'][name]!r} but emitted {str(ap)[:120]!r}"))
        else:
            d = sa.default_value
            has_d = d is not None and d.type != 0
            if ap is not None:
                if not has_d:
                    out.append((f"{mid}:{op}:{name}:default", f"attribute {name} not given and without schema default, but emitted {str(ap)[:100]!r}"))
                elif ap.type != d.type or onnx.helper.get_attribute_value(ap) != onnx.helper.get_attribute_value(d):
                    out.append((f"{mid}:{op}:{name}:default",
                                f"attribute {name} not given: emitted {onnx.helper.get_attribute_value(ap)!r}, schema default {onnx.helper.get_attribute_value(d)!r}"))
    if not out and not schema.deprecated and not any(sa.type.name == "GRAPH" for sa in schema.attributes.values()):
        try:
            ctx = onnx.checker.C.CheckerContext()
            ctx.ir_version = onnx.IR_VERSION
            ctx.opset_imports = {schema.domain: version}
            onnx.checker.check_node(p, ctx)
        except Exception as e:  # noqa: BLE001
            out.append((f"{mid}:{op}:node:checker", f"onnx.checker.check_node rejects the node at version {version}: {str(e)[:200]}"))
    return out


def _slot_name(schema, slot):
    i = 0
    for f in schema.inputs:
        if f.option.name == "Variadic" or i == slot:
            return f.name
        i += 1
    return "inputs"



# ----------------------------------------------------------------------------- oracle: public API only
def _f32(*shape):
    return ("float32", shape)


def _i64(*shape):
    return ("int64", shape)


# operators with arguments that are valid for real type inference; everything goes through the
# public API (constructors of the opset module, spox.argument, spox.build) and the ModelProto
PUBLIC_SPECS = [
    {"op": "Clip", "inputs": {"input": _f32(2), "min": _f32(), "max": _f32()}, "attrs": {}},
    {"op": "Clip", "inputs": {"input": _f32(), "min": _f32(), "max": _f32()}, "attrs": {},
     "same": [[["in_input", "in_min", "in_max"]], [["in_input", "in_max"]], [["in_min", "in_max"]], [["in_input", "in_min"]]]},
    {"op": "Where", "inputs": {"condition": ("bool", (2,)), "X": _f32(2), "Y": _f32(2)}, "attrs": {},
     "same": [[["in_X", "in_Y"]]]},
    {"op": "Concat", "inputs": {"inputs": [_f32(2), _f32(3), _f32(2)]}, "attrs": {"axis": 0},
     "same": [[["in_inputs_0", "in_inputs_2"]], [["in_inputs_0", "in_inputs_1", "in_inputs_2"]]]},
    {"op": "Sum", "inputs": {"data_0": [_f32(2), _f32(2)]}, "attrs": {}, "same": [[["in_data_0_0", "in_data_0_1"]]]},
    {"op": "Max", "inputs": {"data_0": [_f32(2), _f32(2), _f32(2)]}, "attrs": {},
     "same": [[["in_data_0_0", "in_data_0_2"]], [["in_data_0_1", "in_data_0_2"]]]},
    {"op": "ReduceSum", "inputs": {"data": _f32(2, 3), "axes": _i64(1)}, "attrs": {"keepdims": 0, "noop_with_empty_axes": 1}},
    {"op": "ReduceMax", "inputs": {"data": _f32(2, 3), "axes": _i64(1)}, "attrs": {"keepdims": 0, "noop_with_empty_axes": 1, "axes": [1]}},
    {"op": "Gemm", "inputs": {"A": _f32(2, 2), "B": _f32(2, 2), "C": _f32(2, 2)},
     "attrs": {"alpha": 0.625, "beta": 0.375, "transA": 1, "transB": 1},
     "same": [[["in_A", "in_B", "in_C"]], [["in_A", "in_C"]], [["in_B", "in_C"]]]},
    {"op": "LeakyRelu", "inputs": {"X": _f32(2)}, "attrs": {"alpha": 0.625}},
    {"op": "Cast", "inputs": {"input": _f32(2)}, "attrs": {"to": "np.int32", "saturate": 0}},
    {"op": "Pad", "inputs": {"data": _f32(2, 2), "pads": _i64(4), "constant_value": _f32(), "axes": _i64(2)},
     "attrs": {"mode": "reflect"}},
    {"op": "Resize", "inputs": {"X": _f32(1, 1, 2, 2), "roi": _f32(8), "scales": _f32(4), "sizes": _i64(4)},
     "subsets": [["scales"], ["roi", "scales"], ["sizes"], ["roi", "sizes"]], "attrs": {"mode": "linear"}},
    {"op": "Slice", "inputs": {"data": _f32(4, 4), "starts": _i64(1), "ends": _i64(1), "axes": _i64(1), "steps": _i64(1)}, "attrs": {},
     "same": [[["in_starts", "in_axes"]], [["in_starts", "in_ends", "in_axes", "in_steps"]], [["in_starts", "in_steps"]],
              [["in_ends", "in_steps"]], [["in_starts", "in_ends"]]]},
    {"op": "Dropout", "inputs": {"data": _f32(2), "ratio": _f32(), "training_mode": ("bool", ())}, "attrs": {"seed": 3}},
    {"op": "TopK", "inputs": {"X": _f32(4), "K": _i64(1)}, "attrs": {"axis": 0, "largest": 0, "sorted": 0}},
    {"op": "Conv", "inputs": {"X": _f32(1, 1, 4, 4), "W": _f32(1, 1, 2, 2), "B": _f32(1)},
     "attrs": {"dilations": [1, 1], "group": 1, "kernel_shape": [2, 2], "pads": [0, 0, 0, 0], "strides": [1, 1]}},
    {"op": "BatchNormalization", "inputs": {"X": _f32(1, 2, 2), "scale": _f32(2), "B": _f32(2), "input_mean": _f32(2), "input_var": _f32(2)},
     "attrs": {"epsilon": 0.625, "momentum": 0.375}},
    {"op": "LSTM", "inputs": {"X": _f32(3, 1, 2), "W": _f32(1, 8, 2), "R": _f32(1, 8, 2), "B": _f32(1, 16),
                              "sequence_lens": ("int32", (1,)), "initial_h": _f32(1, 1, 2), "initial_c": _f32(1, 1, 2),
                              "P": _f32(1, 6)},
     "attrs": {"hidden_size": 2, "direction": "forward", "clip": 0.625}, "always": ["hidden_size"],
     "same": [[["in_W", "in_R"]], [["in_initial_h", "in_initial_c"]], [["in_W", "in_R"], ["in_initial_h", "in_initial_c"]]]},
    {"op": "GRU", "inputs": {"X": _f32(3, 1, 2), "W": _f32(1, 6, 2), "R": _f32(1, 6, 2), "B": _f32(1, 12),
                             "sequence_lens": ("int32", (1,)), "initial_h": _f32(1, 1, 2)},
     "attrs": {"hidden_size": 2, "linear_before_reset": 1}, "always": ["hidden_size"]},
    {"op": "Squeeze", "inputs": {"data": _f32(1, 2), "axes": _i64(1)}, "attrs": {}},
    {"op": "Trilu", "inputs": {"input": _f32(2, 2), "k": _i64()}, "attrs": {"upper": 0}},
    {"op": "NonMaxSuppression", "inputs": {"boxes": _f32(1, 3, 4), "scores": _f32(1, 1, 3), "max_output_boxes_per_class": _i64(),
                                           "iou_threshold": _f32(), "score_threshold": _f32()},
     "attrs": {"center_point_box": 1}},
    {"op": "MaxPool", "inputs": {"X": _f32(1, 1, 4, 4)},
     "attrs": {"kernel_shape": [2, 2], "strides": [2, 2], "ceil_mode": 1, "storage_order": 1}},
    {"op": "Einsum", "inputs": {"Inputs": [_f32(2, 3), _f32(3, 2)]}, "attrs": {"equation": "ij,jk->ik"}},
    {"op": "QuantizeLinear", "inputs": {"x": _f32(2), "y_scale": _f32(), "y_zero_point": ("uint8", ())}, "attrs": {"axis": 0}},
    {"op": "Scaler", "inputs": {"X": _f32(2)}, "attrs": {"offset": [0.5], "scale": [1.5]}, "always": ["offset", "scale"]},
    {"op": "Binarizer", "inputs": {"X": _f32(2)}, "attrs": {"threshold": 0.625}},
    {"op": "Normalizer", "inputs": {"X": _f32(1, 2)}, "attrs": {"norm": "L1"}},
]


def public_case(env: Env, fn, schema, spec, present, attrs_given, mod=None, same=None, vmut=None):
    """constructor -> spox.build -> the operator's NodeProto in the ModelProto (public API only)"""
    np = env.np

    def mk(t):
        return env.argument(env.tensor(getattr(np, t[0] if t[0] != "bool" else "bool_"), t[1]))

    args, build_in = {}, {}
    nvar = None
    caller_list, elem_t = None, None
    rep = rep_map({"same": same})

    def var_for(slot, t):
        r_ = rep.get(slot, slot)
        if r_ not in build_in:
            build_in[r_] = mk(t)
        return build_in[r_]

    for formal in schema.inputs:
        kind = formal.option.name
        t = spec["inputs"].get(formal.name)
        if kind == "Variadic":
            vs = [var_for(f"in_{formal.name}_{i}", x) for i, x in enumerate(t or [])]
            nvar = len(vs)
            args[formal.name] = vs
            caller_list, elem_t = vs, (t or [None])[0]
        elif kind == "Single" or formal.name in present:
            if t is None:
                return None
            args[formal.name] = var_for(f"in_{formal.name}", t)
        else:
            args[formal.name] = None
    given = {}
    for a in attrs_given:
        v = spec["attrs"][a]
        given[a] = np.int32 if v == "np.int32" else v
    case = {"present": sorted(present), "variadic": nvar, "attrs": sorted(given), "mode": "kw", "public": True}
    if same:
        case["same"] = same
    if vmut:
        case["vform"], case["vmut"] = "list", vmut
    shape_of = getattr(mod, "shape", None) or env.op17.shape  # same opset as the operator under test
    r = {"status": "ok", "given": given, "extra": {}, "node": None}
    try:
        with warnings.catch_warnings():
            warnings.simplefilter("ignore")
            out = fn(**args, **given)
            if vmut and caller_list is not None and elem_t is not None:
                # the caller goes on using its own list between the call and the build
                build_in["in_STRANGER"] = mk(elem_t)
                mutate_list(caller_list, vmut, build_in["in_STRANGER"])
            outs = []

            def flat(x):
                if isinstance(x, env.Var):
                    outs.append(x)
                elif isinstance(x, (tuple, list)):
                    for y in x:
                        flat(y)

            flat(out)
            # results go through Shape so that the model's outputs always have a known rank
            model = env.spox.build(build_in, {f"res_{i}": shape_of(v) for i, v in enumerate(outs)})
    except Exception as e:  # noqa: BLE001
        msg = f"{type(e).__name__}: {str(e)[:200]}"
        r["mro"] = [c.__name__ for c in type(e).__mro__]
        if "number of op outputs should be 1" in msg:
            # the schema's own inference rejects the node because spox cannot leave optional outputs out
            return case, {**r, "status": "optional-outputs-not-omittable", "err": msg}
        return case, {**r, "status": "raised", "err": msg}
    nodes = [n for n in model.graph.node if n.op_type == schema.name and n.domain in (schema.domain, "ai.onnx" if schema.domain == "" else schema.domain)]
    if len(nodes) != 1:
        return case, {**r, "status": "not-one-node", "err": f"{len(nodes)} {schema.name} nodes in the built model"}
    imports = {o.domain: o.version for o in model.opset_import}
    r["proto"] = nodes[0]
    r["imports"] = imports
    return case, r


def public_oracle(ck, env: Env, stats):
    """Model-free and independent of spox internals: runs on every check."""
    from translator.constructors import MODULES

    for mid, rel, domain, version, pymod in MODULES:
        try:
            mod = env.module(pymod)
            force = env.schemas(domain, version)
        except Exception as e:  # noqa: BLE001
            ck.broken("correspondence", f"module {pymod} not importable", f"{type(e).__name__}: {e}")
            continue
        for si, spec in enumerate(PUBLIC_SPECS):
            op = spec["op"]
            schema = force.get(op)
            ctors = getattr(mod, "_CONSTRUCTORS", {})
            if schema is None or schema.deprecated or op not in ctors:
                continue
            fn = ctors[op]
            opt_inputs = [f.name for f in schema.inputs if f.option.name == "Optional"]
            subsets = spec.get("subsets") or [list(c) for r_ in range(len(opt_inputs) + 1)
                                              for c in itertools.combinations(opt_inputs, r_)]
            avail = [a for a in spec["attrs"] if a in schema.attributes]
            required = [a for a in avail if schema.attributes[a].required or a in spec.get("always", [])]
            missing_required = [a for a, sa in schema.attributes.items() if sa.required and a not in avail]
            if missing_required:
                continue
            optional = [a for a in avail if a not in required]
            attr_sets = [required, required + optional] + [required + [a] for a in optional]
            seen = set()
            combos = []
            for present in subsets:
                present = [x for x in present if x in opt_inputs]
                for attrs_given in attr_sets:
                    combos.append((present, attrs_given, None))
                # the same Var in several slots (all slots of the groups must be present)
                have = set(slot_names(schema, {"present": present, "variadic": len(next(
                    (v for v in spec["inputs"].values() if isinstance(v, list)), []))}))
                for same in spec.get("same", []):
                    if all(s in have for g in same for s in g):
                        combos.append((present, required, same))
                if any(isinstance(v, list) for v in spec["inputs"].values()):
                    for vm in ("append", "pop", "reverse", "setitem", "clear", "insert0"):
                        combos.append((present, required, ("vmut", vm)))
            for present, attrs_given, same in combos:
                    vmut = None
                    if isinstance(same, tuple) and same[0] == "vmut":
                        vmut, same = same[1], None
                    key = (tuple(present), tuple(sorted(attrs_given)), repr(same), vmut)
                    if key in seen:
                        continue
                    seen.add(key)
                    try:
                        res = public_case(env, fn, schema, spec, set(present), attrs_given, mod, same, vmut)
                        if res is None:
                            continue
                        case, r = res
                        case["spec"] = si
                        stats["public_variadic_mutation"] = stats.get("public_variadic_mutation", 0) + int(bool(vmut))
                        stats["public_repeated_var"] = stats.get("public_repeated_var", 0) + int(bool(same))
                        verdicts = judge(env, mid, op, version, schema, case, r)
                        verdicts += import_verdict(env, mid, op, schema, r)
                    except Exception as e:  # noqa: BLE001
                        ck.broken("correspondence", f"public-API oracle {mid}:{op} not observable", f"{type(e).__name__}: {e}")
                        continue
                    stats["public_cases"] += 1
                    ck.count(("public", mid, op, key))
                    for k, what in verdicts:
                        ck.failure(k, what, {"module": mid, "op": op, "kind": "public", "case": case})


def allowed_elems(env, schema, type_str: str):
    """element types a schema's type constraint admits (`tensor(<name>)` strings -> enums)"""
    names = {env.onnx.TensorProto.DataType.Name(e).lower(): e for e in elem_types(env)}
    out = []
    for tc in schema.type_constraints:
        if tc.type_param_str == type_str:
            for s in tc.allowed_type_strs:
                if s.startswith("tensor(") and s[7:-1] in names:
                    out.append(names[s[7:-1]])
    return sorted(set(out))


def public_dtype_oracle(ck, env: Env, stats, rng):
    """`cast(x, to=T)` and `constant(value=<array of T>)` through the public API for every element type
    the operator admits at the module's version - all in one process, order shuffled per module."""
    from translator.constructors import MODULES

    np, onnx = env.np, env.onnx
    for mid, rel, domain, version, pymod in MODULES:
        if domain != "":
            continue
        try:
            mod = env.module(pymod)
            force = env.schemas(domain, version)
        except Exception:  # noqa: BLE001
            continue
        for opname, tstr in (("Cast", None), ("Constant", None)):
            schema, fn = force.get(opname), mod._CONSTRUCTORS.get(opname)
            if schema is None or fn is None:
                continue
            try:
                tstr = schema.outputs[0].type_str
                order = allowed_elems(env, schema, tstr)
                rng.shuffle(order)
            except Exception as e:  # noqa: BLE001
                ck.broken("correspondence", f"public dtype oracle {mid}:{opname} not observable", f"{type(e).__name__}: {e}")
                continue
            for e in order:
                cls = elem_types(env)[e]
                case = {"present": [], "variadic": None, "attrs": ["to" if opname == "Cast" else "value"], "mode": "kw", "elem": e, "public": True}
                doc = {"module": mid, "op": opname, "kind": "public-dtype", "case": case}
                try:
                    with warnings.catch_warnings():
                        warnings.simplefilter("ignore")
                        try:
                            if opname == "Cast":
                                x = env.argument(env.tensor(np.float32, (2,)))
                                y = fn(x, to=cls)
                                model = env.spox.build({"in_input": x}, {"y": y})
                            else:
                                arr = np.array(["a", "b"]) if cls is np.str_ else np.ones(3).astype(np.dtype(cls))
                                model = env.spox.build({}, {"y": fn(value=arr)})
                        except Exception as ex:  # noqa: BLE001
                            ck.failure(f"{mid}:{opname}:call:raised",
                                       f"{opname} with element type {onnx.TensorProto.DataType.Name(e)} (admitted by the schema) raised "
                                       f"{type(ex).__name__}: {str(ex)[:150]}", doc)
                            continue
                    got = None
                    for n in model.graph.node:
                        if n.op_type == opname:
                            for a in n.attribute:
                                if opname == "Cast" and a.name == "to":
                                    got = a.i
                                if opname == "Constant" and a.name == "value":
                                    got = a.t.data_type
                except Exception as ex:  # noqa: BLE001
                    ck.broken("correspondence", f"public dtype oracle {mid}:{opname} not observable", f"{type(ex).__name__}: {ex}")
                    continue
                stats["public_dtype_cases"] = stats.get("public_dtype_cases", 0) + 1
                ck.count(("public-dtype", mid, opname, e))
                if got != e:
                    what = "to" if opname == "Cast" else "value"
                    ck.failure(f"{mid}:{opname}:{what}:value",
                               f"{opname} given element type {onnx.TensorProto.DataType.Name(e)} ({e}) emits {got}", doc)


def public_type_oracle(ck, env: Env, stats):
    """`optional(type=T)` (the one operator with a TYPE_PROTO attribute) through the public API for
    every type value, named dimensions included: the TypeProto in the built model is read field by
    field and must say exactly T."""
    from translator.constructors import MODULES

    np, onnx = env.np, env.onnx
    for mid, rel, domain, version, pymod in MODULES:
        if domain != "":
            continue
        try:
            mod = env.module(pymod)
            fn = mod._CONSTRUCTORS.get("Optional")
        except Exception:  # noqa: BLE001
            continue
        if fn is None:
            continue
        for ti, spec in enumerate(TYPE_VARIANTS):
            case = {"present": [], "variadic": None, "attrs": ["type"], "mode": "kw", "tvariant": {"type": ti}, "public": True}
            doc = {"module": mid, "op": "Optional", "kind": "public-type", "case": case}
            try:
                with warnings.catch_warnings():
                    warnings.simplefilter("ignore")
                    try:
                        o = fn(type=mk_type(env, spec))
                        model = env.spox.build({}, {"y": o})
                    except Exception as e:  # noqa: BLE001
                        ck.failure(f"{mid}:Optional:call:raised", f"optional(type={spec}) raised {type(e).__name__}: {str(e)[:150]}", doc)
                        continue
                got = None
                for n in model.graph.node:
                    if n.op_type == "Optional":
                        for a in n.attribute:
                            if a.name == "type" and a.type == onnx.AttributeProto.TYPE_PROTO:
                                got = describe_typeproto(a.tp)
                want = describe_spec(np, onnx, spec)
            except Exception as e:  # noqa: BLE001
                ck.broken("correspondence", f"public type oracle {mid} not observable", f"{type(e).__name__}: {e}")
                continue
            stats["public_type_cases"] = stats.get("public_type_cases", 0) + 1
            ck.count(("public-type", mid, ti))
            if got != want:
                ck.failure(f"{mid}:Optional:type:value", f"optional(type={spec}) is emitted with type attribute {got}, expected {want}", doc)


def public_tensor_oracle(ck, env: Env, stats):
    """`constant(value=arr)` / `const(arr)` / `constant_of_shape(value=arr)` through the public API for
    every memory layout: the TensorProto in the built model is decoded independently and must hold the
    logical contents of `arr`; the reference evaluator must return `arr`."""
    from translator.constructors import MODULES

    np, onnx = env.np, env.onnx
    for mid, rel, domain, version, pymod in MODULES:
        if domain != "":
            continue
        try:
            mod = env.module(pymod)
        except Exception:  # noqa: BLE001 - reported by public_oracle
            continue
        for li, L in enumerate(LAYOUTS):
            for dt in ("float32", "int64", "<U2", "bool", "float64", "uint8", "int32")[li % 3::3]:
                for how in ("constant", "const"):
                    case = {"present": [], "variadic": None, "attrs": ["value"], "mode": "kw",
                            "layout": {"value": [L, dt]}, "how": how, "public": True}
                    try:
                        arr = layout_array(np, L, dt)
                        want = np.array(arr.tolist(), dtype=arr.dtype.newbyteorder("=")).reshape(arr.shape)
                        with warnings.catch_warnings():
                            warnings.simplefilter("ignore")
                            try:
                                c = mod.constant(value=arr) if how == "constant" else mod.const(arr)
                                model = env.spox.build({}, {"y": c})
                            except Exception as e:  # noqa: BLE001
                                ck.failure(f"{mid}:Constant:call:raised", f"{how}({L} {dt} array) raised {type(e).__name__}: {str(e)[:150]}",
                                           {"module": mid, "op": "Constant", "kind": "public-tensor", "case": case})
                                continue
                        nodes = [n for n in model.graph.node if n.op_type == "Constant"]
                        got = None
                        for n in nodes:
                            for a in n.attribute:
                                if a.name == "value":
                                    got = decode_tensor(np, onnx, a.t)
                        ok = got is not None and same_logical(np, got, want)
                        ran = None
                        if ok and want.dtype.kind != "U":
                            import onnx.reference

                            ran = onnx.reference.ReferenceEvaluator(model).run(None, {})[0]
                            ok = same_logical(np, np.asarray(ran), want)
                    except Exception as e:  # noqa: BLE001
                        ck.broken("correspondence", f"public tensor oracle {mid} not observable", f"{type(e).__name__}: {e}")
                        continue
                    stats["public_tensor_cases"] = stats.get("public_tensor_cases", 0) + 1
                    ck.count(("public-tensor", mid, L, dt, how))
                    if not ok:
                        ck.failure(f"{mid}:Constant:value:value",
                                   f"{how}(value=<{L} layout, {dt}> {want.tolist()!r}) is emitted as "
                                   f"{None if got is None else got.tolist()!r}" + ("" if ran is None else f", evaluates to {np.asarray(ran).tolist()!r}"),
                                   {"module": mid, "op": "Constant", "kind": "public-tensor", "case": case})


def import_verdict(env, mid, op, schema, r):
    """the built model imports the operator's domain at a version where this very schema is in force"""
    if r["status"] != "ok":
        return []
    v = r["imports"].get(schema.domain)
    s2 = env.schemas(schema.domain, v).get(op) if v is not None else None
    if s2 is None or s2.since_version != schema.since_version:
        return [(f"{mid}:{op}:import:version",
                 f"the model imports {schema.domain!r} at {v}, where {op} means "
                 f"{getattr(s2, 'since_version', None)}, not {op}-{schema.since_version}")]
    return []


def find_spec(op):
    return next((s for s in PUBLIC_SPECS if s["op"] == op), None)


# ----------------------------------------------------------------------------- correspondence
def to_val(env, sa, v):
    np = env.np
    T = sa.type.name
    if isinstance(v, type):
        return {"t": "dtype", "v": v.__name__}
    if isinstance(v, np.dtype):
        return {"t": "dtype", "v": v.name}
    if T == "INT":
        return {"t": "int", "v": int(v)}
    if T == "FLOAT":
        return {"t": "float", "v": f32_bits(v)}
    if T == "STRING":
        return {"t": "str", "v": v}
    if T == "INTS":
        return {"t": "ints", "v": [int(x) for x in v]}
    if T == "FLOATS":
        return {"t": "floats", "v": [f32_bits(x) for x in v]}
    if T == "STRINGS":
        return {"t": "strs", "v": list(v)}
    return {"t": "other", "v": T}


def proto_val(env, ap):
    AP = env.onnx.AttributeProto
    if ap.type == AP.INT:
        return {"t": "int", "v": int(ap.i)}
    if ap.type == AP.FLOAT:
        return {"t": "float", "v": f32_bits(ap.f)}
    if ap.type == AP.STRING:
        return {"t": "str", "v": ap.s.decode()}
    if ap.type == AP.INTS:
        return {"t": "ints", "v": [int(x) for x in ap.ints]}
    if ap.type == AP.FLOATS:
        return {"t": "floats", "v": [f32_bits(x) for x in ap.floats]}
    if ap.type == AP.STRINGS:
        return {"t": "strs", "v": [s.decode() for s in ap.strings]}
    return {"t": "other", "v": AP.AttributeType.Name(ap.type)}


def call_request(env, info, pair, schema, case, r):
    """driver request for the constructor-call model on the *extracted* constructor"""
    f = info["ctors"].get(pair["ctor"])
    if f is None or f["cls"] is None or f["cls"] not in info["classes"]:
        return None
    node = r["node"]
    sd = info["schemas"].get(pair.get("schema"))
    if sd is None:
        return None
    cls_info = info["classes"][f["cls"]]
    n_fixed = sum(1 for _, k in cls_info["outputs"] if k != "variadic")
    nvar = max(len(list(node.outputs)) - n_fixed, 0)
    c = dict(f)
    c["cls"] = info["classes"][f["cls"]]
    return {
        "kind": "call", "ctor": c,
        "supplied": {a: to_val(env, schema.attributes[a], v) for a, v in r["given"].items()},
        # minima from the *generated* schema table (what the theorems use), not from the live node
        "args": r["args"], "mins": [sd["minInput"], sd["minOutput"]], "nvar": nvar,
    }


def compare_call(env, model, r):
    if "error" in model:
        return f"driver error {model['error']}"
    p = r["proto"]
    if model["op"] != p.op_type or model["domain"] != p.domain:
        return f"op/domain {model['op']}/{model['domain']} vs {p.op_type}/{p.domain}"
    if model["inputs"] != list(p.input):
        return f"inputs {model['inputs']} vs {list(p.input)}"
    if model["outputs"] != list(p.output):
        return f"outputs {model['outputs']} vs {list(p.output)}"
    real = {}
    for ap in p.attribute:
        real[ap.name] = proto_val(env, ap)
    mod = {n: v for n, v in model["attrs"]}
    if set(real) != set(mod):
        return f"attribute names {sorted(mod)} vs {sorted(real)}"
    for n in real:
        a, b = mod[n], real[n]
        if a["t"] == "other" or b["t"] == "other":
            continue
        if a != b:
            return f"attribute {n}: model {a} vs real {b}"
    node = r["node"]
    req = {(node.op_type.domain, node.op_type.version)}
    if node.opset_req != req or model["opset"] != [node.op_type.domain, node.op_type.version]:
        return f"opset_req {node.opset_req} vs model {model['opset']}"
    return None


# ----------------------------------------------------------------------------- spellings of attribute arguments
def run_spell_case(env: Env, fn, schema, case):
    """The real constructor with minimal arguments, required attributes given, and the attribute under
    test spelled as `case` says (left out / None / a valid spelling / a malformed value).
    -> dict(status: ok|raised|unobservable, mro, err, proto, given)"""
    from harness import lib_c11spell as SP

    np = env.np
    a = case["attr"]
    names, keep, args = {}, [], {}
    for formal in schema.inputs:
        kind = formal.option.name
        if kind == "Single":
            v = env.argument(sentinel_type(env, formal))
            keep.append(v)
            names[id(v)] = f"in_{formal.name}"
            args[formal.name] = v
        elif kind == "Optional":
            args[formal.name] = None
        else:
            vs = []
            for i in range(max(formal.min_arity, 1)):
                v = env.argument(sentinel_type(env, formal))
                keep.append(v)
                names[id(v)] = f"in_{formal.name}_{i}"
                vs.append(v)
            args[formal.name] = vs
    cb_vars = [env.argument(env.ts.Tensor(np.float32, (2, 3))) for _ in range(2)]
    keep += cb_vars
    given = {}
    for b, sb in schema.attributes.items():
        if sb.required and b != a:
            if sb.type.name == "GRAPH":
                given[b] = lambda *xs: list(cb_vars)
            elif SP.is_dtype_param(fn, b):
                given[b] = np.int32
            else:
                given[b] = test_value(env, sb)
    count_attr = OUTPUT_COUNT_ATTRS.get(schema.name)
    if count_attr in schema.attributes and count_attr != a:
        given[count_attr] = N_VARIADIC_OUT
    others = dict(given)
    if case["cls"] != "omitted":
        given[a] = SP.value_of(env, case)
    extra = {}
    res = {"status": "ok", "given": others, "extra": extra, "keep": keep, "mro": None, "err": None, "proto": None}

    def call():
        with env.no_inference():
            return fn(**args, **given, **extra)

    try:
        try:
            out = call()
        except TypeError as e0:
            m = re.search(r"missing \d+ required keyword-only arguments?: (.*)$", str(e0))
            names_ = re.findall(r"'(\w+)'", m.group(1)) if m else []
            known = set(schema.attributes) | {f.name for f in schema.inputs}
            if names_ and not (set(names_) & known) and any(f.option.name == "Variadic" for f in schema.outputs):
                for nm in names_:
                    extra[nm] = N_VARIADIC_OUT
                if case["cls"] != "omitted":
                    given[a] = SP.value_of(env, case)  # fresh one-shot iterables
                out = call()
            else:
                raise
    except Exception as e:  # noqa: BLE001
        return {**res, "status": "raised", "mro": [c.__name__ for c in type(e).__mro__],
                "err": f"{type(e).__name__}: {str(e)[:120]}"}
    try:
        var = first_var(env, out)
        node = var._op
        scope = env.Scope()
        scope.node[node] = "n"
        for v in node.inputs:
            if v is not None and v not in scope.var:
                scope.var[v] = names.get(id(v), "in_X")
        for key, v in node.outputs.get_vars().items():
            scope.var[v] = key
        protos = node.to_onnx(scope, build_subgraph=lambda n, key, g: env.onnx.helper.make_graph([], key, [], []))
        return {**res, "proto": protos[0]}
    except Exception as e:  # noqa: BLE001
        return {**res, "status": "unobservable", "err": f"{type(e).__name__}: {e}"}


def spell_request(env, info, pair, schema, fn, case, r):
    """driver request for `Conform.callAttrsE` on the extracted constructor"""
    from harness import lib_c11spell as SP

    f = info["ctors"].get(pair["ctor"])
    if f is None or f["cls"] is None or f["cls"] not in info["classes"]:
        return None
    c = dict(f)
    c["cls"] = info["classes"][f["cls"]]
    spelled = {}
    for b, v in r["given"].items():
        sb = schema.attributes[b]
        if sb.type.name == "GRAPH":
            spelled[b] = {"s": "ok", "v": {"t": "other", "v": "GRAPH"}}
        else:
            spelled[b] = {"s": "ok", "v": to_val(env, sb, v)}
    a, cls = case["attr"], case["cls"]
    if cls == "none":
        spelled[a] = {"s": "none"}
    elif cls == "bad":
        spelled[a] = {"s": "bad"}
    elif cls == "valid":
        v = SP.value_of(env, case)
        if case["akind"] == "DTYPE":
            spelled[a] = {"s": "ok", "v": {"t": "dtype", "v": SP.canonical_dtype_name(env, v)}}
        elif case["akind"] in ("INT", "FLOAT", "INTS", "FLOATS"):
            spelled[a] = {"s": "ok", "v": to_val(env, schema.attributes[a], list(v) if case["akind"].endswith("S") else v)}
        elif case["akind"] == "STRING":
            spelled[a] = {"s": "ok", "v": {"t": "str", "v": v.decode() if isinstance(v, bytes) else str(v)}}
        elif case["akind"] == "STRINGS":
            spelled[a] = {"s": "ok", "v": {"t": "strs", "v": [x.decode() if isinstance(x, bytes) else str(x) for x in v]}}
        else:
            spelled[a] = {"s": "ok", "v": {"t": "other", "v": case["akind"]}}
    return {"kind": "spell", "ctor": c, "spelled": spelled}


def compare_spell(env, model, r):
    if "error" in model:
        return f"driver error {model['error']}"
    real_raises = r["status"] == "raised"
    if bool(model.get("raises")) != real_raises:
        return f"model raises={model.get('raises')} vs real {r['status']} ({r.get('err')})"
    if real_raises:
        return None
    real = {ap.name: proto_val(env, ap) for ap in r["proto"].attribute}
    mod = {n: v for n, v in model["attrs"]}
    if set(real) != set(mod):
        return f"attribute names {sorted(mod)} vs {sorted(real)}"
    for n in real:
        x, y = mod[n], real[n]
        if x["t"] == "other" or y["t"] == "other":
            continue
        if x != y:
            return f"attribute {n}: model {x} vs real {y}"
    return None


def spelling_calls(ck, env: Env, info, pairs, mid, op, version, schema, fn, first, cache, stats, reqs, req_meta):
    """exhaustive: every attribute parameter of this constructor x every spelling"""
    from harness import lib_c11spell as SP

    ckey = ("spell", fn, schema.name, schema.since_version)
    if ckey not in cache:
        runs = []
        skip = {OUTPUT_COUNT_ATTRS.get(schema.name)} - {None}
        for case in SP.cases_for(env, fn, schema, skip):
            runs.append((case, run_spell_case(env, fn, schema, case)))
        cache[ckey] = runs
        fresh = True
    else:
        fresh = False
    unobs = 0
    for case, r in cache[ckey]:
        stats["spelling_calls"] = stats.get("spelling_calls", 0) + 1
        ck.count(("spell", mid, op, case["attr"], case["sp"]))
        if r["status"] == "unobservable":
            unobs += 1
            continue
        k = f"spelling_{case['cls']}_{case['req']}"
        if fresh:
            stats[k] = stats.get(k, 0) + 1
        for key, what in SP.judge(env, mid, op, schema, case, r["status"], r["mro"], r["err"], r["proto"]):
            ck.failure(key, what, {"module": mid, "op": op, "kind": "spell", "case": case})
        if fresh and (mid, op) in pairs and info is not None:
            try:
                rq = spell_request(env, info, pairs[(mid, op)], schema, fn, case, r)
            except Exception as e:  # noqa: BLE001
                rq = None
                unobs += 1
            if rq is not None:
                reqs.append(rq)
                req_meta.append((mid, op, case, r))
    return unobs


IN_SPELLS = ["omitted", "none", "var", "vars", "bad", "badlist"]


def in_rejects(kind: str, has_default: bool, sp: str) -> bool:
    """schema-level reading of an input spelling (written independently of the Lean `rejectsIn`)"""
    if sp in ("bad", "badlist"):
        return True
    if kind == "Single":
        return sp != "var"
    if kind == "Optional":
        return sp not in ("var", "none", "omitted")
    return not (sp == "vars" or (sp == "omitted" and has_default))


def run_in_spell_case(env: Env, fn, schema, case):
    """The real constructor with input `case['input']` spelled as `case['sp']`, the other inputs minimal."""
    from harness import lib_c11spell as SP

    np = env.np
    names, keep, args, desc = {}, [], {}, {}

    def fresh(nm, formal):
        v = env.argument(sentinel_type(env, formal))
        keep.append(v)
        names[id(v)] = nm
        return v

    for formal in schema.inputs:
        kind = formal.option.name
        nm = f"in_{formal.name}"
        if formal.name == case["input"]:
            sp = case["sp"]
            if sp == "omitted":
                desc[formal.name] = {"s": "omitted"}
                continue
            if sp == "none":
                args[formal.name] = None
                desc[formal.name] = {"s": "none"}
            elif sp == "var":
                args[formal.name] = fresh(nm, formal)
                desc[formal.name] = {"s": "var", "v": nm}
            elif sp == "vars":
                args[formal.name] = [fresh(nm + "_0", formal)]
                desc[formal.name] = {"s": "vars", "v": [nm + "_0"]}
            elif sp == "bad":
                args[formal.name] = 3
                desc[formal.name] = {"s": "bad"}
            else:
                args[formal.name] = [fresh(nm + "_0", formal), 3]
                desc[formal.name] = {"s": "bad"}
        elif kind == "Single":
            args[formal.name] = fresh(nm, formal)
            desc[formal.name] = {"s": "var", "v": nm}
        elif kind == "Optional":
            args[formal.name] = None
            desc[formal.name] = {"s": "none"}
        else:
            args[formal.name] = [fresh(nm + "_0", formal)]
            desc[formal.name] = {"s": "vars", "v": [nm + "_0"]}
    cb_vars = [env.argument(env.ts.Tensor(np.float32, (2, 3))) for _ in range(2)]
    keep += cb_vars
    given = {}
    for b, sb in schema.attributes.items():
        if sb.required:
            given[b] = (lambda *xs: list(cb_vars)) if sb.type.name == "GRAPH" else (
                np.int32 if SP.is_dtype_param(fn, b) else test_value(env, sb))
    count_attr = OUTPUT_COUNT_ATTRS.get(schema.name)
    if count_attr in schema.attributes:
        given[count_attr] = N_VARIADIC_OUT
    extra = {}
    res = {"status": "ok", "desc": desc, "keep": keep, "mro": None, "err": None, "proto": None}

    def call():
        with env.no_inference():
            return fn(**args, **given, **extra)

    try:
        try:
            out = call()
        except TypeError as e0:
            m = re.search(r"missing \d+ required keyword-only arguments?: (.*)$", str(e0))
            names_ = re.findall(r"'(\w+)'", m.group(1)) if m else []
            known = set(schema.attributes) | {f.name for f in schema.inputs}
            if names_ and not (set(names_) & known) and any(f.option.name == "Variadic" for f in schema.outputs):
                for nm_ in names_:
                    extra[nm_] = N_VARIADIC_OUT
                out = call()
            else:
                raise
    except Exception as e:  # noqa: BLE001
        return {**res, "status": "raised", "mro": [c.__name__ for c in type(e).__mro__], "err": f"{type(e).__name__}: {str(e)[:120]}"}
    try:
        node = first_var(env, out)._op
        scope = env.Scope()
        scope.node[node] = "n"
        for v in node.inputs:
            if v is not None and v not in scope.var:
                scope.var[v] = names.get(id(v), "in_X")
        for key, v in node.outputs.get_vars().items():
            scope.var[v] = key
        protos = node.to_onnx(scope, build_subgraph=lambda n, key, g: env.onnx.helper.make_graph([], key, [], []))
        return {**res, "proto": protos[0]}
    except Exception as e:  # noqa: BLE001
        return {**res, "status": "unobservable", "err": f"{type(e).__name__}: {e}"}


def judge_in_spell(env, mid, op, schema, fn, case, r, accepted_only=False):
    formal = next(f for f in schema.inputs if f.name == case["input"])
    kind = formal.option.name
    try:
        has_default = inspect.signature(fn).parameters[formal.name].default is not inspect.Parameter.empty
    except Exception:  # noqa: BLE001
        has_default = False
    rej = in_rejects(kind, has_default, case["sp"])
    what = f"{kind} input {formal.name} spelled {case['sp']}"
    if r["status"] == "raised":
        if not rej:
            return [(f"{mid}:{op}:{formal.name}:input-rejected", f"{what} is refused: {r['err']}")]
        # the exception class is not judged on the input side: the statement says nothing about it, and the
        # control-flow constructors (Loop, Scan, SequenceMap) touch their inputs before `Inputs(...)` is built,
        # so a non-Var there leaves as AttributeError rather than `_fields.py`'s TypeError (clean tree)
        return []
    if rej:
        return [(f"{mid}:{op}:{formal.name}:input-accepted",
                 f"{what} is accepted" + ("" if r.get("proto") is None else f"; emitted inputs {list(r['proto'].input)}"))]
    if accepted_only:
        return []
    # accepted: the schema's formal inputs in order, cut after the last present one, never below min_input
    full = []
    for f in schema.inputs:
        d = r["desc"][f.name]
        full += [d["v"]] if d["s"] == "var" else (list(d["v"]) if d["s"] == "vars" else ([""] if f.option.name != "Variadic" else []))
    n = len(full)
    while n > 0 and full[n - 1] == "" and n > schema.min_input:
        n -= 1
    if list(r["proto"].input) != full[:n]:
        return [(f"{mid}:{op}:{formal.name}:slot", f"{what}: inputs emitted as {list(r['proto'].input)}, schema slots demand {full[:n]}")]
    n_fixed = sum(1 for f in schema.outputs if f.option.name != "Variadic")
    has_var = any(f.option.name == "Variadic" for f in schema.outputs)
    if len(r["proto"].output) < n_fixed or (not has_var and len(r["proto"].output) != n_fixed):
        return [(f"{mid}:{op}:outputs:slots", f"{len(r['proto'].output)} outputs emitted for {n_fixed} declared non-variadic outputs")]
    return []


def input_spelling_calls(ck, env: Env, info, pairs, mid, op, schema, fn, cache, stats, reqs, req_meta):
    ckey = ("inspell", fn, schema.name, schema.since_version)
    fresh = ckey not in cache
    if fresh:
        runs = []
        for formal in schema.inputs:
            for sp in IN_SPELLS:
                case = {"input": formal.name, "sp": sp}
                runs.append((case, run_in_spell_case(env, fn, schema, case)))
        cache[ckey] = runs
    unobs = 0
    for case, r in cache[ckey]:
        stats["input_spelling_calls"] = stats.get("input_spelling_calls", 0) + 1
        ck.count(("inspell", mid, op, case["input"], case["sp"]))
        if r["status"] == "unobservable":
            # the constructor accepted the call; only the NodeProto cannot be read (e.g. a non-Var was let in)
            for key, what in judge_in_spell(env, mid, op, schema, fn, case, {**r, "status": "ok"}, accepted_only=True):
                ck.failure(key, what, {"module": mid, "op": op, "kind": "inspell", "case": case})
            unobs += 1
            continue
        for key, what in judge_in_spell(env, mid, op, schema, fn, case, r):
            ck.failure(key, what, {"module": mid, "op": op, "kind": "inspell", "case": case})
        if fresh and (mid, op) in pairs and info is not None:
            pair = pairs[(mid, op)]
            f = info["ctors"].get(pair["ctor"])
            sd = info["schemas"].get(pair.get("schema"))
            if f is not None and f["cls"] in info["classes"] and sd is not None:
                c = dict(f)
                c["cls"] = info["classes"][f["cls"]]
                reqs.append({"kind": "inspell", "ctor": c, "spelled": r["desc"], "mins": [sd["minInput"], sd["minOutput"]]})
                req_meta.append((mid, op, {**case, "insp": True}, r))
    return unobs


def compare_in_spell(env, model, r):
    if "error" in model:
        return f"driver error {model['error']}"
    real_raises = r["status"] == "raised"
    if bool(model.get("raises")) != real_raises:
        return f"model raises={model.get('raises')} vs real {r['status']} ({r.get('err')})"
    if not real_raises and model["inputs"] != list(r["proto"].input):
        return f"inputs {model['inputs']} vs {list(r['proto'].input)}"
    return None


def neighbour_case(env: Env, mid, mod, force, case):
    """Two narrowly-caught neighbours, through the public API only (constructor -> spox.build -> ModelProto):
    `loop` with any subset of M / cond and 0 / 1 carried values - the Loop schema's min_input (2) exceeds its
    leading required inputs (0), so the bare call must still emit `["", ""]`; and `reduce_max` / `reduce_min` on a
    bool tensor in the modules whose schema in force is ReduceMax/Min-20 (bool joined the type constraint there):
    the module's constructor must build that class. -> [(key, what)]"""
    np = env.np
    out = []
    with warnings.catch_warnings():
        warnings.simplefilter("ignore")
        if case["what"] == "loop":
            schema = force.get("Loop")
            args, ins, want = {}, {}, []
            if "M" in case["present"]:
                args["M"] = ins["in_M"] = env.argument(env.tensor(np.int64, ()))
            want.append("in_M" if "M" in case["present"] else "")
            if "cond" in case["present"]:
                # spox types the body's `cond` formal bool[1]; a rank-0 outer cond is refused by ONNX's inference
                args["cond"] = ins["in_cond"] = env.argument(env.tensor(np.bool_, (1,)))
            want.append("in_cond" if "cond" in case["present"] else "")
            vs = []
            for i in range(case["nv"]):
                v = env.argument(env.tensor(np.float32, (2,)))
                ins[f"in_v_{i}"] = v
                vs.append(v)
                want.append(f"in_v_{i}")
            try:
                res = mod.loop(**args, v_initial=vs,
                               body=lambda it, c, *st: [mod.const(True), *st, mod.const(np.float32(1.5))])
                model = env.spox.build(ins, {f"r{i}": mod.shape(r) for i, r in enumerate(res)})
            except Exception as e:  # noqa: BLE001
                return [(f"{mid}:Loop:call:raised", f"loop({sorted(case['present'])}, {case['nv']} carried values) raised {type(e).__name__}: {str(e)[:150]}")]
            nodes = [n for n in model.graph.node if n.op_type == "Loop"]
            got = list(nodes[0].input) if len(nodes) == 1 else None
            if got != want:
                slot = "M" if got is None or len(got) < 1 or got[0] != want[0] else ("cond" if len(got) < 2 or got[1] != want[1] else "v_initial")
                out.append((f"{mid}:Loop:{slot}:slot", f"loop({sorted(case['present'])}, {case['nv']} carried values): inputs emitted as {got}, "
                            f"schema slots demand {want} (min_input {schema.min_input if schema else '?'})"))
        else:
            opn = case["op"]
            schema = force.get(opn)
            fn = mod._CONSTRUCTORS.get(opn)
            x = env.argument(env.tensor(np.bool_, (2, 3)))
            try:
                y = fn(x, keepdims=0)
                model = env.spox.build({"in_data": x}, {"y": y})
            except Exception as e:  # noqa: BLE001
                return [(f"{mid}:{opn}:constructor:class", f"{mid}.{fn.__name__}(<bool tensor>) raised {type(e).__name__}: {str(e)[:120]} - the schema in "
                         f"force ({opn}-{schema.since_version}) admits bool, an older class does not")]
            imp = {o.domain: o.version for o in model.opset_import}.get("")
            elem = model.graph.output[0].type.tensor_type.elem_type
            if imp is None or imp < schema.since_version or elem != env.onnx.TensorProto.BOOL:
                out.append((f"{mid}:{opn}:import:version", f"{opn} on bool: model imports ai.onnx {imp}, output element type {elem}; "
                            f"schema in force is {opn}-{schema.since_version}"))
    return out


def neighbour_cases(force):
    cases = []
    if "Loop" in force:
        for present in ([], ["M"], ["cond"], ["M", "cond"]):
            for nv in (0, 1):
                cases.append({"what": "loop", "present": present, "nv": nv})
    for opn in ("ReduceMax", "ReduceMin"):
        sc = force.get(opn)
        if sc is not None and sc.since_version >= 20:
            cases.append({"what": "reducebool", "op": opn})
    return cases


def public_neighbours_oracle(ck, env: Env, stats):
    from translator.constructors import MODULES

    for mid, rel, domain, version, pymod in MODULES:
        if domain != "":
            continue
        try:
            mod = env.module(pymod)
            force = env.schemas(domain, version)
        except Exception:  # noqa: BLE001 - reported by public_oracle
            continue
        for case in neighbour_cases(force):
            try:
                verdicts = neighbour_case(env, mid, mod, force, case)
            except Exception as e:  # noqa: BLE001
                ck.broken("correspondence", f"public neighbour oracle {mid} not observable", f"{type(e).__name__}: {e}")
                continue
            stats["public_neighbour_cases"] = stats.get("public_neighbour_cases", 0) + 1
            ck.count(("public-neighbour", mid, repr(case)))
            for k, what in verdicts:
                ck.failure(k, what, {"module": mid, "op": "Loop" if case["what"] == "loop" else case["op"], "kind": "public-neighbour", "case": case})


DTYPE_SPECS = [
    {"op": "RandomNormal", "inputs": {}, "attrs": {"shape": [2]}, "always": ["shape"]},
    {"op": "RandomUniform", "inputs": {}, "attrs": {"shape": [2]}, "always": ["shape"]},
    {"op": "RandomNormalLike", "inputs": {"input": _f32(2)}, "attrs": {}},
    {"op": "RandomUniformLike", "inputs": {"input": _f32(2)}, "attrs": {}},
    {"op": "Multinomial", "inputs": {"input": _f32(1, 3)}, "attrs": {}},
    {"op": "Bernoulli", "inputs": {"input": _f32(2)}, "attrs": {}},
    {"op": "EyeLike", "inputs": {"input": _f32(2, 2)}, "attrs": {}},
    {"op": "ConstantOfShape", "inputs": {"input": _i64(1)}, "attrs": {}},
    {"op": "Softmax", "inputs": {"input": _f32(2, 2)}, "attrs": {}},
    {"op": "Flatten", "inputs": {"input": _f32(2, 2)}, "attrs": {}},
    {"op": "Transpose", "inputs": {"data": _f32(2, 2)}, "attrs": {}},
    {"op": "DepthToSpace", "inputs": {"input": _f32(1, 4, 1, 1)}, "attrs": {"blocksize": 2}, "always": ["blocksize"]},
]


def public_spell_case(env: Env, mid, op, version, schema, fn, mod, spec, case):
    """constructor -> spox.build -> ModelProto, public API only. -> verdicts or None (not applicable)"""
    from harness import lib_c11spell as SP

    a = case["attr"]
    attrs = {b: v for b, v in spec["attrs"].items()
             if b in schema.attributes and (schema.attributes[b].required or b in spec.get("always", [])) and b != a}
    if any(sb.required and b not in attrs and b != a for b, sb in schema.attributes.items()):
        return None
    spec2 = {**spec, "attrs": dict(attrs)}
    given = list(attrs)
    if case["cls"] != "omitted":
        spec2["attrs"][a] = SP.value_of(env, case)
        given.append(a)
    opt_inputs = [f.name for f in schema.inputs if f.option.name == "Optional"]
    present = set(x for x in (spec.get("subsets") or [[]])[0] if x in opt_inputs)
    res = public_case(env, fn, schema, spec2, present, given, mod)
    if res is None:
        return None
    _, r = res
    if r["status"] == "not-one-node" or r["status"] == "optional-outputs-not-omittable":
        return None
    status = "ok" if r["status"] == "ok" else "raised"
    verdicts = SP.judge(env, mid, op, schema, case, status, r.get("mro"), r.get("err"), r.get("proto"))
    if verdicts and case["cls"] == "none" and status == "raised" and "TypeError" not in (r.get("mro") or []):
        # `None` on an optional attribute is refused - by the constructor, or by ONNX's own inference
        # because the operator semantically needs the attribute (ml Scaler)? The same call with the
        # attribute left out decides: if that is refused alike, `None` was read as "absent".
        spec3 = {**spec, "attrs": dict(attrs)}
        res3 = public_case(env, fn, schema, spec3, present, list(attrs), mod)
        if res3 is not None and res3[1]["status"] == "raised" and (res3[1].get("mro") or [None])[0] == (r.get("mro") or [None])[0]:
            return []
    return verdicts


def public_spelling_oracle(ck, env: Env, stats, only=None):
    """None / malformed values for every attribute of the operators the public oracle has valid typed
    arguments for, plus every valid spelling of every dtype-valued attribute (element types the
    operator's type constraint admits); in every module. Public API + ModelProto only."""
    from harness import lib_c11spell as SP
    from translator.constructors import MODULES

    table = SP.spellings(env)
    for mid, rel, domain, version, pymod in MODULES:
        try:
            mod = env.module(pymod)
            force = env.schemas(domain, version)
            ctors = dict(getattr(mod, "_CONSTRUCTORS", {}))
        except Exception as e:  # noqa: BLE001
            ck.broken("correspondence", f"module {pymod} not importable", f"{type(e).__name__}: {e}")
            continue
        seen_ops = set()
        for spec in PUBLIC_SPECS + DTYPE_SPECS:
            op = spec["op"]
            schema = force.get(op)
            if schema is None or schema.deprecated or op not in ctors or op in seen_ops:
                continue
            seen_ops.add(op)
            fn = ctors[op]
            try:
                cases = SP.cases_for(env, fn, schema)
                allowed = None
                chosen = []
                for ai, a in enumerate(sorted({c["attr"] for c in cases})):
                    mine = [c for c in cases if c["attr"] == a]
                    bad = [c for c in mine if c["cls"] == "bad"]
                    if mine[0]["akind"] == "DTYPE":
                        if allowed is None:
                            allowed = {env.onnx.TensorProto.DataType.Name(e) for e in allowed_elems(env, schema, schema.outputs[0].type_str)}
                        sel = [c for c in mine if c["cls"] in ("none", "omitted", "bad")
                               or (c["cls"] == "valid" and SP.find_spelling(env, "DTYPE", c["sp"])[3] in allowed)]
                    else:
                        k = (ai + len(op)) % max(len(bad), 1)
                        sel = [c for c in mine if c["cls"] == "none"] + bad[k:k + 1] + bad[(k + 3) % max(len(bad), 1):(k + 3) % max(len(bad), 1) + 1]
                    chosen += sel
            except Exception as e:  # noqa: BLE001
                ck.broken("correspondence", f"public spelling oracle {mid}:{op} not observable", f"{type(e).__name__}: {e}")
                continue
            for case in chosen:
                if only is not None and (only["module"], only["op"], only["case"]["attr"], only["case"]["sp"]) != (mid, op, case["attr"], case["sp"]):
                    continue
                try:
                    verdicts = public_spell_case(env, mid, op, version, schema, fn, mod, spec, case)
                except Exception as e:  # noqa: BLE001
                    ck.broken("correspondence", f"public spelling oracle {mid}:{op} not observable", f"{type(e).__name__}: {e}")
                    continue
                if verdicts is None:
                    continue
                stats["public_spelling_cases"] = stats.get("public_spelling_cases", 0) + 1
                ck.count(("public-spell", mid, op, case["attr"], case["sp"]))
                for k, what in verdicts:
                    ck.failure(k, what, {"module": mid, "op": op, "kind": "public-spell", "case": case})


# ----------------------------------------------------------------------------- run
def failing_pairs(lean_res) -> set:
    out = set()
    for nm in lean_res.broken_names:
        m = re.search(r"(?:conforms|slots)_((?:ml_)?v\d+)_(\w+)", nm)
        if m:
            out.add((m.group(1), m.group(2)))
    return out


def internal_oracle(ck, env: Env, info, stats, extra):
    """All 980 pairs: reflection + real constructor calls observed through `Node.to_onnx`
    (needs spox internals; every facet that cannot be observed is reported, never raised)."""
    from translator.constructors import MODULES

    pairs = {(p["module"], p["op"]): p for p in (info or {}).get("pairs", [])}
    cache = {}
    reqs, req_meta = [], []
    can_call = env.Node is not None and env.StandardNode is not None and env.Scope is not None and env.ts is not None
    for attr in ("inference", "validate_types", "to_onnx"):
        if env.Node is not None and not callable(getattr(env.Node, attr, None)):
            ck.broken("correspondence", f"Node.{attr} not observable", "the call oracle needs it; falling back to reflection + public-API oracle")
            can_call = False
    unobs = 0
    for mid, rel, domain, version, pymod in MODULES:
        try:
            mod = env.module(pymod)
            force = env.schemas(domain, version)
            operators = dict(mod._OPERATORS)
            constructors_ = dict(mod._CONSTRUCTORS)
        except Exception as e:  # noqa: BLE001
            ck.broken("correspondence", f"module tables of {pymod} not observable", f"{type(e).__name__}: {e}")
            continue
        for op, cls in operators.items():
            schema = force.get(op)
            if schema is None:
                ck.failure(f"{mid}:{op}:schema:absent", f"{op} has no schema in onnx.defs at {domain!r} {version}",
                           {"module": mid, "op": op, "kind": "reflect"})
                continue
            fn = constructors_.get(op)
            try:
                for key, what in reflect(env, mid, op, cls, fn, schema):
                    ck.failure(key, what, {"module": mid, "op": op, "kind": "reflect"})
                ck.count(("reflect", mid, op))
            except Exception as e:  # noqa: BLE001
                unobs += 1
                if unobs <= 3:
                    ck.broken("correspondence", f"reflection on {mid}:{op} not observable", f"{type(e).__name__}: {e}")
            if fn is None or not can_call:
                continue
            try:
                ckey = (fn, schema.name, schema.since_version)
                first = ckey not in cache
                if first:
                    stats["distinct_ctor_schema"] += 1
                    runs = []
                    for case in gen_cases(schema, ck.rng, extra, ck.pick(3, 7)):
                        runs.append((case, run_case(env, fn, schema, case)))
                    for a, sa in schema.attributes.items():
                        if sa.type.name == "SPARSE_TENSOR":
                            case = {"present": [], "variadic": None, "attrs": [a], "mode": "kw"}
                            runs.append((case, run_case(env, fn, schema, case)))
                    # dtype-valued attributes (`to`, `dtype`): every element type ONNX defines, all in this
                    # one process, in an order that differs from operator to operator
                    dt_attrs = sorted({a for _, r_ in runs for a in r_.get("dtype_attrs", [])})
                    opt_in = sorted(f.name for f in schema.inputs if f.option.name == "Optional")
                    req_attrs = sorted(a for a, sa in schema.attributes.items() if sa.required)
                    for a in dt_attrs:
                        order = sorted(elem_types(env))
                        ck.rng.shuffle(order)
                        for e in order:
                            case = {"present": opt_in, "variadic": 1 if any(f.option.name == "Variadic" for f in schema.inputs) else None,
                                    "attrs": sorted(set(req_attrs) | {a}), "mode": "kw", "elem": e}
                            runs.append((case, run_case(env, fn, schema, case)))
                            stats["dtype_sweep_calls"] = stats.get("dtype_sweep_calls", 0) + 1
                    # tensor-valued attributes holding every element type
                    for a, sa in schema.attributes.items():
                        if sa.type.name == "TENSOR":
                            order = sorted(elem_types(env))
                            ck.rng.shuffle(order)
                            for e in order:
                                case = {"present": opt_in, "variadic": None, "attrs": sorted(set(req_attrs) | {a}), "mode": "kw",
                                        "layout": {a: ["elem", e]}}
                                runs.append((case, run_case(env, fn, schema, case)))
                                stats["tensor_elem_calls"] = stats.get("tensor_elem_calls", 0) + 1
                    cache[ckey] = runs
                for case, r in cache[ckey]:
                    stats["calls"] += 1
                    ck.count(("call", mid, op, tuple(case["present"]), case["variadic"], tuple(case["attrs"]), case["mode"], case.get("variant", 0), repr(case.get("same")), repr(case.get("layout")), repr(case.get("forms")), repr(case.get("tvariant")), case.get("vform"), case.get("vmut"), case.get("elem")))
                    for key, what in judge(env, mid, op, version, schema, case, r, cls):
                        ck.failure(key, what, {"module": mid, "op": op, "kind": "call", "case": case})
                    if r["status"] == "unobservable":
                        unobs += 1
                        if unobs <= 3:
                            ck.broken("correspondence", f"NodeProto of {mid}:{op} not observable through Node.to_onnx", r["err"])
                        continue
                    if r["status"] != "ok":
                        stats["raised"] += 1
                        continue
                    if first:
                        p = r["proto"]
                        stats["with_omitted_inner_optional"] += int("" in list(p.input))
                        stats["with_trimmed_trailing"] += int(len(p.input) < len(schema.inputs))
                        stats["attr_values_checked"] += len(r["given"])
                        stats["tensor_layout_calls"] = stats.get("tensor_layout_calls", 0) + int(bool(case.get("layout")))
                        stats["iterable_form_calls"] = stats.get("iterable_form_calls", 0) + int(bool(case.get("forms")))
                        stats["type_value_calls"] = stats.get("type_value_calls", 0) + int(bool(case.get("tvariant")))
                        stats["variadic_mutation_calls"] = stats.get("variadic_mutation_calls", 0) + int(bool(case.get("vform")))
                        stats["repeated_var_calls"] = stats.get("repeated_var_calls", 0) + int(bool(case.get("same")))
                        stats["dtype_attrs"] += len(r["dtype_attrs"])
                        stats["graph_attr_calls"] += int(any(sa.type.name == "GRAPH" for sa in schema.attributes.values()))
                        if (mid, op) in pairs:
                            try:
                                rq = call_request(env, info, pairs[(mid, op)], schema, case, r)
                            except Exception as e:  # noqa: BLE001
                                rq = None
                                unobs += 1
                                if unobs <= 3:
                                    ck.broken("correspondence", f"call model request {mid}:{op} not observable", f"{type(e).__name__}: {e}")
                            if rq is not None:
                                reqs.append(rq)
                                req_meta.append((mid, op, case, r))
                        if len(ck.samples) < 4 and ("" in list(p.input) or r["given"]):
                            ck.sample({"module": mid, "op": op, "case": case, "inputs": list(p.input),
                                       "attributes": [a.name for a in p.attribute]})
                u2 = spelling_calls(ck, env, info, pairs, mid, op, version, schema, fn, first, cache, stats, reqs, req_meta)
                u2 += input_spelling_calls(ck, env, info, pairs, mid, op, schema, fn, cache, stats, reqs, req_meta)
                if u2:
                    unobs += u2
                    if unobs - u2 < 3:
                        ck.broken("correspondence", f"NodeProto of {mid}:{op} not observable through Node.to_onnx (spelling calls)", "")
            except Exception as e:  # noqa: BLE001
                unobs += 1
                if unobs <= 3:
                    ck.broken("correspondence", f"constructor calls of {mid}:{op} not observable", f"{type(e).__name__}: {e}")
    stats["unobservable"] = unobs
    return reqs, req_meta


def inventory(ck, *files):
    """tie G: regenerate `Generated/AdaptAttrInventory.lean` (override table of `_attributes.py`, exits of
    `dtype_to_tensor_type` / `_adapt.py`); report which normalised-AST hashes differ from the committed
    baseline (evidence + escalation only - the obligations are about the structural tables)."""
    import json

    try:
        from translator import adapt_attr_inventory

        info = adapt_attr_inventory.generate()
        for p in info["problems"]:
            ck.broken("extraction", "translator/adapt_attr_inventory.py", p)
        base = json.loads((core.VERIF / "harness" / "c11c18_source_baseline.json").read_text())
        mine = {k: v for k, v in info["hashes"].items() if k.split(":")[0] in files}
        changed = sorted(k for k in set(mine) | {b for b in base if b.split(":")[0] in files} if mine.get(k) != base.get(k))
        ck.cov["source_inventory"] = {"functions": len(mine), "changed_vs_baseline": changed}
        return changed
    except Exception as e:  # noqa: BLE001
        ck.broken("extraction", "translator/adapt_attr_inventory.py could not read the source", f"{type(e).__name__}: {e}")
        return ["<unreadable>"]


def run(ck: core.Check):
    from translator import constructors

    info = None
    try:
        info = constructors.generate()
    except Exception as e:  # noqa: BLE001
        ck.broken("extraction", "translator/constructors.py could not read the opset modules", f"{type(e).__name__}: {e}")
    if info is not None:
        for p in info["problems"][:10]:
            ck.broken("extraction", "translator/constructors.py: unclassifiable source shape", p)
        ck.cov["pairs"] = len(info["pairs"])
        ck.cov["pairs_per_module"] = {m: v["n_pairs"] for m, v in info["modules"].items()}
        ck.cov["listed_deviations"] = [f"{p['module']}:{p['op']}:{','.join(p['except'])}" for p in info["pairs"] if p["except"]]
    source_changed = inventory(ck, "_attributes.py", "_utils.py")
    res = ck.lean(["SpoxModel.Props.C11"], audit="SpoxModel.Audit.C11")
    if ck.thorough:
        from translator.constructors import MODULES

        ck.leanchecker(["SpoxModel.Props.C11", "SpoxModel.Model.Conform", "SpoxModel.Lemmas.Conform",
                        "SpoxModel.Generated.AdaptAttrInventory"]
                       + [f"SpoxModel.Generated.Conforms_{m[0]}" for m in MODULES])
    bad_pairs = failing_pairs(res)
    for p in (info or {}).get("pairs", []):
        ck.obligations.append({"name": f"Generated.Conforms.{p['module']}.{p['theorem']}",
                               "discharged": res.ok or ((p["module"], p["op"]) not in bad_pairs and _module_built(res, p["module"])),
                               "axioms": None})
        ck.obligations.append({"name": f"Generated.Conforms.{p['module']}.slots_{p['theorem'][len('conforms_'):]}",
                               "discharged": res.ok or ((p["module"], p["op"]) not in bad_pairs and _module_built(res, p["module"])),
                               "axioms": None})

    stats = {"calls": 0, "raised": 0, "with_omitted_inner_optional": 0, "with_trimmed_trailing": 0,
             "attr_values_checked": 0, "dtype_attrs": 0, "graph_attr_calls": 0, "distinct_ctor_schema": 0,
             "public_cases": 0}
    try:
        env = Env(ck)
    except Exception as e:  # noqa: BLE001
        ck.broken("correspondence", "spox (public API) not importable", f"{type(e).__name__}: {e}")
        env = None
    if env is not None and info is not None:
        try:
            ck.cov["extractor_vs_live_comparisons"] = validate_against_live(ck, env, info)
        except Exception as e:  # noqa: BLE001
            ck.broken("translator", "extraction vs live modules not observable", f"{type(e).__name__}: {e}")

    # ---- model-free oracles: public API first (always runs), then the exhaustive internal one
    if env is not None:
        public_oracle(ck, env, stats)
        try:
            public_tensor_oracle(ck, env, stats)
            public_type_oracle(ck, env, stats)
            public_dtype_oracle(ck, env, stats, ck.rng)
            public_spelling_oracle(ck, env, stats)
            public_neighbours_oracle(ck, env, stats)
        except Exception as e:  # noqa: BLE001
            ck.broken("correspondence", "public tensor/type oracle not observable", f"{type(e).__name__}: {e}")
        try:
            from harness import lib_attrhistory

            hist = lib_attrhistory.run_c11(ck, env, stats, rng=ck.rng)
            ck.count(("attr-history", stats.get("attr_history", {}).get("steps")))
            for k, what, doc in hist[:12]:
                ck.failure(k, what, doc)
        except Exception as e:  # noqa: BLE001
            ck.broken("correspondence", "attribute histories (lib_attrhistory) not observable", f"{type(e).__name__}: {e}")
        try:
            from harness import lib_c11schemas

            lib_c11schemas.run(ck, env, stats)
        except Exception as e:  # noqa: BLE001
            ck.broken("correspondence", "schema lookup (lib_c11schemas) not observable", f"{type(e).__name__}: {e}")
    reqs, req_meta = [], []
    if env is not None:
        try:
            reqs, req_meta = internal_oracle(ck, env, info, stats, ck.pick(2, 40))
        except Exception as e:  # noqa: BLE001
            ck.broken("correspondence", "internal call oracle not observable", f"{type(e).__name__}: {e}")
    outs = []
    try:
        outs = ck.driver().ask_many("C11", reqs) if reqs else []
    except Exception as e:  # noqa: BLE001
        ck.broken("correspondence", "C11 driver", str(e))
    mism = 0
    for (mid, op, case, r), m in zip(req_meta, outs):
        try:
            d = (compare_in_spell(env, m, r) if case.get("insp") else compare_spell(env, m, r)) if "sp" in case else compare_call(env, m, r)
        except Exception as e:  # noqa: BLE001
            d = f"comparison not observable: {type(e).__name__}: {e}"
        if d:
            mism += 1
            if mism <= 4:
                ck.broken("correspondence", f"C11 call model vs real constructor {mid}:{op}", f"case={case}: {d}")
    if len(outs) != len(reqs):
        ck.broken("correspondence", "C11 driver", f"{len(outs)} answers for {len(reqs)} requests")
    stats["call_model_cases"] = len(reqs)
    stats["call_model_mismatches"] = mism
    ck.cov["distribution"] = stats
    ck.exhaustive = True
    ck.rule = (
        "exhaustive over the 980 operator/module pairs: reflection (op_type, fields, signature, defaults) "
        "per pair; real constructor calls per distinct (constructor, schema): all subsets of optional inputs "
        "(<=5; else all singletons/co-singletons + random) x variadic arities x {no optional attribute, all} "
        "+ each optional attribute alone + all attribute subsets when <=3 (thorough: <=7) optional attributes "
        "+ edge-value variant + seeded random subsets; plus 26 operators with valid typed arguments through the "
        "public API only (constructor -> spox.build -> ModelProto) in every module; distinct by (module, op, "
        "inputs present, attributes given, call style, value variant)"
    )
    ck.assumptions += [
        "onnx.defs of the installed onnx (1.22) is the reference for schemas",
        "type inference/value propagation of standard operators is switched off while the exhaustive oracle "
        "constructs nodes from sentinel arguments (slotting and attributes do not depend on it; the public-API "
        "oracle runs with inference on; C05/C06 cover inference)",
        "translator/constructors.py's reading of the source (validated against dataclasses.fields / "
        "inspect.signature / op_type of the live modules, and behaviourally by the call-model correspondence)",
    ]


def _module_built(res, mid) -> bool:
    return f"Conforms_{mid}" not in res.log or "error" not in res.log


def replay(ck: core.Check, doc) -> bool:
    from translator.constructors import MODULES

    if doc.get("kind") == "obligation" or "case" not in doc:
        from translator import constructors

        constructors.generate()
        inventory(ck, "_attributes.py", "_utils.py")
        res = ck.lean(["SpoxModel.Props.C11"], audit="SpoxModel.Audit.C11")
        for b in ck.broken_items:
            print("still broken:", b["name"], b["detail"][:200])
        return not res.ok
    c = doc["case"]
    env = Env()
    mid, op = c["module"], c["op"]
    _, _, domain, version, pymod = next(m for m in MODULES if m[0] == mid)
    mod = env.module(pymod)
    schema = env.schemas(domain, version).get(op)
    cls, fn = mod._OPERATORS.get(op), mod._CONSTRUCTORS.get(op)
    if schema is None or cls is None:
        print("operator or schema missing")
        return True
    verdicts = reflect(env, mid, op, cls, fn, schema) if c.get("kind") == "reflect" else []
    if c.get("kind") == "public" and fn is not None and find_spec(op) is not None:
        cs = c["case"]
        spec = PUBLIC_SPECS[cs["spec"]] if "spec" in cs and cs["spec"] < len(PUBLIC_SPECS) and PUBLIC_SPECS[cs["spec"]]["op"] == op else find_spec(op)
        res = public_case(env, fn, schema, spec, set(cs["present"]), cs["attrs"], mod, cs.get("same"), cs.get("vmut"))
        if res is not None:
            verdicts += judge(env, mid, op, version, schema, res[0], res[1])
            verdicts += import_verdict(env, mid, op, schema, res[1])
    if c.get("kind") in ("public-tensor", "public-type", "public-dtype"):
        ck2 = core.Check("C11", "quick", doc.get("seed", 0))
        ck2._findings = []
        if c["kind"] == "public-dtype":
            public_dtype_oracle(ck2, env, {}, ck2.rng)
        else:
            (public_tensor_oracle if c["kind"] == "public-tensor" else public_type_oracle)(ck2, env, {})
        verdicts += [(f["key"], f["what"]) for f in ck2.failures]
    if c.get("kind") == "spell" and fn is not None:
        from harness import lib_c11spell as SP

        r = run_spell_case(env, fn, schema, c["case"])
        print("outcome:", r["status"], r.get("err"), str(r.get("proto")).replace("\n", " ")[:300])
        if r["status"] != "unobservable":
            verdicts += SP.judge(env, mid, op, schema, c["case"], r["status"], r["mro"], r["err"], r["proto"])
    if c.get("kind") == "attr-history":
        from harness import lib_attrhistory

        verdicts += [(k, w) for k, w, _ in lib_attrhistory.run_c11(None, env, {}, steps=c["case"]["steps"])]
    if c.get("kind") == "schema-lookup":
        from harness import lib_c11schemas

        verdicts += lib_c11schemas.lookup_verdicts(env, mid, domain, version, op, cls)
    if c.get("kind") == "public-neighbour":
        verdicts += neighbour_case(env, mid, mod, env.schemas(domain, version), c["case"])
    if c.get("kind") == "inspell" and fn is not None:
        r = run_in_spell_case(env, fn, schema, c["case"])
        print("outcome:", r["status"], r.get("err"), None if r.get("proto") is None else list(r["proto"].input))
        if r["status"] != "unobservable":
            verdicts += judge_in_spell(env, mid, op, schema, fn, c["case"], r)
        else:
            verdicts += judge_in_spell(env, mid, op, schema, fn, c["case"], {**r, "status": "ok"}, accepted_only=True)
    if c.get("kind") == "public-spell" and fn is not None:
        spec = next((s_ for s_ in PUBLIC_SPECS + DTYPE_SPECS if s_["op"] == op), None)
        if spec is not None:
            verdicts += public_spell_case(env, mid, op, version, schema, fn, mod, spec, c["case"]) or []
    if c.get("kind") == "call" and fn is not None:
        r = run_case(env, fn, schema, c["case"])
        verdicts += judge(env, mid, op, version, schema, c["case"], r, cls)
        if r.get("proto") is not None:
            print("emitted:", str(r["proto"]).replace("\n", " ")[:400])
    key = doc.get("key")
    for k, what in verdicts:
        print(f"{k}: {what}")
    return any(k == key for k, _ in verdicts) if key else bool(verdicts)
