"""C06 — reported types are sound: runtime values always conform to them.

tie G  : translator/ml_overrides.py lists every `infer_output_types` override in src/spox/opset/**;
         Props/C06.lean proves the list equal to what the model covers.
proof  : Props/C06.lean — per operator `X_sound` (or `X_sound_partial` + `X_counterexample`),
         loop_carried_sound, loop_scan_sound, stripDim_sound, inline_types_sound, ...
tie H  : (1) `infer_X` (driver) vs. the real constructor's `Var.type` / exception class, bounded-exhaustive;
         (2) the Loop routine vs. `op.loop` on bodies returning Vars of prescribed types;
         (3) `rt_X` (driver) vs. onnxruntime on a raw ONNX node, all concrete shapes with dims <= 3
             (validates the hand-written runtime spec = trusted base);
         (4) Lean `conforms` vs. the oracle's `conforms`.
oracle : model-free. Programs built with the real spox (single operators over symbolic shapes, and
         generated programs with Loop/If/inline/functions), every typed Var exposed as an output with
         its declared type removed, run under onnxruntime on inputs instantiating unknown dims with
         0,1,2,5; dtype / rank / constant dims compared with `Var.type`.
"""
from __future__ import annotations

import itertools
import json
import random
import warnings
from pathlib import Path
from typing import Any, Optional

import numpy as np

from harness import core
from harness import lib_mlops as L
from harness import lib_c06prog as P
from harness import lib_c06vdep as V
from harness import lib_c06if as IF

SIZES = [0, 1, 2, 5]
GLUE_BASELINE = Path(__file__).resolve().parent.parent / "c06_glue_baseline.json"
ESCALATE: list = []  # glue functions whose normalised AST differs from the committed baseline (this run)


def glue_changes(tab) -> list:
    """Glue functions (`_standard.py`, `_inline.py`, `Node.inference`, ...) whose normalised-AST hash differs
    from the committed baseline. Not a violation: the run then uses larger case lists (all modules as
    first-class in the termination loops, every value source under every backend, symbolic unary inputs,
    4x the generated programs), so that a changed code path meets more inputs."""
    try:
        base = json.loads(GLUE_BASELINE.read_text())
    except Exception:  # noqa: BLE001
        return ["<no baseline>"]
    now = {f"{g['file']}:{g['name']}": g["hash"] for g in tab.get("glue", [])}
    return sorted(k for k in set(base) | set(now) if base.get(k) != now.get(k))


# =============================================================================== correspondences
def _sym_shapes(op: L.Op, idx: int, rng: random.Random, thorough: bool) -> list:
    mr = op.max_rank[idx]
    if idx > 0:  # secondary inputs: a fixed small family
        fam = [None, [], [0], [2], ["N"], [None], [2, 2], [1, None], [2, 3], [2, 1, 3]]
        return [s for s in fam if s is None or len(s) <= mr]
    full = L.shapes_upto(mr)
    if thorough:
        return full
    low = [s for s in full if s is None or len(s) <= 2]
    high = [s for s in full if s is not None and len(s) > 2]
    return low + rng.sample(high, min(30 if len(op.inputs) == 1 else 8, len(high)))


def infer_cases(rng: random.Random, thorough: bool) -> list[dict]:
    cases = []
    for name in L.MODELLED:
        op = L.OPS[name]
        shape_sets = [_sym_shapes(op, i, rng, thorough) for i in range(len(op.inputs))]
        elem_sets = list(itertools.product(*op.in_elems))
        for a in op.attr_classes():
            for elems in elem_sets:
                for shapes in itertools.product(*shape_sets):
                    tys = [{"e": e, "s": s} for e, s in zip(elems, shapes)]
                    cases.append({"op": name, "attrs": a, "in": tys})
            # untyped inputs
            for k in range(len(op.inputs)):
                tys = [{"e": op.in_elems[i][0], "s": [2, 2][: min(2, op.max_rank[i])]} for i in range(len(op.inputs))]
                tys[k] = None
                cases.append({"op": name, "attrs": a, "in": tys})
    return cases


def _req(kind: str, case: dict, **extra) -> dict:
    r = {"k": kind, "op": case["op"]}
    r.update({k: v for k, v in case["attrs"].items()})
    r.update(extra)
    return r


def compress_variant() -> bool:
    """Which Compress routine does the source implement? True = the repaired one (an input of unknown
    rank without an axis gives a vector, `inferCompressFixed`), False = the pinned one (`inferCompress`).
    Probed on the one distinguishing input; both variants are proved sound."""
    try:
        r = L.real_infer(L.OPS["Compress"], {"a": None}, [{"e": "f32", "s": None}, {"e": "bool", "s": [2]}])
        return r.get("ok") == [{"e": "f32", "s": [None]}]
    except Exception:  # noqa: BLE001
        return False


def corr_infer(ck: core.Check, drv) -> None:
    cases = infer_cases(ck.rng, ck.thorough)
    vec = compress_variant()
    ck.cov["compress_variant"] = "inferCompressFixed" if vec else "inferCompress"
    model = drv.ask_many("C06", [_req("infer", c, **({"in": c["in"], "vec": vec} if c["op"] == "Compress" else {"in": c["in"]})) for c in cases])
    mism = 0
    per_op: dict[str, int] = {}
    errs = 0
    for c, m in zip(cases, model):
        real = L.real_infer(L.OPS[c["op"]], c["attrs"], c["in"])
        per_op[c["op"]] = per_op.get(c["op"], 0) + 1
        errs += int("err" in real)
        ck.count(("infer", c["op"], json.dumps(c["attrs"], sort_keys=True), json.dumps(c["in"])))
        if m != real:
            mism += 1
            if mism <= 5:
                ck.broken(
                    "correspondence",
                    f"infer_{c['op']} model-vs-constructor",
                    f"case={json.dumps(c)} model={json.dumps(m)} real={json.dumps(real)}",
                )
    ck.cov["infer_correspondence"] = {"cases": len(cases), "mismatches": mism, "per_operator": per_op, "raising_cases": errs}
    ck.sample({"infer_case": cases[len(cases) // 2]})


LOOP_TYS = [
    None,
    {"e": "f32", "s": None},
    {"e": "f32", "s": []},
    {"e": "f32", "s": [2]},
    {"e": "f32", "s": [4]},
    {"e": "f32", "s": ["N"]},
    {"e": "f32", "s": ["M"]},
    {"e": "f32", "s": [None]},
    {"e": "f32", "s": [2, 3]},
    {"e": "f32", "s": ["N", 3]},
    {"e": "f32", "s": [None, 3]},
    {"e": "f32", "s": ["N", None]},
    {"e": "i64", "s": [2]},
    {"e": "i64", "s": []},
]


# opset modules whose Loop carries the inference patch on the pinned tree (v18 re-exports v17's class,
# v20 re-exports v19's); refined at run time from the override table when the class owner is visible
LOOP_PATCHED = {"v17": True, "v18": True, "v19": False, "v20": False, "v21": False}


def loop_patched_now(rows) -> dict:
    """module -> does its Loop class (wherever it is defined) override infer_output_types?"""
    out = dict(LOOP_PATCHED)
    owners = {r["module"] for r in rows if r["op"] == "Loop"}
    for m in out:
        try:
            owner = P.opset_module(m)._Loop.__module__.rsplit(".", 1)[-1]
            out[m] = f"ai.onnx.{owner}" in owners
        except Exception:  # noqa: BLE001
            pass
    return out


def real_loop(A, R, S, module="v17") -> dict:
    op = P.opset_module(module)
    try:
        init = [L.mk_var(a) for a in A]
        res = [L.mk_var(r) for r in R]
        sc = [L.mk_var(s) for s in S]
        c = L.mk_var({"e": "bool", "s": []})
        with warnings.catch_warnings():
            warnings.simplefilter("ignore")
            outs = op.loop(op.const(3), v_initial=init, body=lambda i, cnd, *vs: [c] + res + sc)
        return {"ok": [L.ty_to_json(x.type) for x in outs]}
    except Exception as e:  # noqa: BLE001
        return {"err": type(e).__name__}


def corr_loop(ck: core.Check, drv, rows=None) -> None:
    rng = ck.rng
    patched_map = loop_patched_now(rows) if rows else LOOP_PATCHED
    cases = []
    typed = [t for t in LOOP_TYS if t is not None]
    for a in typed:  # one carried value: all pairs
        for r in LOOP_TYS:
            cases.append(([a], [r], []))
    for s in LOOP_TYS:  # one scan output
        cases.append(([], [], [s]))
    for _ in range(ck.pick(150, 1500)):  # two carried + scans
        n = rng.randrange(1, 4)
        A = [rng.choice(typed) for _ in range(n)]
        R = [rng.choice([a, a, rng.choice(typed)]) for a in A]
        S = [rng.choice(typed) for _ in range(rng.randrange(0, 3))]
        cases.append((A, R, S))
    mism = 0
    for module, patched in patched_map.items():
        sub = cases if module == "v17" or ck.thorough else cases[: len(typed) * len(LOOP_TYS) + len(LOOP_TYS)]
        model = drv.ask_many("C06", [{"k": "loop", "A": A, "R": R, "S": S, "onnx": not patched} for A, R, S in sub])
        for (A, R, S), m in zip(sub, model):
            real = real_loop(A, R, S, module)
            ck.count(("loop", module, json.dumps([A, R, S])))
            if m != real:
                mism += 1
                if mism <= 5:
                    ck.broken(
                        "correspondence",
                        f"inferLoop model-vs-op.loop ({module})",
                        f"A={json.dumps(A)} R={json.dumps(R)} S={json.dumps(S)} model={json.dumps(m)} real={json.dumps(real)}",
                    )
    ck.cov["loop_correspondence"] = {"cases_v17": len(cases), "modules": list(LOOP_PATCHED), "mismatches": mism}


def corr_if(ck: core.Check, drv) -> None:
    """Round 10. `inferIf` (the join of the branches' result types) vs. the real `op.if_` of every opset
    module, on all pairs of one-result branches over IF_TYS plus random multi-result cases (incl.
    different numbers of results, untyped results, no results); and `ifRun` vs. onnxruntime on raw `If`
    nodes. The class of every case is counted into the evidence."""
    rng = ck.rng
    tys = IF.IF_TYS
    typed = [t for t in tys if t is not None]
    pairs = [([a], [b]) for a in tys for b in tys]
    multi = [([], []), ([typed[2]], []), ([], [typed[2]]), ([typed[2], typed[3]], [typed[2]])]
    for _ in range(ck.pick(120, 2000)):
        n = rng.randrange(1, 4)
        T = [rng.choice(typed) for _ in range(n)]
        E = []
        for t in T:
            r = rng.random()
            if r < 0.3:
                E.append(t)
            elif r < 0.8:
                same_e = [u for u in typed if u["e"] == t["e"]]
                E.append(rng.choice(same_e))
            elif r < 0.95:
                E.append(rng.choice(typed))
            else:
                E.append(None)
        if rng.random() < 0.06:
            E = E[:-1] if rng.random() < 0.5 else E + [rng.choice(typed)]
        if rng.random() < 0.5:
            T, E = E, T
        multi.append((T, E))
    cases = pairs + multi
    mism, dist, outcomes = 0, {}, {}
    for module in P.OPSET_MODULES:
        sub = cases if module == "v17" or ck.thorough else (pairs[::8] + multi[:20])
        model = drv.ask_many("C06", [{"k": "if", "T": T, "E": E} for T, E in sub])
        for (T, E), m in zip(sub, model):
            real = IF.real_if(T, E, module)
            ck.count(("if", module, json.dumps([T, E])))
            rel = IF.relation(T, E)
            dist[rel] = dist.get(rel, 0) + 1
            oc = "ok" if "ok" in real else real.get("err", "?")
            outcomes[oc] = outcomes.get(oc, 0) + 1
            if m != real:
                mism += 1
                if mism <= 5:
                    ck.broken(
                        "correspondence",
                        f"inferIf model-vs-op.if_ ({module})",
                        f"T={json.dumps(T)} E={json.dumps(E)} model={json.dumps(m)} real={json.dumps(real)}",
                    )
    # ifRun vs onnxruntime on raw If nodes
    vals = [{"e": "f32", "s": []}, {"e": "f32", "s": [2]}, {"e": "f32", "s": [4]}, {"e": "f32", "s": [2, 3]},
            {"e": "f32", "s": [0]}, {"e": "i64", "s": [2]}, {"e": "bool", "s": [1, 2]}]
    raw, rmism, refused = [], 0, 0
    for a in vals:
        for b in vals:
            raw.append(([a], [b]))
    for _ in range(ck.pick(12, 120)):
        n = rng.randrange(2, 4)
        raw.append(([rng.choice(vals) for _ in range(n)], [rng.choice(vals) for _ in range(n)]))
    reqs = [{"k": "ifrun", "c": c, "vt": vt, "ve": ve} for vt, ve in raw for c in (True, False)]
    outs = drv.ask_many("C06", reqs)
    for rq, m in zip(reqs, outs):
        try:
            real = IF.raw_if_run(rq["vt"], rq["ve"], rq["c"])
        except Exception:  # noqa: BLE001  (onnxruntime refuses e.g. branches of different element types)
            refused += 1
            continue
        ck.count(("ifrun", json.dumps(rq)))
        if m.get("run") != real:
            rmism += 1
            if rmism <= 3:
                ck.broken("correspondence", "ifRun model-vs-onnxruntime (raw If node)",
                          f"req={json.dumps(rq)} model={json.dumps(m)} runtime={json.dumps(real)}")
    ck.cov["if_correspondence"] = {
        "cases_v17": len(cases), "modules": list(P.OPSET_MODULES), "mismatches": mism,
        "case_classes": dist, "real_outcomes": outcomes,
        "raw_if_runs": len(reqs), "raw_if_refused_by_runtime": refused, "raw_if_mismatches": rmism,
    }


def corr_looprun(ck: core.Check, drv) -> None:
    """`loopRun` / `stackScan` / `emptyScanOk` (the Loop semantics the theorems quantify over) vs.
    onnxruntime: trip counts 0-3, initial condition, per-iteration conditions, shape-preserving and
    doubling bodies, the carried value declared with unknown or with constant dims."""
    import spox.opset.ai.onnx.v17 as op

    cases = []
    for kind in ("id", "double"):
        for M in range(4):
            for c0 in (True, False):
                for conds in ([True, True, True], [False, True, True], [True, False, True], [True, True, False]):
                    for shape in ([2], [1, 3], [0]):
                        for declared in ("unknown", "const"):
                            if declared == "const" and kind == "double":
                                continue  # a doubling body contradicts a constant declared shape
                            cases.append({"body": kind, "M": M, "c0": c0, "conds": conds, "declared": declared,
                                          "v0": [{"e": "f32", "s": shape}]})
                            if c0:  # the same run with `cond` OMITTED: the model's c0 = true is what the runtime does
                                cases.append(dict(cases[-1], omit=True))
                            if M == 0 and False in conds:  # ... and with the TRIP COUNT omitted (the body must stop by itself)
                                cases.append(dict(cases[-1 - int(c0)], noM=True))
                                if c0:
                                    cases.append(dict(cases[-1], omit=True))
    model = drv.ask_many("C06", [dict({k: v for k, v in c.items() if not (k == "M" and c.get("noM")) and not (k == "c0" and c.get("omit"))},
                                      k="looprun") for c in cases])
    mism = ran = zero = 0
    sessions: dict = {}
    empties = []
    for c, mo in zip(cases, model):
        shape = c["v0"][0]["s"]
        decl = list(shape) if c["declared"] == "const" else [None] * len(shape)
        key = (c["body"], tuple(c["conds"]), json.dumps(decl), bool(c.get("omit")), bool(c.get("noM")))
        if key not in sessions:
            args = P.make_args({"x": L.ty_from_json({"e": "f32", "s": decl}),
                                "m": L.ty_from_json({"e": "i64", "s": []}), "c": L.ty_from_json({"e": "bool", "s": [1]})})
            cc = op.const(np.array(c["conds"] + [True] * 4, dtype=np.bool_))
            empty = op.const(np.array([], dtype=np.int64))

            def body(i, cnd, v, kind=c["body"]):
                nxt_c = op.gather(cc, i)  # i is declared int64[1], so this is bool[1] like the cond argument
                if kind == "id":
                    return [nxt_c, v, v]
                return [nxt_c, op.concat([v, v], axis=0), op.reshape(i, empty)]

            with warnings.catch_warnings():
                warnings.simplefilter("ignore")
                outs = op.loop(None if c.get("noM") else args["m"], None if c.get("omit") else args["c"], v_initial=[args["x"]], body=body)
            m, _ = P.build_exposed(args, list(outs))
            sessions[key] = P._session(m.SerializeToString())
        feed = {"x": np.zeros(shape, np.float32), "m": np.array(c["M"], np.int64), "c": np.array([c["c0"]], np.bool_)}
        try:
            res = [L.val_of(r) for r in sessions[key].run(None, feed)]
        except Exception:  # noqa: BLE001
            continue
        ran += 1
        run = mo.get("run")
        ok = run is not None and run["final"] == res[:1]
        if ok and run["iterations"] >= 1:
            ok = run["scans"] == res[1:]
        elif ok:  # zero iterations: the scan output must satisfy the runtime spec `emptyScanOk`
            zero += 1
            slice_ty = {"e": "f32", "s": decl} if c["body"] == "id" else {"e": "i64", "s": []}
            empties.append((c, res[1], slice_ty))
        ck.count(("looprun", json.dumps(c)))
        if not ok:
            mism += 1
            if mism <= 3:
                ck.broken("correspondence", "loopRun runtime-spec-vs-onnxruntime", f"case={json.dumps(c)} model={json.dumps(mo)} onnxruntime={json.dumps(res)}")
    verdicts = drv.ask_many("C06", [{"k": "emptyscan", "val": w, "ty": t} for _, w, t in empties])
    for (c, w, t), v in zip(empties, verdicts):
        if v.get("ok") is not True:
            mism += 1
            ck.broken("correspondence", "emptyScanOk runtime-spec-vs-onnxruntime", f"case={json.dumps(c)} scan output={w} declared slice type={t} model={v}")
    ck.cov["looprun_correspondence"] = {"cases": len(cases), "cond_omitted_cases": sum(1 for c in cases if c.get("omit")),
                                        "trip_count_omitted_cases": sum(1 for c in cases if c.get("noM")),
                                        "onnxruntime_accepted": ran, "zero_iteration_cases": zero, "mismatches": mism}


def _raw_scan_session(in_axes, out_axes, in_dirs, out_dirs, slice_shapes):
    """A raw ONNX model (onnx.helper, no spox) holding one Scan node: state f32[2] returned unchanged; scan
    rows = every slice, then a constant f32[2,7]."""
    import onnx
    from onnx import TensorProto as T
    from onnx import helper as h

    k = len(slice_shapes)
    b_in = [h.make_tensor_value_info("s", T.FLOAT, [2])] + [h.make_tensor_value_info(f"x{j}", T.FLOAT, list(sh)) for j, sh in enumerate(slice_shapes)]
    b_nodes = [h.make_node("Identity", ["s"], ["s_out"])] + [h.make_node("Identity", [f"x{j}"], [f"y{j}"]) for j in range(k)]
    b_nodes.append(h.make_node("Constant", [], ["z"], value=onnx.numpy_helper.from_array(np.zeros((2, 7), np.float32))))
    b_out = [h.make_value_info(n, onnx.TypeProto()) for n in ["s_out"] + [f"y{j}" for j in range(k)] + ["z"]]
    body = h.make_graph(b_nodes, "body", b_in, b_out)
    node = h.make_node("Scan", ["s0"] + [f"X{j}" for j in range(k)], ["fin"] + [f"Y{j}" for j in range(k)] + ["Z"], body=body,
                       num_scan_inputs=k, scan_input_axes=list(in_axes), scan_output_axes=list(out_axes),
                       scan_input_directions=list(in_dirs), scan_output_directions=list(out_dirs))
    g = h.make_graph([node], "g", [h.make_tensor_value_info("s0", T.FLOAT, [2])] + [h.make_value_info(f"X{j}", h.make_tensor_type_proto(T.FLOAT, None)) for j in range(k)],
                     [h.make_value_info(n, onnx.TypeProto()) for n in ["fin"] + [f"Y{j}" for j in range(k)] + ["Z"]])
    m = h.make_model(g, opset_imports=[h.make_operatorsetid("", 17)])
    m.ir_version = 8
    return P._session(m.SerializeToString())


def corr_scanrun(ck: core.Check, drv) -> None:
    """`scanRun` (the Scan semantics the Scan theorems quantify over: input / output axes incl. negative
    ones, one or two scan inputs) vs. onnxruntime on RAW Scan nodes, both directions; and `scanOutTy` /
    `scanSliceTySpox` vs. what the real `op.scan` of every opset module reports / prescribes."""
    rng = ck.rng
    cases = []
    shapes = [list(p_) for r in (2, 3) for p_ in itertools.product([1, 2, 3], repeat=r)]
    while len(cases) < ck.pick(240, 2400):
        k = rng.choice([1, 1, 2])
        xs, in_axes = [], []
        n = rng.choice([1, 2, 3])
        for _ in range(k):
            sh = list(rng.choice(shapes))
            a = rng.randrange(-len(sh), len(sh))
            sh[a] = n
            xs.append(sh)
            in_axes.append(a)
        out_axes = [rng.randrange(-len(sh), len(sh)) for sh in xs] + [rng.randrange(-3, 3)]
        cases.append({"xs": xs, "inAxes": in_axes, "outAxes": out_axes,
                      "inDirs": [rng.randrange(2) for _ in xs], "outDirs": [rng.randrange(2) for _ in range(k + 1)]})
    model = drv.ask_many("C06", [{"k": "scanrun", "inAxes": c["inAxes"], "outAxes": c["outAxes"], "states": [{"e": "f32", "s": [2]}],
                                  "xs": [{"e": "f32", "s": s_} for s_ in c["xs"]]} for c in cases])
    mism = ran = 0
    for c, mo in zip(cases, model):
        try:
            slice_shapes = [[d for i, d in enumerate(sh) if i != a % len(sh)] for sh, a in zip(c["xs"], c["inAxes"])]
            sess = _raw_scan_session(c["inAxes"], c["outAxes"], c["inDirs"], c["outDirs"], slice_shapes)
            feed = {"s0": np.zeros((2,), np.float32)}
            feed.update({f"X{j}": np.zeros(sh, np.float32) for j, sh in enumerate(c["xs"])})
            res = [L.val_of(r) for r in sess.run(None, feed)]
        except Exception:  # noqa: BLE001 - the runtime refuses: the model may say anything
            continue
        ran += 1
        ck.count(("scanrun", json.dumps(c)))
        run = mo.get("run")
        if run is None or run["final"] != res[:1] or run["outs"] != res[1:]:
            mism += 1
            if mism <= 3:
                ck.broken("correspondence", "scanRun runtime-spec-vs-onnxruntime", f"case={json.dumps(c)} model={json.dumps(mo)} onnxruntime={json.dumps(res)}")
    # type level: the real constructor (scan axis 0 — what it accepts for arbitrary dims), every output axis
    tys = [[3, 4], ["N", 4], [None, 4], [3, "M", 2], [1, 2]]
    tmism = tcases = 0
    for mod in P.OPSET_MODULES:
        op = P.opset_module(mod)
        for sh in tys:
            for oa in range(-len(sh), len(sh)):
                seen: list = []

                def body(s_, x_):
                    seen.append(L.ty_to_json(x_.type))
                    return [op.identity(s_), op.identity(x_)]

                X = {"e": "f32", "s": sh}
                try:
                    with warnings.catch_warnings():
                        warnings.simplefilter("ignore")
                        outs = op.scan([L.mk_var({"e": "f32", "s": [2]}), L.mk_var(X)], body=body, num_scan_inputs=1, scan_output_axes=[oa])
                    real = {"out": L.ty_to_json(outs[1].type), "arg": seen[0]}
                except Exception as e:  # noqa: BLE001
                    real = {"err": type(e).__name__}
                mo = drv.ask("C06", {"k": "scanty", "inAxis": 0, "outAxis": oa, "X": X, "t": {"e": "f32", "s": sh[1:]}})
                tcases += 1
                ck.count(("scanty", mod, json.dumps(sh), oa))
                if mo != real:
                    tmism += 1
                    if tmism <= 3:
                        ck.broken("correspondence", f"scanOutTy / scanSliceTySpox model-vs-op.scan ({mod})", f"X={X} outAxis={oa} model={mo} real={real}")
    ck.cov["scanrun_correspondence"] = {"cases": len(cases), "onnxruntime_accepted": ran, "mismatches": mism,
                                        "type_cases": tcases, "type_mismatches": tmism}
    if ran < len(cases) // 2:
        ck.broken("correspondence", "scanRun not observable", f"onnxruntime accepted only {ran}/{len(cases)} raw Scan models")


def corr_scanstate(ck: core.Check, drv) -> None:
    """Round 10. `scanStateTy` vs. the type the real `op.scan` of every opset module reports for a final state
    (all pairs initial type x body result type over STATE_TYS); `guardBody` (the runtime's loop-state rule)
    vs. onnxruntime on raw Scan nodes whose body keeps / changes the state's shape, scan length 1-3."""
    tys = IF.STATE_TYS
    pairs = [(a, b) for a in tys for b in tys]
    mism, outcomes = 0, {}
    model = drv.ask_many("C06", [{"k": "scanstate", "S0": a, "R": b} for a, b in pairs])
    for mi, module in enumerate(P.OPSET_MODULES):
        for pi, ((a, b), m) in enumerate(zip(pairs, model)):
            if module != "v17" and not ck.thorough and (pi + mi) % 4:
                continue
            real = IF.real_scan_state(a, b, module)
            ck.count(("scanstate", module, json.dumps([a, b])))
            oc = "ok" if "ty" in real else real.get("err", "?")
            outcomes[oc] = outcomes.get(oc, 0) + 1
            if m != real:
                mism += 1
                if mism <= 5:
                    ck.broken("correspondence", f"scanStateTy model-vs-op.scan ({module})",
                              f"S0={json.dumps(a)} R={json.dumps(b)} model={json.dumps(m)} real={json.dumps(real)}")
    # two / three states at once: every slot gets ITS OWN merged type (slot mix-ups)
    by_pair = {json.dumps([a, b]): m for (a, b), m in zip(pairs, model)}
    multi_n = 0
    for i in range(ck.pick(40, 400)):
        n = ck.rng.randrange(2, 4)
        sel = [ck.rng.choice(pairs) for _ in range(n)]
        ms = [by_pair[json.dumps([a, b])] for a, b in sel]
        want = {"err": "InferenceError"} if any("err" in m for m in ms) else {"tys": [m["ty"] for m in ms]}
        module = P.OPSET_MODULES[i % len(P.OPSET_MODULES)]
        real = IF.real_scan_states([a for a, _ in sel], [b for _, b in sel], module)
        multi_n += 1
        ck.count(("scanstates", module, json.dumps(sel)))
        if want != real:
            mism += 1
            if mism <= 5:
                ck.broken("correspondence", f"scanStateTys model-vs-op.scan ({module}, {n} states)",
                          f"pairs={json.dumps(sel)} model={json.dumps(want)} real={json.dumps(real)}")
    runs = [{"k": "scanguard", "body": kind, "state": {"e": "f32", "s": sh}, "n": n}
            for kind in ("keep", "double", "head", "flatten") for sh in ([3], [1], [2, 3], [1, 4], [0]) for n in (1, 2, 3)]
    rmism, accepted, refused = 0, 0, 0
    for rq, m in zip(runs, drv.ask_many("C06", runs)):
        try:
            real = IF.raw_scan_state_run(rq["body"], rq["state"]["s"], rq["n"])
            accepted += 1
        except Exception:  # noqa: BLE001
            real = None
            refused += 1
        ck.count(("scanguard", json.dumps(rq)))
        mo = m.get("run")
        got = None if mo is None else mo["final"] + mo["outs"]
        if got != real:
            rmism += 1
            if rmism <= 3:
                ck.broken("correspondence", "guardBody (Scan loop-state rule) model-vs-onnxruntime (raw Scan node)",
                          f"req={json.dumps(rq)} model={json.dumps(m)} runtime={json.dumps(real)}")
    ck.cov["scanstate_correspondence"] = {"type_pairs": len(pairs), "multi_state_cases": multi_n, "modules": list(P.OPSET_MODULES), "type_mismatches": mism,
                                          "real_outcomes": outcomes, "raw_runs": len(runs), "runtime_accepted": accepted,
                                          "runtime_refused": refused, "raw_mismatches": rmism}


def corr_nontensor(ck: core.Check, drv) -> None:
    """Sequence / Optional typed inputs (outside `Ty`): each routine raises (class compared) or hands
    the type through; a passed-through non-tensor type is then tried under onnxruntime — the property
    only speaks about it if some runtime value exists."""
    from spox import Optional as SOptional
    from spox import Sequence as SSequence
    from spox import Tensor, argument

    mism = cases = loaded = 0
    for name in L.MODELLED:
        op = L.OPS[name]
        want = drv.ask("C06", {"k": "nontensor", "op": name}).get("outcome")
        for mk in (SSequence, SOptional):
            for pos in range(len(op.inputs)):
                cases += 1
                ck.count(("nontensor", name, mk.__name__, pos))
                with warnings.catch_warnings():
                    warnings.simplefilter("ignore")
                    vs = [argument(Tensor(L.ELEM[op.in_elems[i][0]], (2, 2)[: min(2, op.max_rank[i])])) for i in range(len(op.inputs))]
                    vs[pos] = argument(mk(Tensor(np.float32, (2,))))
                    try:
                        out = op.ctor()(*vs, **op.kwargs(op.attr_classes()[0]))
                        outs = list(out) if isinstance(out, (tuple, list)) else [out]
                        got = "passThrough" if all(o.type == vs[pos].type for o in outs) else "other:" + ",".join(str(o.type) for o in outs)
                    except Exception as e:  # noqa: BLE001
                        got, outs = type(e).__name__, []
                if got != want:
                    mism += 1
                    ck.broken("correspondence", f"nonTensorOutcome {name} model-vs-constructor", f"{mk.__name__} at input {pos}: model={want} real={got}")
                if outs:  # can any runtime produce a value for the claimed type?
                    try:
                        import spox

                        names = {f"i{k}": v for k, v in enumerate(vs)}
                        with warnings.catch_warnings():
                            warnings.simplefilter("ignore")
                            m = spox.build(names, {f"o{k}": o for k, o in enumerate(outs)})
                        P._session(m.SerializeToString())
                        loaded += 1
                        ck.failure(f"{name}:non-tensor-input:accepted-by-runtime:unexplained",
                                   f"{name} on a {mk.__name__} input: reported {outs[0].type} and onnxruntime loads the model",
                                   {"kind": "nontensor", "op": name, "type": mk.__name__, "pos": pos})
                    except Exception:  # noqa: BLE001
                        pass
    ck.cov["nontensor_correspondence"] = {"cases": cases, "mismatches": mism, "models_accepted_by_runtime": loaded}


def _compress_k(feeds, axis) -> int:
    x, c = feeds
    c = np.asarray(c).reshape(-1)
    dim = x.size if axis is None else x.shape[axis]
    return int(np.count_nonzero(c[:dim]))


def corr_rt(ck: core.Check, drv) -> None:
    rng = ck.rng
    cases = []
    for name in L.MODELLED:
        op = L.OPS[name]
        dims = [0, 1, 2, 3]
        shape_sets = []
        for i, mr in enumerate(op.max_rank):
            ss = [list(p) for r in range(mr + 1) for p in itertools.product(dims, repeat=r)]
            if i > 0:
                ss = [s for s in ss if len(s) <= 1] + [[1, 2], [2, 1], [2, 3], [2, 1, 3]][: max(0, mr - 1) * 2]
            elif not ck.thorough and len(op.inputs) > 1:
                ss = [s for s in ss if len(s) <= 2] + rng.sample([s for s in ss if len(s) == 3], 16)
            shape_sets.append(ss)
        for a in op.attr_classes():
            for elems in itertools.product(*op.in_elems):
                for shapes in itertools.product(*shape_sets):
                    cases.append({"op": name, "attrs": a, "vals": [{"e": e, "s": s} for e, s in zip(elems, shapes)]})
    reqs, observed = [], []
    ok_runs = 0
    for c in cases:
        op = L.OPS[c["op"]]
        extra: dict[str, Any] = {}
        if c["op"] == "Compress":
            # the number of selected entries is a function of the fed values: compute it from the feed
            kw = op.kwargs(c["attrs"], [v["s"] for v in c["vals"]])
            sess = L.raw_session(op, kw, [v["e"] for v in c["vals"]], [len(v["s"]) for v in c["vals"]])
            feeds = op.feed(rng, c["vals"])
            res = None
            if not isinstance(sess, tuple):
                try:
                    res = [L.val_of(r) for r in sess.run(None, dict(zip(op.inputs, feeds)))]
                except Exception:  # noqa: BLE001
                    res = None
            if res is not None:
                try:
                    extra["kk"] = _compress_k(feeds, c["attrs"].get("a"))
                except Exception:  # noqa: BLE001
                    extra["kk"] = 0
        else:
            res = L.raw_run(op, c["attrs"], c["vals"], rng)
        observed.append(res)
        ok_runs += int(res is not None)
        reqs.append(_req("rt", c, vals=c["vals"], **extra))
    model = drv.ask_many("C06", reqs)
    mism = 0
    for c, res, m in zip(cases, observed, model):
        ck.count(("rt", c["op"], json.dumps(c["attrs"], sort_keys=True), json.dumps(c["vals"])) if res is not None else None)
        if res is not None and m.get("rt") != res:
            mism += 1
            if mism <= 5:
                ck.broken(
                    "correspondence",
                    f"rt_{c['op']} runtime-spec-vs-onnxruntime",
                    f"case={json.dumps(c)} model={json.dumps(m)} onnxruntime={json.dumps(res)}",
                )
    ck.cov["rt_correspondence"] = {"cases": len(cases), "onnxruntime_accepted": ok_runs, "mismatches": mism}


def corr_conf(ck: core.Check, drv) -> None:
    """Lean `conforms`/`stripTy` vs. the oracle's own `conforms` / spox's `_strip_dim_symbol`."""
    from spox._standard import _strip_dim_symbol

    rng = ck.rng
    vals = [{"e": e, "s": list(s)} for e in ("f32", "i64") for r in range(3) for s in itertools.product([0, 1, 2], repeat=r)]
    tys = [None] + [{"e": e, "s": s} for e in ("f32", "i64") for s in L.shapes_upto(2, [0, 1, 2, "N", None])]
    pairs = [(v, t) for v in vals for t in tys]
    if not ck.thorough:
        pairs = rng.sample(pairs, 600)
    model = drv.ask_many("C06", [{"k": "conf", "val": v, "ty": t} for v, t in pairs])
    mism = 0
    for (v, t), m in zip(pairs, model):
        if m.get("conf") != (L.conforms(v, t) is None):
            mism += 1
            ck.broken("correspondence", "conforms model-vs-oracle", f"val={v} ty={t} model={m}")
    strip_cases = [{"e": "f32", "s": s} for s in L.shapes_upto(2, [1, "N", "unk__3", None])]
    for all_ in (True, False):
        ms = drv.ask_many("C06", [{"k": "strip", "ty": t, "all": all_} for t in strip_cases])
        pred = (lambda x: True) if all_ else (lambda x: x.startswith("unk__"))
        for t, m in zip(strip_cases, ms):
            real = L.ty_to_json(_strip_dim_symbol(L.ty_from_json(t), pred))
            if m.get("ty") != real:
                mism += 1
                ck.broken("correspondence", "stripTy model-vs-_strip_dim_symbol", f"ty={t} all={all_} model={m} real={real}")
    ck.cov["conforms_correspondence"] = {"cases": len(pairs) + 2 * len(strip_cases), "mismatches": mism}


# =============================================================================== oracle
def report(ck: core.Check, fails: list[dict], case: dict) -> None:
    for f in fails:
        ck.failure(f["key"], f["what"], dict(case, failure=f))


def oracle_single(ck: core.Check) -> dict:
    """Single-operator programs over symbolic input types, built by the real constructors."""
    rng = ck.rng
    stats = {"programs": 0, "constructor_rejected": 0, "runs": 0, "runs_refused_by_runtime": 0, "vars_checked": 0}
    for name, op in L.OPS.items():
        shape_sets = []
        for i, mr in enumerate(op.max_rank):
            if i == 0:
                full = [s for s in L.shapes_upto(mr, [1, 2, 3, "N", None]) if s is not None]
                lo = [s for s in full if len(s) <= 1]
                hi = [s for s in full if len(s) > 1]
                always = [s for s in ([2, 3, 2], ["N", 3, 2], [2, None, 3], [3, 2], ["N", 2]) if len(s) <= mr]
                picked = rng.sample(hi, min(ck.pick(10, 60), len(hi)))
                shape_sets.append(lo + always + [s for s in picked if s not in always])
            else:
                # every rank 0-3 whatever the routine accepts today: the oracle runs on what the REAL
                # constructor accepts, so a relaxed check is exercised in its formerly rejected region
                shape_sets.append([[], [2], ["K"], [None], [1, 2], [2, 3], ["K", 2], [2, 1, 3]])
        for a in op.attr_classes():
            for elems in itertools.product(*op.in_elems):
                for shapes in itertools.product(*shape_sets):
                    tys = [{"e": e, "s": s} for e, s in zip(elems, shapes)]
                    case = {"kind": "single", "op": name, "attrs": a, "in": tys}
                    st = P.run_single(case, rng, SIZES, max_inst=ck.pick(3, 8))
                    stats["programs"] += 1
                    if st["rejected"]:
                        stats["constructor_rejected"] += 1
                        continue
                    stats["runs"] += st["runs"]
                    stats["runs_refused_by_runtime"] += st["refused"]
                    stats["vars_checked"] += st["checked"]
                    ck.count(("single", name, json.dumps(a, sort_keys=True), json.dumps(tys)) if st["checked"] else None)
                    report(ck, st["fails"], case)
                # the same operator on a rank-unknown first input (shape erased by a runtime Reshape)
                for s0 in ([["N"], ["N", 2], [2, 3], ["N", 2, 2]] if op.max_rank[0] >= 3 else [["N"], ["N", 2]]):
                    shapes = [s0] + [ss[min(1, len(ss) - 1)] for ss in shape_sets[1:]]
                    tys = [{"e": e, "s": s} for e, s in zip(elems, shapes)]
                    case = {"kind": "single", "op": name, "attrs": a, "in": tys, "erase": True}
                    st = P.run_single(case, rng, SIZES, max_inst=ck.pick(3, 8))
                    stats["programs"] += 1
                    if st["rejected"]:
                        stats["constructor_rejected"] += 1
                        continue
                    stats["unknown_rank_programs"] = stats.get("unknown_rank_programs", 0) + 1
                    stats["runs"] += st["runs"]
                    stats["runs_refused_by_runtime"] += st["refused"]
                    stats["vars_checked"] += st["checked"]
                    ck.count(("single-erased", name, json.dumps(a, sort_keys=True), json.dumps(tys)) if st["checked"] else None)
                    report(ck, st["fails"], case)
    return stats


def corr_inlinearg(ck: core.Check, drv) -> None:
    """`inlineArgAccepted` (model) vs. the real `inline(m)(a)`: does the call raise TypeError for an
    argument of type `arg` against a declared input type `decl`? (public API only)"""
    import spox.opset.ai.onnx.v17 as op
    from spox import argument, build, inline

    tys = [{"e": e, "s": s} for e in ("f32", "i64") for s in ([], [3], [5], [0], ["N"], [None], [2, 3], ["N", 3], [2, None], [None, None])]
    tys += [{"e": "f32", "s": None}]
    pairs = [(a, d) for a in tys for d in tys if d["s"] is not None]
    model = drv.ask_many("C06", [{"k": "inlinearg", "arg": a,
                                  "decl": {"e": d["e"], "s": [x if isinstance(x, int) else None for x in d["s"]]}} for a, d in pairs])
    mism = 0
    models: dict = {}
    for (a, d), mo in zip(pairs, model):
        key = json.dumps(d)
        with warnings.catch_warnings():
            warnings.simplefilter("ignore")
            if key not in models:
                p_ = argument(L.ty_from_json(d))
                models[key] = build({"x": p_}, {"y": op.identity(p_)})
            try:
                v = L.mk_var(a)
                for form in (lambda f: f(v), lambda f: f(x=v)):
                    form(inline(models[key]))
                real = True
            except TypeError:
                real = False
        ck.count(("inlinearg", json.dumps(a), key))
        if mo.get("accepted") != real:
            mism += 1
            if mism <= 3:
                ck.broken("correspondence", "inlineArgAccepted model-vs-inline", f"arg={a} decl={d} model={mo} real accepted={real}")
    ck.cov["inlinearg_correspondence"] = {"cases": len(pairs), "mismatches": mism}


def oracle_defaults(ck: core.Check) -> dict:
    """Arguments with a default value (overridable initializer) feeding value-dependent shape
    inference (Reshape, Range, Expand, Tile, ConstantOfShape, OneHot depth); run once with the default
    and once with a binding that overrides it."""
    stats = {"programs": 0, "rejected": 0, "runs": 0, "runs_refused_by_runtime": 0, "vars_checked": 0, "errors": []}
    for dc in P.DEFAULT_CASES:
        case = dict(dc, kind="default-arg")
        st = P.run_default_case(case, ck.rng, SIZES, max_inst=1)
        stats["programs"] += 1
        if st.get("rejected"):
            stats["rejected"] += 1
            stats["errors"].append(st.get("error", "")[:120])
            continue
        stats["runs"] += st["runs"]
        stats["runs_refused_by_runtime"] += st["refused"]
        stats["vars_checked"] += st["checked"]
        ck.count(("default-arg", json.dumps(dc)) if st["checked"] else None)
        report(ck, st["fails"], case)
    if stats["vars_checked"] == 0:
        ck.broken("correspondence", "defaulted arguments not observable", str(stats["errors"][:2]))
    return stats


def oracle_loop_families(ck: core.Check) -> dict:
    """The Loop families (zero / one / many trips; identity, doubling, narrowing, feedback, fixed-shape
    bodies; rank-unknown initial value narrowed by the body) built with EVERY opset module."""
    stats = {"programs": 0, "rejected": 0, "runs": 0, "runs_refused_by_runtime": 0, "vars_checked": 0, "per_module": {}}
    for mod in P.OPSET_MODULES:
        for lc in P.LOOP_FAMILY:
            case = dict(lc, module=mod, kind="loop-family")
            st = P.run_loop_family(case, ck.rng, SIZES, max_inst=ck.pick(2, 4))
            stats["programs"] += 1
            if st.get("rejected"):
                stats["rejected"] += 1
                continue
            stats["runs"] += st["runs"]
            stats["runs_refused_by_runtime"] += st["refused"]
            stats["vars_checked"] += st["checked"]
            stats["per_module"][mod] = stats["per_module"].get(mod, 0) + st["checked"]
            ck.count(("loop-family", json.dumps(case)) if st["checked"] else None)
            report(ck, st["fails"], case)
    for mod in P.OPSET_MODULES:
        if not stats["per_module"].get(mod):
            ck.broken("correspondence", f"Loop programs of opset module {mod} not observable", "")
    return stats


def oracle_if_families(ck: core.Check) -> dict:
    """Round 10. One `If` whose branches compute results of different types (then [A(x), B(x)], else
    [B(x), A(x)]) for every unordered pair of nine branch kinds, four input shapes, every opset module;
    condition fed true and false."""
    stats = {"programs": 0, "rejected": 0, "runs": 0, "runs_refused_by_runtime": 0, "vars_checked": 0, "per_module": {}}
    for case in IF.if_family_cases(list(P.OPSET_MODULES), ck.thorough or bool(ESCALATE)):
        st = IF.run_if_family(case, ck.rng, SIZES, max_inst=ck.pick(2, 4))
        stats["programs"] += 1
        if st.get("rejected"):
            stats["rejected"] += 1
            continue
        stats["runs"] += st["runs"]
        stats["runs_refused_by_runtime"] += st["refused"]
        stats["vars_checked"] += st["checked"]
        stats["per_module"][case["module"]] = stats["per_module"].get(case["module"], 0) + st["checked"]
        ck.count(("if-family", json.dumps(case)) if st["checked"] else None)
        report(ck, st["fails"], case)
    for mod in P.OPSET_MODULES:
        if not stats["per_module"].get(mod):
            ck.broken("correspondence", f"If programs of opset module {mod} not observable", "")
    return stats


def oracle_inline_forms(ck: core.Check) -> dict:
    """`inline(m)(…)` called positionally / by keyword / mixed, with exact, compatible-but-weaker and
    incompatible argument types. Incompatible ones must be refused (TypeError) at the call; whenever
    a call returns, every result is run and judged."""
    stats = {"programs": 0, "refused_at_call": 0, "returned": 0, "returned_with_incompatible_argument": 0, "runs": 0, "vars_checked": 0}
    for ic in P.INLINE_CASES:
        case = dict(ic, kind="inline-form")
        st = P.run_inline_case(case, ck.rng, SIZES, max_inst=ck.pick(3, 6))
        stats["programs"] += 1
        if st.get("rejected"):
            stats["refused_at_call"] += 1
            continue
        stats["returned"] += 1
        stats["returned_with_incompatible_argument"] += int(not st.get("compatible", True))
        stats["runs"] += st["runs"]
        stats["vars_checked"] += st["checked"]
        ck.count(("inline-form", json.dumps(ic)) if st["checked"] else None)
        report(ck, st["fails"], case)
    return stats


def oracle_attr_functions(ck: core.Check) -> dict:
    """`Function` subclasses whose attribute is referenced by a type-relevant operator attribute,
    applied 2-3 times in a row with different attribute values."""
    stats = {"programs": 0, "rejected": 0, "runs": 0, "vars_checked": 0, "errors": []}
    for fc in P.ATTRFUN_CASES:
        case = dict(fc, kind="attr-function")
        st = P.run_attr_function(case, ck.rng, SIZES, max_inst=ck.pick(3, 6))
        stats["programs"] += 1
        if st.get("rejected"):
            stats["rejected"] += 1
            stats["errors"].append(st.get("error", "")[:120])
            continue
        stats["runs"] += st["runs"]
        stats["vars_checked"] += st["checked"]
        ck.count(("attr-function", json.dumps(fc)) if st["checked"] else None)
        report(ck, st["fails"], case)
    if stats["vars_checked"] == 0:
        ck.broken("correspondence", "attribute-carrying Function subclasses not observable", str(stats["errors"][:2]))
    return stats


def oracle_function_conflicts(ck: core.Check) -> dict:
    """Programs in which one function key gets two different bodies (rank / dtype dependent helper
    called at two types in both orders; two helpers under one name). Expected: spox refuses to build
    them. If a build returns, the reported types of every call are compared with the runtime."""
    stats = {"programs": 0, "refused_at_build": 0, "built": 0, "runs": 0, "vars_checked": 0, "build_errors": []}
    for cc in P.CONFLICT_CASES:
        case = dict(cc, kind="function-conflict")
        st = P.run_function_conflict(case, ck.rng, SIZES, max_inst=ck.pick(3, 6))
        stats["programs"] += 1
        if st.get("built"):
            stats["built"] += 1
        else:
            stats["refused_at_build"] += 1
            err = (st.get("load_error") or st.get("error") or "")[:90]
            if err not in stats["build_errors"]:
                stats["build_errors"].append(err)
        stats["runs"] += st["runs"]
        stats["vars_checked"] += st["checked"]
        ck.count(("function-conflict", json.dumps(cc)))
        report(ck, st["fails"], case)
    return stats


def _family(ck: core.Check, kind: str, cases: list, runner, max_inst: int) -> dict:
    stats = {"programs": 0, "rejected": 0, "runs": 0, "runs_refused_by_runtime": 0, "vars_checked": 0, "errors": []}
    for c in cases:
        case = dict(c, kind=kind)
        st = runner(case, ck.rng, SIZES, max_inst)
        stats["programs"] += 1
        if st.get("rejected"):
            stats["rejected"] += 1
            if len(stats["errors"]) < 4 and st.get("error", "")[:100] not in stats["errors"]:
                stats["errors"].append(st.get("error", "")[:100])
            continue
        stats["runs"] += st["runs"]
        stats["runs_refused_by_runtime"] += st["refused"]
        stats["vars_checked"] += st["checked"]
        ck.count((kind, json.dumps(c, sort_keys=True)) if st["checked"] else None)
        report(ck, st["fails"], case)
    return stats


def oracle_term_loops(ck: core.Check) -> dict:
    """Loop x {trip count constant / initializer / computed / fed / omitted} x {cond omitted / constant /
    computed / fed} x body termination {never, at a constant, at a fed iteration, immediately}, every
    opset module, also nested in Loop / If / function / inlined model: scan outputs and their consumers."""
    cases = V.term_loop_cases(P.OPSET_MODULES, ck.thorough, bool(ESCALATE))
    stats = _family(ck, "term-loop", cases, V.run_term_loop, 3)
    per_mod = {m: sum(1 for c in cases if c["module"] == m) for m in P.OPSET_MODULES}
    stats["per_module_programs"] = per_mod
    if stats["vars_checked"] == 0 or stats["rejected"] > stats["programs"] // 2:
        ck.broken("correspondence", "termination Loop programs not observable", f"{stats['rejected']}/{stats['programs']} rejected: {stats['errors'][:2]}")
    return stats


def oracle_unary_all(ck: core.Check) -> dict:
    """EVERY constructor of every opset module (5 ai.onnx + 3 ml) that can be applied to one Var, on an
    input with distinct constant dims (f32[1,2,3,3] first): whatever type is reported vs. the runtime."""
    cases = V.unary_cases(ck.thorough or bool(ESCALATE))
    stats = {"programs": 0, "rejected": 0, "runs": 0, "runs_refused_by_runtime": 0, "vars_checked": 0, "operators_applied": 0,
             "not_observable": [], "per_module_operators": {}}
    for c in cases:
        case = dict(c, kind="unary-all")
        st = V.run_unary_all(case, ck.rng, SIZES, 2)
        stats["programs"] += 1
        stats["per_module_operators"][c["module"]] = stats["per_module_operators"].get(c["module"], 0) + len(c["ops"])
        if st.get("rejected"):
            stats["rejected"] += 1
            stats["not_observable"] += [f"{c['module']}:{n}" for n in c["ops"]]
            continue
        if c.get("attrs"):
            stats["attribute_settings"] = stats.get("attribute_settings", 0) + st.get("applied", 0)
        stats["runs"] += st["runs"]
        stats["runs_refused_by_runtime"] += st["refused"]
        stats["vars_checked"] += st["checked"]
        stats["operators_applied"] += st.get("applied", 0)
        stats["not_observable"] += [f"{c['module']}:{n}" for n in st.get("unloadable", [])]
        for n in c["ops"]:
            ck.count(("unary-all", c["module"], json.dumps(n), c.get("symbolic", False)) if st["checked"] else None)
        report(ck, st["fails"], case)
    if stats["operators_applied"] < 300:
        ck.broken("correspondence", "single-input operators not observable", f"only {stats['operators_applied']} constructors could be applied")
    return stats


def oracle_scan_families(ck: core.Check) -> dict:
    cases = [dict(sc, module=m) for m in P.OPSET_MODULES for sc in V.SCAN_FAMILY]
    stats = _family(ck, "scan-family", cases, V.run_scan_family, ck.pick(3, 6))
    if stats["vars_checked"] == 0:
        ck.broken("correspondence", "Scan family programs not observable", str(stats["errors"][:2]))
    return stats


def oracle_vdep(ck: core.Check) -> dict:
    """Operators whose reported shape depends on an input's VALUE, fed from every kind of value source,
    under each value-propagation backend."""
    cases = V.vdep_cases(ck.thorough, bool(ESCALATE))
    stats = _family(ck, "vdep", cases, V.run_vdep, 1)
    if stats["vars_checked"] == 0 or stats["rejected"] > stats["programs"] // 3:
        ck.broken("correspondence", "value-dependent programs not observable", f"{stats['rejected']}/{stats['programs']} rejected: {stats['errors'][:2]}")
    return stats


def oracle_scan(ck: core.Check) -> dict:
    """Scan programs with states of rank 0-2 and scan inputs of rank 1-3 (distinct constant dims)."""
    stats = {"programs": 0, "constructor_rejected": 0, "runs": 0, "runs_refused_by_runtime": 0, "vars_checked": 0}
    for sc in P.SCAN_CASES:
        case = dict(sc, kind="scan")
        st = P.run_scan(case, ck.rng, SIZES, max_inst=ck.pick(3, 6))
        stats["programs"] += 1
        if st.get("rejected"):
            stats["constructor_rejected"] += 1
            stats.setdefault("rejections", []).append(st.get("error", ""))
        stats["runs"] += st["runs"]
        stats["runs_refused_by_runtime"] += st["refused"]
        stats["vars_checked"] += st["checked"]
        ck.count(("scan", json.dumps(sc)) if st["checked"] else None)
        report(ck, st["fails"], case)
    if stats["vars_checked"] == 0:
        ck.broken("correspondence", "Scan programs not observable",
                  f"none of the {stats['programs']} Scan programs could be built and run: {stats.get('rejections', [])[:2]}")
    return stats


def oracle_programs(ck: core.Check) -> dict:
    rng = ck.rng
    stats = {"programs": 0, "build_failed": 0, "runs": 0, "runs_refused_by_runtime": 0, "vars_checked": 0,
             "ops": {}, "with_loop": 0, "with_if": 0, "with_inline": 0, "with_function": 0, "with_function-two-types": 0, "with_scan": 0,
             "body_vars_exposed": 0, "runtime_disagreements": 0, "disagreement_samples": []}
    n = ck.pick(1040 if ESCALATE else 260, 8000)
    for i in range(n):
        seed = rng.randrange(1 << 30)
        case = {"kind": "program", "seed": seed, "size": rng.randrange(3, 9)}
        st = P.run_program(case, SIZES, max_inst=ck.pick(3, 6))
        stats["programs"] += 1
        if st.get("build_failed"):
            stats["build_failed"] += 1
            continue
        for k in ("runs", "vars_checked", "body_vars_exposed", "runtime_disagreements"):
            stats[k] += st.get(k, 0)
        if len(stats["disagreement_samples"]) < 3:
            stats["disagreement_samples"] += st.get("disagreement_samples", [])[:1]
        stats["runs_refused_by_runtime"] += st["refused"]
        for o, c in st["ops"].items():
            stats["ops"][o] = stats["ops"].get(o, 0) + c
        for k in ("loop", "if", "inline", "function", "function-two-types", "scan"):
            stats["with_" + k] += int(st["ops"].get(k, 0) > 0)
        ck.count(("program", seed) if st["vars_checked"] else None)
        if i < 2:
            ck.sample({"program": st.get("text", "")[:600]})
        report(ck, st["fails"], case)
    return stats


# =============================================================================== entry points
def _facet(ck: core.Check, name: str, fn, *a):
    """Run one facet; whatever goes wrong while *observing* spox (renamed internals, changed
    signatures, exceptions in the harness) is a broken correspondence, never a crash of the run."""
    try:
        return fn(*a)
    except Exception as e:  # noqa: BLE001
        ck.broken("correspondence", f"{name} not observable: {type(e).__name__}", f"{e} | {core.fmt_exc()[-700:]}")
        return None


def run(ck: core.Check):
    tab = None
    try:
        from translator import ml_overrides

        tab = ml_overrides.generate()
        ck.cov["override_table"] = [f"{r['module']}:{r['op']}#{r['hash']}" for r in tab["rows"]]
        ck.cov["value_override_table"] = [f"{r['module']}:{r['cls']}#{r['hash']}" for r in tab.get("value_rows", [])]
        ck.cov["glue_hashes"] = {f"{g['file']}:{g['name']}": g["hash"] for g in tab.get("glue", [])}
        ESCALATE[:] = glue_changes(tab)
        ck.cov["glue_changed_escalated"] = list(ESCALATE)
        if ESCALATE:
            ck.log("glue code differs from the baseline (" + ", ".join(ESCALATE)[:300] + "): escalated case counts")
    except Exception as e:  # noqa: BLE001
        ck.broken("translator", "ml_overrides not extractable", f"{type(e).__name__}: {e}")
    ck.lean(["SpoxModel.Props.C06"], audit="SpoxModel.Audit.C06")
    if ck.thorough:
        ck.leanchecker(["SpoxModel.Props.C06"])

    try:
        drv = ck.driver()
    except Exception as e:  # noqa: BLE001
        drv = None
        ck.broken("correspondence", "C06 driver", str(e)[:300])
    if drv is not None:
        _facet(ck, "infer correspondence", corr_infer, ck, drv)
        ck.log("infer correspondence done")
        _facet(ck, "Loop correspondence", corr_loop, ck, drv, tab["rows"] if tab else None)
        _facet(ck, "If correspondence", corr_if, ck, drv)
        _facet(ck, "runtime-spec correspondence", corr_rt, ck, drv)
        _facet(ck, "loopRun correspondence", corr_looprun, ck, drv)
        _facet(ck, "scanRun correspondence", corr_scanrun, ck, drv)
        _facet(ck, "Scan state correspondence", corr_scanstate, ck, drv)
        ck.log("runtime-spec correspondence done")
        _facet(ck, "conforms/strip correspondence", corr_conf, ck, drv)
        _facet(ck, "non-tensor inputs correspondence", corr_nontensor, ck, drv)
        _facet(ck, "inline argument acceptance correspondence", corr_inlinearg, ck, drv)

    # the model-free oracle runs whatever happened above
    ck.cov["oracle_single"] = _facet(ck, "single-operator oracle", oracle_single, ck)
    ck.log("single-operator oracle done")
    ck.cov["oracle_scan"] = _facet(ck, "Scan oracle", oracle_scan, ck)
    ck.cov["oracle_defaults"] = _facet(ck, "defaulted-argument oracle", oracle_defaults, ck)
    ck.cov["oracle_loop_families"] = _facet(ck, "Loop families oracle", oracle_loop_families, ck)
    ck.cov["oracle_if_families"] = _facet(ck, "If families oracle", oracle_if_families, ck)
    ck.cov["oracle_inline_forms"] = _facet(ck, "inline call-form oracle", oracle_inline_forms, ck)
    ck.cov["oracle_attr_functions"] = _facet(ck, "attribute-function oracle", oracle_attr_functions, ck)
    ck.cov["oracle_function_conflicts"] = _facet(ck, "function-conflict oracle", oracle_function_conflicts, ck)
    ck.cov["oracle_term_loops"] = _facet(ck, "termination-Loop oracle", oracle_term_loops, ck)
    ck.log("termination-Loop oracle done")
    ck.cov["oracle_scan_families"] = _facet(ck, "Scan-family oracle", oracle_scan_families, ck)
    ck.cov["oracle_unary_all"] = _facet(ck, "all single-input operators oracle", oracle_unary_all, ck)
    ck.cov["oracle_vdep"] = _facet(ck, "value-dependent inference oracle", oracle_vdep, ck)
    ck.log("value-dependent oracle done")
    ck.cov["oracle_programs"] = _facet(ck, "program oracle", oracle_programs, ck)
    ck.log("program oracle done")
    _facet(ck, "witness replay", P.replay_known, ck)
    if P.FALLBACK:
        ck.broken("correspondence", "exposure of rank-unknown Vars not observable",
                  "Graph.to_onnx_model(concrete=False)/results/_temporary_renames not usable (" + P.FALLBACK[0]
                  + "); fell back to the public spox.build, rank-unknown Vars were not compared")

    ck.exhaustive = False
    ck.rule = (
        "correspondence: per operator, attribute classes x element types x all shapes of rank<=2 over {0,1,2,3,'N',None} "
        "+ unknown rank + untyped (+ rank 3: 30 sampled in quick, all in thorough); runtime spec: all concrete shapes with dims<=3; "
        "oracle: single-operator programs over symbolic shapes + seeded generated programs (3-8 nodes, Loop/If/inline/function), "
        "unknown dims instantiated with 0,1,2,5; non-trivial = at least one Var compared with a successful onnxruntime run; "
        "distinct by (operator, attributes, input types) or program seed"
    )
    ck.assumptions += [
        "onnxruntime 1.30 CPU is the runtime the property speaks about; the ONNX reference evaluator is consulted only to classify a non-conforming value of a plain standard operator as a disagreement between the two runtimes",
        "Model/RtShape.lean (runtime shapes from the ONNX-ML spec) — validated against onnxruntime on every run for dims<=3; beyond that by its uniformity in the dims",
        "ONNX's own Loop inference gives carried outputs element type only and scan outputs one leading unknown dim (observed by the Loop correspondence)",
        "element types of a statically typed ONNX graph never change at run time (hypothesis `hElem` of loop_carried_sound)",
    ]
    ck.trusted_base += [
        "harness/lib_mlops.py attribute concretisation; harness/lib_c06prog.py program generator and exposure of Vars (declared output types are removed from the ModelProto so onnxruntime reports what it computes)",
    ]


def replay(ck: core.Check, doc) -> bool:
    case = doc["case"]
    rng = random.Random(doc.get("seed", 0))
    extra = []
    if isinstance(case.get("failure"), dict) and case["failure"].get("feed"):
        extra = [P.feed_from_json(case["failure"]["feed"])]  # the recorded input first
    if case.get("kind") == "single":
        st = P.run_single(case, rng, SIZES, max_inst=8, extra_feeds=extra)
    elif case.get("kind") == "program":
        st = P.run_program(case, SIZES, max_inst=6, extra_feeds=extra)
    elif case.get("kind") == "default-arg":
        st = P.run_default_case(case, rng, SIZES, max_inst=1, extra_feeds=extra)
    elif case.get("kind") == "loop-family":
        st = P.run_loop_family(case, rng, SIZES, max_inst=4, extra_feeds=extra)
    elif case.get("kind") == "if-family":
        st = IF.run_if_family(case, rng, SIZES, max_inst=4, extra_feeds=extra)
    elif case.get("kind") == "inline-form":
        st = P.run_inline_case(case, rng, SIZES, max_inst=6, extra_feeds=extra)
    elif case.get("kind") == "attr-function":
        st = P.run_attr_function(case, rng, SIZES, max_inst=6, extra_feeds=extra)
    elif case.get("kind") == "function-conflict":
        st = P.run_function_conflict(case, rng, SIZES, max_inst=6, extra_feeds=extra)
    elif case.get("kind") == "scan":
        st = P.run_scan(case, rng, SIZES, max_inst=6, extra_feeds=extra)
    elif case.get("kind") == "term-loop":
        st = V.run_term_loop(case, rng, SIZES, 3, extra_feeds=extra)
    elif case.get("kind") == "scan-family":
        st = V.run_scan_family(case, rng, SIZES, 6, extra_feeds=extra)
    elif case.get("kind") == "vdep":
        st = V.run_vdep(case, rng, SIZES, 1, extra_feeds=extra)
    elif case.get("kind") == "unary-all":
        st = V.run_unary_all(case, rng, SIZES, 2, extra_feeds=extra)
    elif case.get("kind") == "witness":
        st = P.run_witness(case)
    elif case.get("kind") == "nontensor":
        ck2 = core.Check("C06", "quick", 0)
        corr_nontensor(ck2, ck2.driver())
        st = {"fails": [{"key": f["key"], "what": f["what"]} for f in ck2.failures]}
    else:
        raise ValueError(f"unknown replay kind {case.get('kind')}")
    want = doc.get("key")
    hit = [f for f in st["fails"] if want is None or f["key"] == want]
    for f in st["fails"]:
        print(f"{f['key']}: {f['what']}")
    return bool(hit)
