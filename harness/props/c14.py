"""C14 — functions mean their body, are defined once; inconsistent bodies are rejected.

proof  : Props/C14.lean (defined_once, definition_is_own_body, inconsistent_rejected,
         consistent_accepted, imports_cover_body/model/attained, function_sem, function_sem_rejects)
tie H  : (a) collection: the structure of the real build (emission order of every graph, function
             bodies recursively, FunctionProto bytes as fingerprint) -> Model/Func.lean predicts
             model.functions (keys, order, which proto) or the RuntimeError, exactly;
         (b) opset imports of every real FunctionProto vs Func.funcImports;
         (c) Model/FuncSem.lean: direct vs ONNX reading vs the real model run by onnxruntime.
oracle : build + onnxruntime (onnx.reference where ORT refuses a model the full checker accepts) vs
         numpy evaluation with functions expanded; definitions per used key counted in the proto; opset
         imports of each function cover its body; distinguishable bodies under one key must raise.
"""
from __future__ import annotations

import json
import multiprocessing as mp
import random
import warnings

import numpy as np

from harness import core
from harness import lib_c02c14 as L
from harness import lib_c14cf as CF
from harness import lib_c14hist as FH
from harness import lib_isolate as ISO

FEAT = {"inline": False, "init": True, "unused": True, "func": True, "func_in_body": True, "nested_func": True,
        "vary": True, "collide": True, "rmax": True, "mixed": True, "generic": True, "func_if": True, "ml": True}


# ------------------------------------------------------------------ (a) structure of the real build
def extract_fgraph(spec, io=None):
    """-> (FGraph json, real outcome, imports records).

    real outcome: ('ok', [[domain, name, fp], ...]) | ('err', 'runtime') | ('skip', why)
    `io` = (inputs, outputs) of already existing Vars (a later model of a history) instead of realising `spec`."""
    from spox import _build, _graph
    from spox._function import Function
    from spox._internal_op import Argument
    from spox._public import _temporary_renames

    try:
        inputs, outputs = io if io is not None else (
            CF.realise(spec) if spec.get("kind") == "cf" else L.realise(spec))
    except Exception as e:  # noqa: BLE001 - the program itself is rejected at construction time
        return None, ("skip", f"realise: {type(e).__name__}"), []
    fps: dict[bytes, int] = {}

    def fp_of(b: bytes) -> int:
        return fps.setdefault(b, len(fps))

    with _temporary_renames(**inputs):
        graph = _graph.results(**outputs)
        if not spec.get("drop"):
            graph = graph.with_arguments(*inputs.values())
        if io is None and len(json.dumps(spec, sort_keys=True)) % 5 == 0:
            # round 10: a fifth of the programs carry an extra requirement on the Graph itself (`with_opset`, the
            # default domain under its other spelling, same version) - the `extra` of imports_agree_with_model_program
            # at the version the model has anyway, so that no node is adapted differently (no new code paths of
            # the version converter are entered; the built model is the same)
            try:
                cur = graph.get_opsets().get("")
                if cur is not None:
                    graph = graph.with_opset(("ai.onnx", cur))
            except Exception:  # noqa: BLE001 - the ordinary path below reports what cannot be observed / built
                pass
        try:
            opsets = graph.get_opsets()
        except (AttributeError, TypeError, NameError, ImportError) as e:
            return None, ("unobservable", f"build_main: {type(e).__name__}: {e}"), []
        except Exception as e:  # noqa: BLE001
            return None, ("skip", f"build_main: {type(e).__name__}"), []
        opset_req = list(opsets.items())
        imports = []

        def req_graph(g):
            """per node its own `opset_req` and its body graphs (for Func.reqG), from a real Builder run"""
            b = _build.Builder(g)
            b.build_main()

            def one(gg):
                seq = [a._op for a in b.arguments_of[gg]] + [n for n in b.scope_own[gg] if not isinstance(n, Argument)]
                return {"nodes": [{"req": sorted([d, v] for d, v in n.opset_req),
                                   "subs": [one(s_) for s_ in n.subgraphs]} for n in seq]}

            return one(b.main)

        pbodies = []  # round 10: every reachable Function node, in `Func.bodiesG` order

        def own_req(n):
            from spox import _node
            return sorted([d, v] for d, v in _node.Node.opset_req.fget(n))

        def graph_json(g):
            """-> (FGraph json, PGraph json) of the real build of `g`"""
            b = _build.Builder(g)
            b.build_main()  # the real stages; only arguments_of / scope_own are read afterwards

            def one(gg):
                nodes, pnodes = [], []
                seq = [a._op for a in b.arguments_of[gg]] + [n for n in b.scope_own[gg] if not isinstance(n, Argument)]
                for n in seq:
                    subs = list(n.subgraphs)
                    if isinstance(n, Function):
                        proto = n.to_onnx_function(extra_opset_req=opset_req)
                        try:
                            rg = req_graph(n.func_graph)
                        except Exception as e:  # noqa: BLE001
                            rg = {"unobservable": f"{type(e).__name__}: {e}"}
                        body_req = sorted([d, v] for d, v in n.func_graph._get_build_result().opset_req)
                        real_imp = sorted([o.domain, o.version] for o in proto.opset_import)
                        imports.append({
                            "rgraph": rg,
                            "key": [proto.domain, proto.name],
                            "body": body_req,
                            "model": sorted([d, v] for d, v in graph._get_opset_req()),
                            "real": real_imp,
                        })
                        fp = fp_of(proto.SerializeToString(deterministic=True))
                        try:
                            own = own_req(n)
                            node_req = sorted([d, v] for d, v in n.opset_req)
                        except Exception as e:  # noqa: BLE001
                            own, node_req = None, f"{type(e).__name__}: {e}"
                        pbodies.append({"key": [n.op_type.domain, n.op_type.identifier], "fp": fp, "req": body_req,
                                        "real": real_imp, "node_req": node_req})
                        fb, pb = graph_json(n.func_graph)
                        nodes.append({"call": {"domain": n.op_type.domain, "name": n.op_type.identifier,
                                               "fp": fp, "body": fb}})
                        pnodes.append({"call": {"own": own, "domain": n.op_type.domain,
                                                "name": n.op_type.identifier, "fp": fp, "body": pb}})
                    elif subs:
                        pairs_ = [one(s) for s in subs]
                        nodes.append({"ctrl": [f_ for f_, _ in pairs_]})
                        pnodes.append({"ctrl": {"req": sorted([d, v] for d, v in n.opset_req),
                                                "subs": [p_ for _, p_ in pairs_]}})
                    else:
                        nodes.append("op")
                        pnodes.append({"op": sorted([d, v] for d, v in n.opset_req)})
                return {"nodes": nodes}, {"nodes": pnodes}

            return one(b.main)

        try:
            fg, pg = graph_json(graph)
        except (AttributeError, TypeError, NameError, ImportError, KeyError) as e:
            return None, ("unobservable", f"extract: {type(e).__name__}: {e}"), []
        except Exception as e:  # noqa: BLE001
            return None, ("skip", f"extract: {type(e).__name__}: {e}"), []
        try:
            m = graph.to_onnx_model()
            real = ("ok", [[f.domain, f.name, fp_of(f.SerializeToString(deterministic=True))] for f in m.functions])
        except RuntimeError as e:
            real = ("err", "runtime") if "two different definitions" in str(e) else ("skip", f"RuntimeError: {e}")
        except Exception as e:  # noqa: BLE001
            real = ("skip", f"{type(e).__name__}")
    try:  # round 10: the whole program as one requirement tree (Func.PGraph) + what the real build collected
        imports.append({"pgraph": pg, "extra": sorted([d, v] for d, v in (graph._extra_opset_req or ())),
                        "real_req": sorted([d, v] for d, v in graph._get_build_result().opset_req),
                        "real_model": sorted([d, v] for d, v in opsets.items()), "bodies": pbodies})
    except Exception as e:  # noqa: BLE001
        imports.append({"pgraph": None, "unobservable": f"{type(e).__name__}: {e}"})
    return fg, real, imports


# ------------------------------------------------------------------ (c) semantic programs (integers)
SEM_OPS = [("add", 0, 2), ("sub", 1, 2), ("mul", 2, 2), ("neg", 3, 1), ("abs", 4, 1)]


def gen_sem(rng):
    """A straight-line program with nested single-output functions.
    -> (model request nodes, spec for the real build)"""
    funcs_m, funcs_s = [], []

    def gen_nodes(nenv, n, depth):
        nodes_m, stmts = [], []
        for _ in range(n):
            if depth < 3 and rng.random() < 0.4:
                done = [i for i in fdepth if fdepth[i] + depth < 3]
                if done and rng.random() < 0.5:
                    fi = rng.choice(done)
                else:
                    fi = new_func(depth + 1)
                nin = funcs_s[fi]["nin"]
                ins = [rng.randrange(nenv) for _ in range(nin)]
                ins[rng.randrange(nin)] = nenv - 1  # every node is live: it feeds the next one
                nodes_m.append(["call", funcs_m[fi], ins])
                stmts.append(["call", fi, ins])
                nenv += funcs_s[fi]["nout"] - 1  # a call yields one value per function output
            else:
                name, lab, ar = rng.choice(SEM_OPS)
                ins = [rng.randrange(nenv) for _ in range(ar)]
                ins[rng.randrange(ar)] = nenv - 1
                nodes_m.append(["op", lab, ins])
                stmts.append(["op", name, 17, ins])
            nenv += 1
        return nodes_m, stmts, nenv

    fdepth = {}

    def new_func(depth):
        nin = rng.choice([1, 2])
        idx = len(funcs_m)
        funcs_m.append(None)
        funcs_s.append({"nin": nin, "nout": 1})
        nm, st, nenv = gen_nodes(nin, rng.randrange(1, 4), depth)
        # one or two outputs; the last one is the last node of the body (so the whole body is live)
        outs = [nenv - 1] if rng.random() < 0.6 else [rng.randrange(nenv), nenv - 1]
        key = idx if rng.random() < 0.85 or idx == 0 else rng.randrange(idx)  # sometimes a colliding key
        funcs_m[idx] = {"key": key, "body": nm, "outs": outs}
        funcs_s[idx] = {"name": f"g{key}", "domain": "sem", "nin": nin, "nout": len(outs),
                        "body": {"stmts": st, "outs": outs}}
        fdepth[idx] = 1 + max([fdepth[s[1]] for s in st if s[0] == "call"] or [0])
        return idx

    nargs = rng.choice([1, 2])
    nm, st, nenv = gen_nodes(nargs, rng.randrange(2, 6), 0)
    spec = {"args": ["f"] * nargs, "inputs": [[f"x{i}", i] for i in range(nargs)], "stmts": st,
            "outputs": [["y", nenv - 1]], "drop": False, "funcs": funcs_s, "models": []}
    return nm, spec


# ------------------------------------------------------------------ worker
def imports_cover(m):
    """Model-free: every function's opset imports cover the operators of its body and agree with the
    model's imports."""
    import onnx

    bad = []
    model_imp = {("" if o.domain == "ai.onnx" else o.domain): o.version for o in m.opset_import}

    def nodes_of(nodes):
        for nd in nodes:
            yield nd
            for a in nd.attribute:
                if a.type == onnx.AttributeProto.GRAPH:
                    yield from nodes_of(a.g.node)
                elif a.type == onnx.AttributeProto.GRAPHS:
                    for g in a.graphs:
                        yield from nodes_of(g.node)

    fkeys = {(f.domain, f.name) for f in m.functions}
    for f in m.functions:
        imp = {("" if o.domain == "ai.onnx" else o.domain): o.version for o in f.opset_import}
        for nd in nodes_of(f.node):
            d = "" if nd.domain == "ai.onnx" else nd.domain
            if d not in imp:
                bad.append(f"{f.domain}:{f.name}: no import for domain {d!r} of {nd.op_type}")
                continue
            if (nd.domain, nd.op_type) in fkeys:
                continue
            try:
                onnx.defs.get_schema(nd.op_type, imp[d], d)
            except Exception:  # noqa: BLE001
                bad.append(f"{f.domain}:{f.name}: {nd.op_type} has no schema at imported version {imp[d]}")
        for d, v in imp.items():
            if d in model_imp and model_imp[d] != v:
                bad.append(f"{f.domain}:{f.name}: imports {d!r}:{v} but the model imports {model_imp[d]}")
    return bad


def definitions_per_key(m):
    used = set(L.used_function_keys(m))
    counts = {}
    for f in m.functions:
        counts[(f.domain, f.name)] = counts.get((f.domain, f.name), 0) + 1
    bad = []
    for k in sorted(used):
        if counts.get(k, 0) != 1:
            bad.append(f"{k[0]}:{k[1]} used but defined {counts.get(k, 0)} times")
    for k, c in counts.items():
        if c != 1 and k not in used:
            bad.append(f"{k[0]}:{k[1]} defined {c} times")
    return bad


def run_model(m, feeds):
    """-> (outputs dict, runtime name). ORT first; onnx.reference when ORT refuses to load a model the
    full checker accepts (recorded as runtime-unsupported)."""
    from harness import lib_isolate as ISO

    # (every native call runs in a forked child: a C++ crash is the result "aborted: ...", never a dead check)
    try:
        return L.run_ort(m, feeds), "ort"
    except ISO.Aborted as e:
        return None, f"aborted: onnxruntime {e}"
    except Exception as e:  # noqa: BLE001
        ort_err = str(e)[:200]
    try:
        L.check_full(m)
    except ISO.Aborted as e:
        return None, f"aborted: onnx.checker {e} (ort={ort_err})"
    except Exception as e:  # noqa: BLE001
        return None, f"invalid: ort={ort_err} checker={str(e)[:200]}"
    try:
        return L.run_reference(m, feeds), "reference"
    except Exception as e:  # noqa: BLE001
        return None, f"unsupported: ort={ort_err} reference={str(e)[:200]}"


def _differs(got, want):
    for name, w in want.items():
        g = np.asarray(got[name])
        if g.shape != np.asarray(w).shape or not np.allclose(g, w, rtol=1e-5, atol=1e-6):
            return name
    return None


def compare_runtime(spec, m, feeds, out):
    """The built model in a runtime vs the body evaluated directly (numpy, functions expanded).

    onnxruntime 1.30 mis-evaluates some valid models in which one function is inlined both in a graph and
    in one of its nested bodies (internal names of the two copies shadow each other), and onnx.reference
    has bugs of its own (Loop bodies returning one value twice). So a disagreement between ORT and the
    body is only a failure of the property if the second runtime confirms ORT; if the reference agrees
    with the body it is an ORT bug (counted); if the three disagree pairwise nothing is concluded (counted).
    -> None | (key, what)"""
    want = L.np_eval(spec, feeds)
    got, rt = run_model(m, feeds)
    out["runtime"] = rt
    if got is None:
        if rt.startswith("aborted"):
            return ("runtime-aborted", f"build returned a model on which the runtime / checker kills the process: {rt}")
        if rt.startswith("invalid"):
            return ("model-not-runnable", rt)
        return None
    name = _differs(got, want)
    if name is None:
        return None
    if rt == "ort":
        try:
            ref = L.run_reference(m, feeds)
        except Exception:  # noqa: BLE001
            ref = None
        if ref is not None and _differs(ref, want) is None:
            out["runtime"] = "ort-wrong(reference agrees with body)"
            return None
        if ref is None or _differs(ref, got) is not None:
            out["runtime"] = "runtimes-disagree(no verdict)"
            return None
    elif rt == "reference":
        # only onnx.reference could run the model, and it is known to mis-evaluate valid models
        out["runtime"] = "reference-only-disagrees(no verdict)"
        return None
    g, w = np.asarray(got[name]), np.asarray(want[name])
    return ("call-differs-from-body",
            f"output {name}: runtime({rt})={g.tolist()} body={w.tolist()} feeds="
            f"{ {k: np.asarray(v).tolist() for k, v in feeds.items()} }")


def judge(spec, rng, feeds_first=None):
    """Model-free C14 oracle on one spec. -> dict(status, fails=[(key, what)], info)"""
    out = {"fails": [], "runtime": None}
    expected_raise = L.distinguishable_bodies(spec) + L.generic_bodies_differ(spec)
    st, m = L.build_spec(spec)
    out["status"] = st
    if st == "err":
        out["err"] = m
        # a valid, deterministic program must build: the only documented reason to refuse one is a function
        # whose body differs between calls
        may_raise = L.keys_with_differing_bodies(spec)
        if not ("two different definitions" in m and may_raise):
            out["fails"].append(("valid-program-rejected",
                                 f"build raised {m[:260]} although every function is used with one body "
                                 f"(keys with differing bodies: {may_raise})"))
        return out
    if expected_raise:
        out["fails"].append(("inconsistent-bodies-merged",
                             f"functions {expected_raise} are used with bodies computing different functions, "
                             "yet build returned a model"))
    for b in definitions_per_key(m):
        out["fails"].append(("definitions-per-key", b))
    for b in imports_cover(m):
        out["fails"].append(("imports-do-not-cover-body", b))
    for i in range(2):
        feeds = L.rand_feeds(spec, rng)
        if i == 0 and feeds_first is not None:
            feeds = {k: np.asarray(v, dtype=np.asarray(feeds[k]).dtype) for k, v in feeds_first.items()}
        bad = compare_runtime(spec, m, feeds, out)
        if bad:
            out["fails"].append(bad)
            out["feeds"] = {k: np.asarray(v).tolist() for k, v in feeds.items()}
            break
        if out["runtime"] and not out["runtime"].startswith(("ort", "reference")):
            break
    return out


def case_worker(task):
    """Never raises: an exception of the machinery becomes a per-case 'crash' record."""
    try:
        return _case_worker(task)
    except BaseException as e:  # noqa: BLE001
        import traceback

        return {"crash": f"{type(e).__name__}: {e}", "trace": traceback.format_exc()[-800:], "mode": task[2],
                "status": "crash", "spec": None}


def _case_worker(task):
    seed, idx, mode = task
    rng = random.Random(f"c14:{seed}:{idx}")
    if mode == "fhist":
        # several models over the SAME already-built call of a function that calls functions; every model judged
        k = idx - 4 * 10**6
        case = FH.HAND_CASES[k] if k < len(FH.HAND_CASES) else FH.gen_case(rng)
        return {"mode": "fhist", "case": case, "recs": FH.judge_history(case)}
    if mode == "cf":
        # a function whose body holds control flow, applied at differently typed call sites in one model
        k = idx - 3 * 10**6
        case = CF.HAND_CASES[k] if k < len(CF.HAND_CASES) else CF.gen_case(rng)
        r = {"mode": "cf", "case": case}
        r.update(CF.judge(case, rng))
        if k % 3 == 0:  # the collection / de-duplication correspondence on a third of them
            try:
                with warnings.catch_warnings():
                    warnings.simplefilter("ignore")
                    r["fg"], r["real"], r["imports"] = extract_fgraph(case)
            except Exception as e:  # noqa: BLE001
                r["fg"], r["real"], r["imports"] = None, ("unobservable", f"{type(e).__name__}: {e}"), []
        return r
    with warnings.catch_warnings():
        warnings.simplefilter("ignore")
        if mode == "sem":
            nm, spec = gen_sem(rng)
            env = [rng.randrange(-3, 4) for _ in spec["args"]]
            feeds = {f"x{i}": np.array([v, -v], np.float32) for i, v in enumerate(env)}
            r = {"mode": "sem", "prog": nm, "env": env, "spec": spec}
            st, m = L.build_spec(spec)
            r["status"] = st
            if st == "ok":
                got, rt = run_model(m, feeds)
                r["runtime"] = rt
                r["real"] = None if got is None else [float(x) for x in np.asarray(got["y"]).tolist()]
                r["keys"] = sorted(f.name for f in m.functions)
            else:
                r["err"] = m
            return r
        feat = dict(FEAT)
        if rng.random() < 0.25:
            feat["newer_only_in_funcs"] = True
        g = L.Gen(rng, feat)
        spec = g.gen_spec()
        r = {"mode": mode, "spec": spec, "stats": L.spec_stats(spec)}
        r.update(judge(spec, rng))
        if mode == "collect":
            try:
                r["fg"], r["real"], r["imports"] = extract_fgraph(spec)
            except Exception as e:  # noqa: BLE001
                r["fg"], r["real"], r["imports"] = None, ("unobservable", f"{type(e).__name__}: {e}"), []
        return r


def judge_fhist(ck, fh_results):
    """Verdicts of the function histories: every model of every history was judged in the worker."""
    st = {"histories": len(fh_results), "models": 0, "returned": 0, "later_models": 0, "max_depth": 0, "steps": {}}
    best = {}
    for r in fh_results:
        case = r["case"]
        st["max_depth"] = max(st["max_depth"], case["depth"])
        for n, rec in enumerate(r["recs"]):
            st["models"] += 1
            st["returned"] += int(rec["status"] == "ok")
            st["later_models"] += int(n > 0)
            lab = rec["label"].split(":", 1)[-1]
            st["steps"][lab] = st["steps"].get(lab, 0) + 1
            ck.count(("fhist", json.dumps(case, sort_keys=True), rec["label"]) if n > 0 and rec["status"] == "ok" else None)
            for key, what in rec["fails"]:
                cur = best.get(key)
                if cur is None or len(json.dumps(case)) < len(json.dumps(cur[1])):
                    best[key] = (what, case)
    for key, (what, case) in list(best.items())[:4]:
        ck.failure(key, what, {"fhist": case})
    ck.cov["function_histories"] = st


def judge_cf(ck, cf_results):
    """Verdicts for functions with control flow in the body at differently typed call sites."""
    st = {"cases": len(cf_results), "returned": 0, "rejected_two_definitions": 0, "other_refusal_single_site_too": 0,
          "typed_differently": 0, "typed_differently_and_returned": 0, "by_body": {}, "runtime": {}}
    best = {}
    for r in cf_results:
        case = r["case"]
        differ = CF.types_differ(case)
        st["typed_differently"] += int(differ)
        b = st["by_body"].setdefault(case["body"] + "/" + case["form"], {"returned": 0, "raised": 0})
        if r["status"] == "err":
            b["raised"] += 1
            st["rejected_two_definitions"] += int("two different definitions" in r.get("err", ""))
            st["other_refusal_single_site_too"] += int(bool(r.get("unsupported_single_site")))
            ck.count(None)
        else:
            b["returned"] += 1
            st["returned"] += 1
            st["typed_differently_and_returned"] += int(differ)
            st["runtime"][str(r.get("runtime"))[:40]] = st["runtime"].get(str(r.get("runtime"))[:40], 0) + 1
            ck.count(("cf", json.dumps(case, sort_keys=True)))
        for key, what in r["fails"]:
            cur = best.get(key)
            if cur is None or len(json.dumps(case)) < len(json.dumps(cur[1])):
                best[key] = (what, case, r.get("feeds"))
    for key, (what, case, feeds) in list(best.items())[:4]:
        def same(c, key=key):
            return any(k == key for k, _ in CF.judge(c, random.Random(0))["fails"])

        def shrunk(case=case, key=key, same=same):
            small = CF.shrink(case, same)
            if small != case:
                r2 = CF.judge(small, random.Random(0))
                f2 = [w for k, w in r2["fails"] if k == key]
                if f2:
                    return small, f2[0], r2.get("feeds")
            return None

        try:  # (in a child process)
            got = ISO.call(shrunk, timeout=240)
            if got:
                case, what, feeds = got
        except Exception:  # noqa: BLE001
            pass
        ck.failure(key, what, {"cf": case, "feeds": feeds})
    ck.cov["control_flow_bodies_at_differently_typed_sites"] = st


def _calls_in_bodies(stmts, inside):
    for st in stmts:
        if st[0] == "call" and inside:
            return True
        if st[0] == "if" and (_calls_in_bodies(st[2]["stmts"], True) or _calls_in_bodies(st[3]["stmts"], True)):
            return True
        if st[0] == "loop" and _calls_in_bodies(st[3]["stmts"], True):
            return True
    return False


HAND_SPECS = [
    # two different functions called Scale in two domains: main graph, inside another function, inside an If
    {"args": ["f", "b"], "inputs": [["x", 0], ["c", 1]],
     "stmts": [["call", 0, [0]], ["call", 2, [2]],
               ["if", 1, {"stmts": [["call", 1, [3]]], "outs": [4]}, {"stmts": [], "outs": [3]}, 17]],
     "outputs": [["y", 4]], "drop": False,
     "funcs": [{"name": "Scale", "domain": "dom.a", "nin": 1, "nout": 1,
                "body": {"stmts": [["op", "add", 17, [0, 0]]], "outs": [1]}},
               {"name": "Scale", "domain": "dom.b", "nin": 1, "nout": 1,
                "body": {"stmts": [["op", "neg", 17, [0]]], "outs": [1]}},
               {"name": "wrap", "domain": "dom.a", "nin": 1, "nout": 1,
                "body": {"stmts": [["call", 1, [0]], ["call", 0, [1]]], "outs": [2]}}],
     "models": []},
    # a newer opset version required ONLY inside a function body (called outside the If) + a v17 Split inside an If
    # branch: the branch has to be adapted against the model's opset 19 (Split 18 needs `num_outputs`)
    {"args": ["f", "b"], "inputs": [["x", 0], ["c", 1]],
     "stmts": [["call", 0, [0]],
               ["if", 1, {"stmts": [["op", "split0", 17, [0]]], "outs": [3]}, {"stmts": [], "outs": [0]}, 17],
               ["op", "add", 17, [2, 3]]],
     "outputs": [["y", 4]], "drop": False,
     "funcs": [{"name": "newer", "domain": "dom", "nin": 1, "nout": 1,
                "body": {"stmts": [["op", "identity", 19, [0]]], "outs": [1]}}],
     "models": []},
    # an old and a new revision of one helper (declared versions 1 and 2, different bodies), the old one reached
    # only through another function: must raise, never "newest wins"
    {"args": ["f"], "inputs": [["x", 0]],
     "stmts": [["call", 0, [0]], ["call", 2, [1]], ["op", "add", 17, [1, 2]]],
     "outputs": [["y", 3]], "drop": False,
     "funcs": [{"name": "helper", "domain": "dom", "version": 2, "nin": 1, "nout": 1,
                "body": {"stmts": [["op", "abs", 17, [0]]], "outs": [1]}},
               {"name": "helper", "domain": "dom", "version": 1, "nin": 1, "nout": 1,
                "body": {"stmts": [["op", "neg", 17, [0]]], "outs": [1]}},
               {"name": "wrap", "domain": "dom", "nin": 1, "nout": 1,
                "body": {"stmts": [["call", 1, [0]]], "outs": [1]}}],
     "models": []},
    # ... the same body under both declared versions: one definition, legitimately shared
    {"args": ["f"], "inputs": [["x", 0]],
     "stmts": [["call", 0, [0]], ["call", 1, [1]]],
     "outputs": [["y", 2]], "drop": False,
     "funcs": [{"name": "helper", "domain": "dom", "version": 2, "nin": 1, "nout": 1,
                "body": {"stmts": [["op", "abs", 17, [0]]], "outs": [1]}},
               {"name": "helper", "domain": "dom", "version": 1, "nin": 1, "nout": 1,
                "body": {"stmts": [["op", "abs", 17, [0]]], "outs": [1]}}],
     "models": []},
    # function used only inside an If body (pinned-tree defect)
    {"args": ["f", "b"], "inputs": [["x", 0], ["c", 1]],
     "stmts": [["if", 1, {"stmts": [["call", 0, [0, 0]]], "outs": [2]}, {"stmts": [], "outs": [0]}, 17]],
     "outputs": [["z", 2]], "drop": False,
     "funcs": [{"name": "f", "domain": "dom", "nin": 2, "nout": 1,
                "body": {"stmts": [["op", "mul", 17, [0, 0]], ["op", "add", 17, [2, 1]]], "outs": [3]}}],
     "models": []},
    # function used only inside a function used only inside a Loop body
    {"args": ["f"], "inputs": [["x", 0]],
     "stmts": [["loop", 2, [0], {"stmts": [["call", 0, [3]]], "outs": [4]}, 17]],
     "outputs": [["z", 1]], "drop": False,
     "funcs": [{"name": "outer", "domain": "dom", "nin": 1, "nout": 1,
                "body": {"stmts": [["call", 1, [0]], ["op", "abs", 17, [1]]], "outs": [2]}},
               {"name": "inner", "domain": "dom", "nin": 1, "nout": 1,
                "body": {"stmts": [["op", "neg", 17, [0]]], "outs": [1]}}],
     "models": []},
    # the same function with a body that differs between two calls: must raise
    {"args": ["f"], "inputs": [["x", 0]],
     "stmts": [["call", 0, [0]], ["call", 0, [1], 1], ["op", "add", 17, [1, 2]]],
     "outputs": [["z", 3]], "drop": False,
     "funcs": [{"name": "f", "domain": "dom", "nin": 1, "nout": 1,
                "body": {"stmts": [["op", "abs", 17, [0]]], "outs": [1]}}],
     "models": []},
    # ... the second body only inside a nested function inside an If body
    {"args": ["f", "b"], "inputs": [["x", 0], ["c", 1]],
     "stmts": [["call", 1, [0]],
               ["if", 1, {"stmts": [["call", 0, [2]]], "outs": [3]}, {"stmts": [], "outs": [2]}, 17]],
     "outputs": [["z", 3]], "drop": False,
     "funcs": [{"name": "wrap", "domain": "dom", "nin": 1, "nout": 1,
                "body": {"stmts": [["call", 1, [0], 1]], "outs": [1]}},
               {"name": "leaf", "domain": "dom", "nin": 1, "nout": 1,
                "body": {"stmts": [["op", "relu", 17, [0]]], "outs": [1]}}],
     "models": []},
    # two call sites whose bodies differ but have the same number of nodes
    {"args": ["f"], "inputs": [["x", 0]],
     "stmts": [["call", 0, [0], 1], ["call", 0, [1], 2], ["op", "add", 17, [1, 2]]],
     "outputs": [["z", 3]], "drop": False,
     "funcs": [{"name": "f", "domain": "dom", "nin": 1, "nout": 1,
                "body": {"stmts": [["op", "relu", 17, [0]]], "outs": [1]}}],
     "models": []},
    # a dtype-generic function (its constant has the argument's dtype) called at float32 and float64: must raise
    {"args": ["f"], "inputs": [["x", 0]],
     "stmts": [["callg", 0, 0, "f32"], ["callg", 0, 1, "f64"]],
     "outputs": [["z", 2]], "drop": False, "funcs": [], "models": [],
     "generics": [{"name": "g", "domain": "gen.dom", "kind": "addconst"}]},
    # ... the same body whatever the dtype: one definition, legitimately shared
    {"args": ["f"], "inputs": [["x", 0]],
     "stmts": [["callg", 0, 0, "f32"], ["callg", 0, 1, "f64"]],
     "outputs": [["z", 2]], "drop": False, "funcs": [], "models": [],
     "generics": [{"name": "g", "domain": "gen.dom", "kind": "mulself"}]},
    # control flow inside a function body; an ai.onnx.ml operator and a nested function only in the branches
    {"args": ["f"], "inputs": [["x", 0]],
     "stmts": [["call", 0, [0]]],
     "outputs": [["z", 1]], "drop": False,
     "funcs": [{"name": "outer", "domain": "dom", "nin": 1, "nout": 1,
                "body": {"stmts": [["op", "pos", 17, [0]],
                                   ["if", 1, {"stmts": [["op", "binarize", 17, [0]]], "outs": [2]},
                                    {"stmts": [["call", 1, [0]]], "outs": [2]}, 17]], "outs": [2]}},
               {"name": "inc", "domain": "demo.inc", "nin": 1, "nout": 1,
                "body": {"stmts": [["const", [1.0, 1.0]], ["op", "add", 17, [0, 1]]], "outs": [2]}}],
     "models": []},
    # mixed opset versions inside a function body
    {"args": ["f"], "inputs": [["x", 0]],
     "stmts": [["call", 0, [0]], ["op", "identity", 21, [1]]],
     "outputs": [["z", 2]], "drop": False,
     "funcs": [{"name": "f", "domain": "dom", "nin": 1, "nout": 1,
                "body": {"stmts": [["op", "rmax", 17, [0]], ["op", "identity", 19, [1]]], "outs": [2]}}],
     "models": []},
]


def run(ck: core.Check):
    ck.lean(["SpoxModel.Props.C14"], audit="SpoxModel.Audit.C14")
    if ck.thorough:
        ck.leanchecker(["SpoxModel.Props.C14"])
    try:
        drv = ck.driver()
    except Exception as e:  # noqa: BLE001
        ck.broken("correspondence", "C14 driver", str(e))
        drv = None

    # tie G (change-triggered escalation): any edit of a covered spox function makes this run use the
    # thorough generation counts (not a verdict by itself)
    try:
        from harness import lib_c02c14_sources as SRC

        cur, diff = SRC.changed()
        ck.cov["covered_sources"] = {"functions_hashed": len(cur), "differ_from_baseline": diff[:40],
                                     "escalated_generation_counts_x2.5": bool(diff) and not ck.thorough}
    except Exception as e:  # noqa: BLE001
        diff = ["<hashing failed>"]
        ck.cov["covered_sources"] = {"error": f"{type(e).__name__}: {e}"}
    escalated = bool(diff) and not ck.thorough
    if diff and not ck.thorough:
        ck.log(f"covered sources changed ({len(diff)}: {', '.join(diff[:4])}{' ...' if len(diff) > 4 else ''}) "
               "-> 2.5x generation counts")

    def pick(q, t):
        # (the full thorough counts would take the quick tier far beyond its time budget on a loaded machine)
        return t if ck.thorough else (min(t, int(q * 2.5)) if escalated else q)

    n_oracle = pick(450, 6000)
    n_collect = pick(220, 4000)
    n_sem = pick(150, 2500)
    tasks = ([(ck.seed, i, "oracle") for i in range(n_oracle)]
             + [(ck.seed, 10**6 + i, "collect") for i in range(n_collect)]
             + [(ck.seed, 2 * 10**6 + i, "sem") for i in range(n_sem)])
    n_cf = len(CF.HAND_CASES) + pick(160, 2500)
    tasks += [(ck.seed, 3 * 10**6 + i, "cf") for i in range(n_cf)]
    n_fh = len(FH.HAND_CASES) + pick(120, 1500)
    tasks += [(ck.seed, 4 * 10**6 + i, "fhist") for i in range(n_fh)]
    results = L.robust_map(case_worker, tasks, min(14, mp.cpu_count()), core.WORK, stall_timeout=900)
    rng = ck.rng
    def hand(hs):
        r = {"mode": "collect", "spec": hs, "stats": L.spec_stats(hs)}
        r.update(judge(hs, random.Random(0)))
        try:
            r["fg"], r["real"], r["imports"] = extract_fgraph(hs)
        except Exception as e:  # noqa: BLE001
            r["fg"], r["real"], r["imports"] = None, ("unobservable", f"{type(e).__name__}: {e}"), []
        return r

    for hs in HAND_SPECS:  # (in a child process: `build` itself calls native code)
        try:
            results.append(ISO.call(hand, hs, timeout=300))
        except ISO.Aborted as e:
            ck.failure("process-aborted", f"building / judging a hand-written program kills the process: {e}", {"spec": hs})
        except Exception as e:  # noqa: BLE001
            results.append({"crash": f"hand spec: {e}", "status": "crash", "spec": None, "mode": "collect"})
    died = [i for i, r in enumerate(results[:len(tasks)]) if r.get("died")]
    for i in died:  # native judges run in children of the worker: this worker was killed inside build
        if "exit code -9" in str(results[i].get("crash")):
            continue  # killed by the pool for not answering within 15 min (overloaded machine): no verdict
        ck.failure("process-aborted", f"the process handling generated case {list(tasks[i])} died or stalled "
                                      "(native crash inside build?)", {"task": list(tasks[i])})
    crashes = [r for r in results if r.get("crash") and not r.get("died")]
    if crashes:
        ck.broken("correspondence", "C14 generated-program worker failed",
                  f"{len(crashes)} cases; first: {crashes[0]['crash']} {crashes[0].get('trace', '')[-400:]}")
    results = [r for r in results if not r.get("crash")]
    fh_results = [r for r in results if r["mode"] == "fhist"]
    results = [r for r in results if r["mode"] != "fhist"]
    judge_fhist(ck, fh_results)
    cf_results = [r for r in results if r["mode"] == "cf"]
    results = [r for r in results if r["mode"] != "cf"]
    judge_cf(ck, cf_results)
    # (their structure also goes through the collection / imports correspondences below)
    cf_collect = [{"mode": "collect", "spec": r["case"], "fg": r["fg"], "real": r["real"], "imports": r["imports"],
                   "status": "cf", "stats": None, "fails": []} for r in cf_results if "fg" in r]
    # later models of the function histories: their structure taken apart over the SAME (already built) objects
    cf_collect += [{"mode": "collect", "spec": {"fhist": r["case"], "model": rec["label"]}, "fg": rec["fg"],
                    "real": rec["real"], "imports": rec["imports"], "status": "fhist", "stats": None, "fails": []}
                   for r in fh_results for rec in r["recs"] if "fg" in rec]
    unobs_fh = [c for c in cf_collect if c["status"] == "fhist" and c["real"] and c["real"][0] == "unobservable"]
    if unobs_fh:
        ck.broken("correspondence", "C14 function collection of later models not observable",
                  f"{len(unobs_fh)} models; first: {unobs_fh[0]['real'][1][:300]}")
    unobs = [r for r in results if r["mode"] == "collect" and r.get("real") and r["real"][0] == "unobservable"]
    if unobs:
        ck.broken("correspondence", "C14 function collection not observable (real Builder/Function internals changed?)",
                  f"{len(unobs)} cases; first: {unobs[0]['real'][1][:300]}")

    # ---- oracle verdicts
    dist = {"returned": 0, "raised": {}, "with_calls": 0, "calls_in_bodies": 0, "nested_functions": 0,
            "expected_raise_and_raised": 0, "runtime": {}}
    best: dict[str, tuple] = {}
    for r in results:
        if r["mode"] == "sem":
            continue
        spec = r["spec"]
        s = r["stats"]
        dist["with_calls"] += int(s["call"] > 0)
        dist["calls_in_bodies"] += int(_calls_in_bodies(spec["stmts"], False))
        dist["nested_functions"] += int(any(st[0] == "call" for f in spec["funcs"] for st in f["body"]["stmts"]))
        if r["status"] == "err":
            cls = r["err"].split(":")[0]
            dist["raised"][cls] = dist["raised"].get(cls, 0) + 1
            if "two different definitions" in r["err"]:
                dist["expected_raise_and_raised"] += 1
            ck.count(None)
            for key, what in r["fails"]:  # a valid program that was refused
                cur = best.get(key)
                if cur is None or len(json.dumps(spec)) < len(json.dumps(cur[1])):
                    best[key] = (what, spec, None)
            continue
        dist["returned"] += 1
        dist["runtime"][str(r["runtime"])[:40]] = dist["runtime"].get(str(r["runtime"])[:40], 0) + 1
        ck.count(("prog", json.dumps(spec, sort_keys=True)) if s["call"] else None)
        for key, what in r["fails"]:
            cur = best.get(key)
            if cur is None or len(json.dumps(spec)) < len(json.dumps(cur[1])):
                best[key] = (what, spec, r.get("feeds"))
    for key, (what, spec, feeds) in list(best.items())[:6]:
        def same_failure(s, key=key, feeds=feeds, what=what):
            # (for a refused program: the same exception, so that shrinking cannot drift to another refusal)
            sig = what[:60] if key == "valid-program-rejected" else None
            return any(k == key and (sig is None or w[:60] == sig)
                       for k, w in judge(s, random.Random(0), feeds)["fails"])

        def shrunk(spec=spec, key=key, feeds=feeds, same_failure=same_failure):
            small = L.shrink(spec, same_failure, budget=100)
            fails = [w for k, w in judge(small, random.Random(0), feeds)["fails"] if k == key]
            return (small, fails[0]) if fails else None

        try:  # shrink the witness (failure path only; in a child process)
            got = ISO.call(shrunk, timeout=240)
            if got:
                spec, what = got
        except Exception:  # noqa: BLE001
            pass
        ck.failure(key, what, {"spec": spec, "feeds": feeds})

    if drv is not None:
        # ---- (a) collection correspondence
        col = [r for r in results + cf_collect if r["mode"] == "collect" and r.get("fg") is not None
               and r["real"][0] not in ("skip", "unobservable")]
        outs = drv.ask_many("C14", [{"k": "collect", "g": r["fg"]} for r in col])
        mism = 0
        cst = {"cases": len(col), "agree_functions": 0, "agree_error": 0,
               "skipped": sum(1 for r in results if r["mode"] == "collect" and (r.get("fg") is None or r["real"][0] in ("skip", "unobservable")))}
        for r, o in zip(col, outs):
            real = r["real"]
            if real[0] == "ok":
                # the order of model.functions carries no meaning in ONNX: compared as a set, order counted
                ok = o.get("functions") is not None and sorted(o["functions"]) == sorted(real[1])
                cst["agree_functions"] += int(ok)
                cst["same_order"] = cst.get("same_order", 0) + int(o.get("functions") == real[1])
            else:
                ok = o.get("err") == "runtime"
                cst["agree_error"] += int(ok)
            if not ok:
                mism += 1
                if mism <= 3:
                    ck.broken("correspondence", "C14 function collection / de-duplication",
                              f"spec={json.dumps(r['spec'])[:900]} model={json.dumps(o)[:500]} real={json.dumps(real)[:500]}")
        cst["mismatches"] = mism
        ck.cov["collection"] = cst
        # ---- (b) imports
        allrecs = [rec for r in results + cf_collect if r["mode"] == "collect" for rec in (r.get("imports") or [])]
        recs = [rec for rec in allrecs if "pgraph" not in rec]
        progs = [rec for rec in allrecs if "pgraph" in rec]
        seen, uniq = set(), []
        for rec in recs:
            k = json.dumps(rec, sort_keys=True)
            if k not in seen:
                seen.add(k)
                uniq.append(rec)
        outs = drv.ask_many("C14", [{"k": "policy", "body": rec["body"], "model": rec["model"]} for rec in uniq])
        mism = 0
        not_sub = 0
        for rec, o in zip(uniq, outs):
            got = sorted(o.get("imports", []))
            # hypothesis of imports_agree_with_model: body requirements are among the model's
            norm = lambda p: ["" if p[0] == "ai.onnx" else p[0], p[1]]  # noqa: E731
            if not all(norm(p) in [norm(q) for q in rec["model"]] for p in rec["body"]):
                not_sub += 1
                if not_sub <= 2:
                    ck.broken("correspondence", "C14 body requirements not part of the model's requirements",
                              f"record={rec}")
            if got != rec["real"]:
                mism += 1
                if mism <= 3:
                    ck.broken("correspondence", "C14 function opset imports (max policy)",
                              f"record={rec} model={o}")
        # nested requirement collection: Func.reqG over the body's node tree == the body build's opset_req,
        # and the imports computed from it == the real FunctionProto's
        withg = [rec for rec in uniq if isinstance(rec.get("rgraph"), dict)]
        unobs = [rec for rec in withg if "unobservable" in rec["rgraph"]]
        if unobs:
            ck.broken("correspondence", "C14 body requirement tree not observable", unobs[0]["rgraph"]["unobservable"][:300])
        withg = [rec for rec in withg if "unobservable" not in rec["rgraph"]]
        outs = drv.ask_many("C14", [{"k": "reqs", "g": rec["rgraph"], "model": rec["model"]} for rec in withg])
        rmism = nested = 0
        for rec, o in zip(withg, outs):
            nested += int(any(nd["subs"] for nd in rec["rgraph"]["nodes"]))
            got_req = sorted(set(map(tuple, o.get("req", [["?", 0]]))))
            want_req = sorted(set(map(tuple, rec["body"])))
            if got_req != want_req or sorted(o.get("imports", [])) != rec["real"]:
                rmism += 1
                if rmism <= 3:
                    ck.broken("correspondence", "C14 nested requirement collection / imports of a function body",
                              f"key={rec['key']} model={json.dumps(o)[:300]} real_req={rec['body']} real_imports={rec['real']}")
        # ---- (b') round 10: the whole program as ONE requirement tree (Func.PGraph): preqG == the real build's
        # opset_req, policy == the model's opsets, and for every reachable Function node (bodiesG order) the body
        # build's opset_req, the node's own opset_req (own ∪ body) and the FunctionProto's imports
        pst = {"programs": 0, "bodies": 0, "mismatches": 0, "unobservable": 0, "with_extra": 0,
               "max_bodies": 0}
        pun = [rec for rec in progs if rec.get("pgraph") is None]
        if pun:
            pst["unobservable"] = len(pun)
            ck.broken("correspondence", "C14 program requirement tree not observable", str(pun[0].get("unobservable"))[:300])
        seenp, puniq = set(), []
        for rec in progs:
            if rec.get("pgraph") is None:
                continue
            k = json.dumps(rec, sort_keys=True)
            if k not in seenp:
                seenp.add(k)
                puniq.append(rec)
        pouts = drv.ask_many("C14", [{"k": "preq", "g": rec["pgraph"], "extra": rec["extra"]} for rec in puniq])
        sset = lambda xs: sorted(set(map(tuple, xs)))  # noqa: E731
        for rec, o in zip(puniq, pouts):
            pst["programs"] += 1
            pst["bodies"] += len(rec["bodies"])
            pst["max_bodies"] = max(pst["max_bodies"], len(rec["bodies"]))
            pst["with_extra"] += int(bool(rec["extra"]))
            why = None
            if "error" in o:
                why = f"driver: {o['error']}"
            elif sset(o["req"]) != sset(rec["real_req"]):
                why = f"program requirements: model {sset(o['req'])} real {rec['real_req']}"
            elif sorted(map(tuple, o["model"])) != sorted(map(tuple, rec["real_model"])):
                why = f"model opsets: model {o['model']} real {rec['real_model']}"
            elif len(o["bodies"]) != len(rec["bodies"]):
                why = f"reachable function nodes: model {len(o['bodies'])} real {len(rec['bodies'])}"
            else:
                for mb, rb in zip(o["bodies"], rec["bodies"]):
                    if mb["inst"] != rb["key"] + [rb["fp"]]:
                        why = f"reachable function order: model {mb['inst']} real {rb['key']} fp {rb['fp']}"
                    elif sset(mb["req"]) != sset(rb["req"]):
                        why = f"body requirements of {rb['key']}: model {sset(mb['req'])} real {rb['req']}"
                    elif sorted(map(tuple, mb["imports"])) != sorted(map(tuple, rb["real"])):
                        why = f"imports of {rb['key']}: model {mb['imports']} real {rb['real']}"
                    elif not isinstance(rb["node_req"], list):
                        why = f"Function.opset_req of {rb['key']} not observable: {rb['node_req']}"
                    if why:
                        break
                if why is None:
                    # Function.opset_req == own ∪ body build's: checked through the tree (pownNs uses it), and
                    # directly: every body requirement is among the real node's and the real program's
                    for rb in rec["bodies"]:
                        if not (set(map(tuple, rb["req"])) <= set(map(tuple, rb["node_req"])) <= set(map(tuple, rec["real_req"]))):
                            why = f"body ⊆ Function.opset_req ⊆ program requirements fails for {rb['key']}"
                            break
            if why:
                pst["mismatches"] += 1
                if pst["mismatches"] <= 3:
                    ck.broken("correspondence", "C14 whole-program requirement collection (Func.preqG / bodiesG)",
                              f"{why} :: pgraph={json.dumps(rec['pgraph'])[:500]}")
        ck.cov["program_requirements"] = pst
        ck.cov["imports"] = {"distinct_records": len(uniq), "mismatches": mism, "body_req_not_in_model_req": not_sub,
                             "requirement_trees": len(withg), "with_nested_bodies": nested, "tree_mismatches": rmism}
        # ---- (c) semantics
        sem = [r for r in results if r["mode"] == "sem"]
        outs = drv.ask_many("C14", [{"k": "sem", "prog": r["prog"], "env": r["env"]} for r in sem])
        mism = 0
        sst = {"cases": len(sem), "three_way_equal": 0, "both_reject": 0, "not_run": 0}
        for r, o in zip(sem, outs):
            if "err" in o:
                ok = r["status"] == "err" and "two different definitions" in r.get("err", "")
                sst["both_reject"] += int(ok)
            elif r["status"] != "ok" or r.get("real") is None:
                ok = r["status"] == "ok"  # model accepts but the real build raised
                sst["not_run"] += 1
            else:
                direct = o["direct"][-1]
                onnx_v = o["onnx"][-1] if o.get("onnx") else None
                if abs(direct) > 2**20:
                    ok = True
                    sst["not_run"] += 1
                else:
                    ok = direct == onnx_v and r["real"][0] == float(direct)
                    sst["three_way_equal"] += int(ok)
            if not ok:
                mism += 1
                if mism <= 3:
                    ck.broken("correspondence", "C14 function semantics (model direct / model ONNX / real runtime)",
                              f"prog={json.dumps(r['prog'])[:600]} env={r['env']} model={json.dumps(o)[:300]} "
                              f"real={r.get('real')} status={r['status']} {r.get('err', '')[:100]}")
        sst["mismatches"] = mism
        ck.cov["semantics"] = sst

    ck.cov["distribution"] = dist
    ck.sample({"spec": results[0]["spec"], "status": results[0]["status"]}, 2)
    ck.exhaustive = False
    ck.rule = (
        f"{n_oracle}+{n_collect} seeded programs with functions (repeated call sites, nested functions, calls inside "
        f"If/Loop bodies, opset versions 17-21, call-site body variants, colliding (domain,name)) + {n_sem} "
        "straight-line nested-function programs over integers + hand-written seeds; non-trivial = build returned "
        "and the program calls a function; distinct by spec"
    )
    ck.assumptions += [
        "ONNX function semantics of the runtime (a call evaluates the FunctionProto of its (domain, name) on the "
        "actual arguments) - observed through onnxruntime / onnx.reference, stated as evalO in Model/FuncSem.lean",
        "equality of FunctionProtos is taken from the real proto bytes (deterministic serialisation)",
    ]


def replay(ck: core.Check, doc) -> bool:
    """True = still fails. Runs in a child process: a native crash on the replayed input is a failure, not exit 2."""
    try:
        return bool(ISO.call(_replay, ck, doc, timeout=600))
    except ISO.Aborted as e:
        print(f"process-aborted: replaying this input kills the process ({e})")
        return True


def _replay(ck: core.Check, doc) -> bool:
    import sys

    try:
        return _replay_inner(ck, doc)
    finally:
        sys.stdout.flush()


def _replay_inner(ck: core.Check, doc) -> bool:
    case = doc.get("case") or {}
    if case.get("task") is not None:
        r = case_worker(tuple(case["task"]))
        print("case re-generated from its task:", {k: str(r.get(k))[:300] for k in ("status", "err", "fails", "crash")})
        return bool(r.get("fails") or r.get("crash"))
    if case.get("fhist") is not None:
        failing = False
        for rec in FH.judge_history(case["fhist"]):
            if rec["status"] == "err":
                print(f"{rec['label']} raised:", rec.get("err"))
            for k, w in rec["fails"]:
                print(f"{k}: {w}")
            failing |= bool(rec["fails"])
        return failing
    if case.get("cf") is not None:
        r = CF.judge(case["cf"], random.Random(0), case.get("feeds"))
        if r["status"] == "err":
            print("build raised:", r["err"])
        for k, w in r["fails"]:
            print(f"{k}: {w}")
        return bool(r["fails"])
    spec = case.get("spec")
    if spec is None:
        print("replay file names broken obligations only:", [b["name"] for b in doc.get("broken", [])])
        return False
    r = judge(spec, random.Random(0), case.get("feeds"))
    if r["status"] == "err":
        print("build raised:", r["err"])
    for k, w in r["fails"]:
        print(f"{k}: {w}")
    return bool(r["fails"])
