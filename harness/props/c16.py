"""C16 — scoped settings are restored on every exit from their block.

tie G : translator/ctx_ir.py extracts the three managers' IR from src/spox/_future.py
proof  : Props/C16.lean (settings_restored & co. over the *generated* IR)
tie H  : block histories run on the real managers and on the model (driver), logs compared
oracle : on the real run alone: after each block exit the three settings equal those before entry,
         and inside the block the entered setting is in force (model-free)
"""
from __future__ import annotations

import itertools
import random

from harness import core

MANAGERS = ["type_warning_level", "value_prop_backend", "operator_overloading"]
N_ARGS = [4, 3, 4]  # number of distinct values each setting can be given (model value = index)


class _Boom(Exception):
    pass


class _Env:
    """Access to the three real settings, encoded as small naturals."""

    def __init__(self):
        import importlib

        import spox._future as fut  # the public home of the three managers
        import spox.opset.ai.onnx.v17 as op
        from spox import Var

        self.unobservable = {}  # setting index -> why its global cannot be read / written directly

        def opt(mod):
            try:
                return importlib.import_module(mod)
            except Exception as e:  # noqa: BLE001
                self.unobservable[mod] = f"{type(e).__name__}: {e}"
                return None

        self.fut, self.op, self.Var = fut, op, Var
        self.node, self.vp = opt("spox._node"), opt("spox._value_prop")
        self.NI = getattr(opt("spox._var"), "NotImplementedOperatorDispatcher", None)
        self.levels = list(fut.TypeWarningLevel)
        self.backends = list(fut.ValuePropBackend)

    # ------------------------------------------------------------------ behavioural probes
    def prepare_probes(self):
        """Operands of the probes, built once (their construction must not depend on the settings)."""
        import warnings

        import numpy as np
        from spox import Tensor, argument

        with warnings.catch_warnings():
            warnings.simplefilter("ignore")
            self.p_known = argument(Tensor(np.float32, (2,)))
            self.p_unknown_rank = argument(Tensor(np.float32))
            try:
                from spox._internal_op import unsafe_cast

                self.p_untyped = unsafe_cast(self.p_known, None)  # a Var without a type
            except Exception:  # noqa: BLE001
                self.p_untyped = None
            self.p_f32 = argument(Tensor(np.float32, ()))
            self.p_f32b = argument(Tensor(np.float32, ()))
            self.p_i64 = argument(Tensor(np.int64, ()))
            saved = self.vp._VALUE_PROP_BACKEND
            self.vp._VALUE_PROP_BACKEND = self.vp.ValuePropBackend.REFERENCE
            try:
                self.p_const = self.op.const(np.array(2.0, np.float32))
            finally:
                self.vp._VALUE_PROP_BACKEND = saved

    def behave(self, nonce=None):
        """What the three settings DO right now (not what the globals read):
        [which constructions warn, what a constant computation evaluates to, how operators dispatch]
        (+ with `nonce`: the same kind of computation on a constant first met at this point of the history)."""
        import warnings

        from spox import Tensor, argument
        import numpy as np

        def warns(f):
            with warnings.catch_warnings(record=True) as w:
                warnings.simplefilter("always")
                try:
                    f()
                except Exception as e:  # noqa: BLE001
                    return "!" + type(e).__name__
            return str(min(len(w), 1))

        lvl = "".join([
            warns(lambda: self.op.abs(self.p_untyped)) if self.p_untyped is not None else "-",  # output type missing
            warns(lambda: argument(Tensor(np.float32))),      # incomplete output, no inputs
            warns(lambda: self.op.abs(self.p_unknown_rank)),  # incomplete output from an incomplete input
        ])
        with warnings.catch_warnings():
            warnings.simplefilter("ignore")
            try:
                v = self.op.cast(self.p_const, to=str)  # '2.0' on the reference evaluator, '2' on onnxruntime
                val = getattr(v, "_value", None)
                backend = "no-value" if val is None else str(val.value.tolist())
            except Exception as e:  # noqa: BLE001
                backend = "!" + type(e).__name__

            def disp(f):
                try:
                    r = f()
                    return r.type.dtype.name if hasattr(r, "type") else type(r).__name__
                except Exception as e:  # noqa: BLE001
                    return type(e).__name__

            dsp = "|".join([disp(lambda: self.p_f32 + self.p_f32b), disp(lambda: self.p_i64 + self.p_f32),
                            disp(lambda: self.p_f32 + 2.5)])
            out = [lvl, backend, dsp]
            if nonce is not None:
                try:
                    n = 1000 + int(nonce)
                    v = self.op.cast(self.op.const(np.array(float(n), np.float32)), to=str)
                    val = getattr(v, "_value", None)
                    # same alphabet as the main probe: '2.0' (reference) / '2' (onnxruntime) / 'no-value'
                    out.append("no-value" if val is None else str(val.value.tolist()).replace(str(n), "2"))
                except Exception as e:  # noqa: BLE001
                    out.append("!" + type(e).__name__)
        return out

    def behave_asym(self):
        """What value propagation does on operators that ONE evaluating backend cannot evaluate and the other can
        (16-bit integer Max / Min: onnxruntime has no kernel; StringNormalizer where the runtime lacks the locale), always
        with the SAME operator, element type and shape (fresh constants each time): something remembered about a node
        signature from the time another backend was selected (a negative cache keyed without the backend) shows here."""
        import warnings

        import numpy as np

        op = self.op
        n = int(getattr(self, "asym_len", 2))  # one shape per history: what one history leaves behind cannot colour the next

        def c(vals, dt):
            return op.const(np.resize(np.array(vals, dt), n))

        cands = [
            ("max_i16", lambda: op.max([c([1, 5], np.int16), c([3, 2], np.int16)])),
            ("min_u16", lambda: op.min([c([1, 5], np.uint16), c([3, 2], np.uint16)])),
            ("add_i16", lambda: op.add(c([1, 5], np.int16), c([3, 2], np.int16))),
        ]
        out = []
        with warnings.catch_warnings():
            warnings.simplefilter("ignore")
            for name, f in cands:
                try:
                    v = getattr(f(), "_value", None)
                    out.append(f"{name}={'no-value' if v is None else v.value.tolist()[:2]}")
                except Exception as e:  # noqa: BLE001
                    out.append(f"{name}=!{type(e).__name__}")
        return "|".join(out)

    def read(self):
        """The three globals as model values; -1 for one that is not where it used to be (registered in
        `unobservable`, never raised: the behavioural oracle does not need them)."""
        def r0():
            return self.levels.index(self.node._TYPE_WARNING_LEVEL)

        def r1():
            return self.backends.index(self.vp._VALUE_PROP_BACKEND)

        def r2():
            d = self.Var._operator_dispatcher
            if isinstance(d, self.NI):
                return 0
            return 1 + 2 * int(bool(d.type_promotion)) + int(bool(d.constant_promotion))

        out = []
        for j, f in enumerate((r0, r1, r2)):
            try:
                if j in self.unobservable:
                    raise AttributeError
                out.append(f())
            except Exception as e:  # noqa: BLE001
                self.unobservable.setdefault(j, f"{type(e).__name__}: {e}")
                out.append(-1)
        return out

    def write(self, vals):
        """Put the settings into a given state: directly; through the public setters where the global is
        not reachable (the operator dispatcher then stays what it is)."""
        try:
            if 0 in self.unobservable or not hasattr(self.node, "_TYPE_WARNING_LEVEL"):
                raise AttributeError  # never create a stray attribute that `read` would then find
            self.node._TYPE_WARNING_LEVEL = self.levels[vals[0]]
        except Exception:  # noqa: BLE001
            try:
                self.fut.set_type_warning_level(self.levels[vals[0]])
            except Exception as e:  # noqa: BLE001
                self.unobservable.setdefault("write0", f"{type(e).__name__}: {e}")
        try:
            if 1 in self.unobservable or not hasattr(self.vp, "_VALUE_PROP_BACKEND"):
                raise AttributeError
            self.vp._VALUE_PROP_BACKEND = self.backends[vals[1]]
        except Exception:  # noqa: BLE001
            try:
                self.fut.set_value_prop_backend(self.backends[vals[1]])
            except Exception as e:  # noqa: BLE001
                self.unobservable.setdefault("write1", f"{type(e).__name__}: {e}")
        try:
            if 2 in self.unobservable or not hasattr(self.Var, "_operator_dispatcher"):
                self.unobservable.setdefault(2, "Var._operator_dispatcher is not there")
                return
            if vals[2] == 0:
                self.Var._operator_dispatcher = self.NI()
            else:
                k = vals[2] - 1
                self.Var._operator_dispatcher = self.fut._NumpyLikeOperatorDispatcher(
                    self.op, bool(k // 2), bool(k % 2)
                )
        except Exception as e:  # noqa: BLE001
            self.unobservable.setdefault("write2", f"{type(e).__name__}: {e}")

    def poke(self, which, val):
        """The public, non-scoped setter of a setting, called by a block body."""
        if which == 0:
            self.fut.set_type_warning_level(self.levels[val])
        elif which == 1:
            self.fut.set_value_prop_backend(self.backends[val])

    def manager(self, which, arg):
        if which == 0:
            return self.fut.type_warning_level(self.levels[arg])
        if which == 1:
            return self.fut.value_prop_backend(self.backends[arg])
        k = arg - 1
        return self.fut.operator_overloading(
            self.op, type_promotion=bool(k // 2), constant_promotion=bool(k % 2)
        )

    JUNK_OPERANDS = ["not a number", None, 1j, [1, 2], 2.5, b"x", ...]

    def raise_somehow(self, how, junk=0):
        if how == 1:
            raise _Boom("body raised")
        if how == 2:  # an eager TypeError raised by spox itself inside the block
            import numpy as np
            from spox import Tensor, argument

            x = argument(Tensor(np.int64, ()))
            try:
                d = self.Var._operator_dispatcher
                outside = isinstance(d, self.NI)
            except Exception:  # noqa: BLE001
                d, outside = None, True
            bad = self.JUNK_OPERANDS[junk % len(self.JUNK_OPERANDS)]  # the eager errors come from several code paths
            if junk % 2:
                x + bad  # through the Python operator
            elif outside:
                x + "not a number"  # TypeError: unsupported operand (operators not enabled)
            else:
                d.add(x, bad)  # spox's own eager TypeError
            raise AssertionError("expected spox to raise")
        if how == 9:  # another eager error of spox: an operator constructor given operands of different element types
            import numpy as np
            from spox import Tensor, argument

            self.op.add(argument(Tensor(np.int64, ())), argument(Tensor(np.float32, ())))
            raise AssertionError("expected spox to raise")
        if how == 3:
            raise KeyError("k")
        if how == 4:  # not an Exception subclass: "any exception" includes these
            raise KeyboardInterrupt()
        if how == 5:  # the exception generator-based managers treat specially
            raise StopIteration("body")
        if how == 6:
            raise GeneratorExit()
        if how == 7:
            raise SystemExit(3)
        if how == 8:  # an exception whose class hierarchy is unusual: raised from a nested handler, with a cause
            try:
                raise _Boom("inner")
            except _Boom as e:
                raise RuntimeError("generator raised StopIteration") from e
        raise _Boom("body raised")


def run_real(env: _Env, blocks, init, behave=False):
    """Run a history on the real managers. Returns (final, log, records).

    log      : snapshots exactly where the model takes them (entering a body; after a block exit)
    records  : per block (which, arg, pre, inside, post, raised) for the model-free oracle
    """
    def _has_backend_block(bs):
        return any(b["which"] == 1 or _has_backend_block(b["inner"]) for b in bs)

    # (the asymmetric-operator probes cost several evaluator start-ups: a budget of histories per run; replays have none)
    use_asym = behave and _has_backend_block(blocks) and getattr(env, "asym_left", 1) > 0
    if use_asym and hasattr(env, "asym_left"):
        env.asym_left -= 1
    if behave:
        # every behavioural history starts from the same past: the main constant computation has been
        # evaluated under both evaluating backends, in this order (so that a verdict does not depend on
        # which histories happened to run earlier in the process, and a replay file stands on its own)
        for bk in (1, 2):
            env.write([init[0], bk, 0])
            env.behave()
    env.write(init)
    log, records = [], []
    blog = []  # behavioural snapshots at the same points (and once before the history)
    if behave:
        blog.append(env.behave())
    shared = {}  # one decorator object per (manager, arg), re-used by nested/repeated blocks
    prebuilt = {}  # manager objects constructed before the history starts, entered later

    def prebuild(bs):
        for b in bs:
            if b.get("form") == "prebuilt":
                prebuilt[id(b)] = env.manager(b["which"], b["arg"])
            prebuild(b["inner"])

    prebuild(blocks)

    def run_block(b):
        pre = env.read()
        rec = {"which": b["which"], "arg": b["arg"], "pre": pre, "inside": None, "post": None,
               "raises": b["raises"]}
        if behave:
            rec["bpre"] = env.behave()
            if use_asym:
                rec["apre"] = env.behave_asym()
            env.nonce = getattr(env, "nonce", 0) + 1  # a constant never evaluated before in this process
            rec["nonce"] = env.nonce
        records.append(rec)

        def body():
            rec["inside"] = env.read()
            log.append(env.read())
            if behave:
                rec["binside"] = env.behave(nonce=rec["nonce"])
                if use_asym:
                    rec["ainside"] = env.behave_asym()
                blog.append(rec["binside"][:3])
            for ib in b["inner"]:
                run_block(ib)
            if b.get("caught"):
                # spox raises one of its eager TypeErrors inside the block and the body CATCHES it: the block is
                # still running, so the entered setting (and the enclosing ones) must still be in force
                for how_, junk_ in [(2, k_) for k_ in range(len(env.JUNK_OPERANDS))] + [(9, 0)]:
                    try:
                        env.raise_somehow(how_, junk_)
                    except (TypeError, ValueError, AssertionError):
                        pass
                    except Exception:  # noqa: BLE001  (InferenceError etc.)
                        pass
                rec["inside2"] = env.read()
            if b.get("poke") is not None:
                # the body switches ITS OWN setting with the public non-scoped setter; on exit the setting from
                # before the block must be back all the same
                env.poke(b["which"], b["poke"])
            if b["raises"]:
                env.raise_somehow(b.get("how", 1), b.get("junk", 0))

        try:
            if b.get("form") == "decorator":
                env.manager(b["which"], b["arg"])(body)()
            elif b.get("form") == "prebuilt":
                with prebuilt[id(b)]:
                    body()
            elif b.get("form") == "shared-decorator":
                key = (b["which"], b["arg"])
                if key not in shared:
                    shared[key] = env.manager(*key)
                shared[key](body)()
            else:
                with env.manager(b["which"], b["arg"]):
                    body()
        finally:
            rec["post"] = env.read()
            log.append(env.read())
            if behave:
                # the constant first evaluated inside the block is evaluated again, byte for byte, after it
                rec["bpost"] = env.behave(nonce=rec.get("nonce"))
                if use_asym:
                    rec["apost"] = env.behave_asym()
                blog.append(rec["bpost"][:3])

    for b in blocks:
        try:
            run_block(b)
        except BaseException:  # noqa: BLE001 - top level of a history catches, like the model's runTop
            pass
    final = env.read()
    if behave:
        return final, log, records, blog
    return final, log, records


def oracle(records):
    """Model-free: the property's own words, judged on the real execution."""
    bad = []
    for r in records:
        for j in range(3):  # attribute a leak to the setting that differs, not to the enclosing block
            if -1 in (r["post"][j], r["pre"][j]):
                continue  # this global is not observable on this tree (the behavioural oracle covers it)
            if r["post"][j] != r["pre"][j]:
                kind = "leak-after-exception" if r["raises"] and j == r["which"] else "leak-after-exit"
                bad.append((MANAGERS[j], kind, r))
        exp = list(r["pre"])
        exp[r["which"]] = r["arg"]
        if r["inside"] is not None and -1 not in r["inside"] and -1 not in exp and r["inside"] != exp:
            bad.append((MANAGERS[r["which"]], "not-in-force-inside", r))
        if r.get("inside2") is not None:
            for j in range(3):
                if -1 not in (r["inside2"][j], exp[j]) and r["inside2"][j] != exp[j]:
                    bad.append((MANAGERS[j], "lost-inside-after-caught-error", dict(r, inside=r["inside2"])))
    return bad


def behaviour_oracle(records, baseline):
    """Model-free: the previously effective setting is back in force *behaviourally* after the block, and
    inside the block the entered setting is what takes effect (baseline = behaviour under each value)."""
    bad = []
    for r in records:
        if "bpre" not in r:
            continue
        for j in range(3):
            if r.get("bpost") is not None and r["bpost"][j] != r["bpre"][j]:
                bad.append((MANAGERS[j], "behaviour-not-restored", r,
                            f"behaves {r['bpre'][j]!r} before the block and {r['bpost'][j]!r} after it"))
        if r.get("bpost") is not None and len(r["bpost"]) > 3 and r["bpost"][3] != r["bpre"][1]:
            bad.append((MANAGERS[1], "behaviour-not-restored", r,
                        f"a computation first made inside the block evaluates to {r['bpost'][3]!r} when repeated after it; "
                        f"the setting in force before the block gives {r['bpre'][1]!r}"))
        if r.get("apost") is not None and r.get("apre") is not None and r["apost"] != r["apre"]:
            bad.append((MANAGERS[1], "behaviour-not-restored", r,
                        f"operators only one backend can evaluate (same operator, element type, shape) propagate {r['apre']!r} "
                        f"before the block and {r['apost']!r} after it"))
        if (r["which"] == 1 and r.get("ainside") is not None and baseline is not None and len(baseline) > 3
                and baseline[3][r["arg"]] is not None and r["ainside"] != baseline[3][r["arg"]]):
            bad.append((MANAGERS[1], "behaviour-not-in-force-inside", r,
                        f"inside the block operators only one backend can evaluate propagate {r['ainside']!r}; under the entered "
                        f"backend alone: {baseline[3][r['arg']]!r}"))
        j = r["which"]
        if r.get("binside") is not None and baseline is not None and r["binside"][j] != baseline[j][r["arg"]]:
            bad.append((MANAGERS[j], "behaviour-not-in-force-inside", r,
                        f"inside the block it behaves {r['binside'][j]!r}; under the entered setting alone: {baseline[j][r['arg']]!r}"))
    return bad


def baselines(env: _Env, ck=None, started=None):
    """Behaviour under each value of each setting, each taken in a fresh interpreter in which nothing else
    was ever selected (so no state remembered from another value can colour it).
    `started` = the result of `baselines_start` (the interpreters were launched earlier and ran meanwhile)."""
    import json

    if started is None:
        started = baselines_start()
    base, asym, jobs, procs = started
    for (j, k), pr in zip(jobs, procs):
        out, err = pr.communicate(timeout=180)
        try:
            got_ = json.loads(out.strip().splitlines()[-1])
            base[j][k] = got_[0]
            if j == 1:
                asym[k] = got_[1]
        except Exception:  # noqa: BLE001
            if ck is not None:
                ck.broken("correspondence", f"C16 baseline of {MANAGERS[j]}={k} not observable", (err or out)[-300:])
    base.append(asym)
    return base


def baselines_start():
    import os
    import subprocess

    base = [[None] * N_ARGS[0], [None] * N_ARGS[1], [None] * (N_ARGS[2] + 1)]
    asym = [None] * N_ARGS[1]  # behave_asym under each backend (returned as base[3])
    code = (
        "import sys, json, warnings\n"
        "warnings.simplefilter('ignore')\n"
        "from harness.props.c16 import _Env\n"
        "j, k = int(sys.argv[1]), int(sys.argv[2])\n"
        "env = _Env()\n"
        "keep = None\n"
        "if not (j == 2 and k == 0):\n"
        "    keep = env.manager(j, k)  # stays referenced: a collected generator manager would run its finally\n"
        "    keep.__enter__()\n"
        "env.prepare_probes()\n"
        "print(json.dumps([env.behave()[j], env.behave_asym() if j == 1 else None]))\n"
    )
    e = dict(os.environ, PYTHONPATH=f"{core.REPO / 'src'}:{core.VERIF}")
    jobs = [(j, k) for j in range(3) for k in range(len(base[j]))]
    procs = [subprocess.Popen([core.PY, "-c", code, str(j), str(k)], stdout=subprocess.PIPE, stderr=subprocess.PIPE,
                              text=True, env=e) for j, k in jobs]
    return base, asym, jobs, procs



# --------------------------------------------------------------------------- settings seen THROUGH lazily constructed objects
# A callable whose body spox runs later - a `to_function` function, a Function class, a subgraph callback, an
# `inline` callback - is "code running" at the time of each CALL: what its body sees must be the settings in force
# at that call, whether the object was created / first used inside a block and is used again after the block exit,
# or the other way round. A setting captured at creation or first use and re-installed later (however balanced)
# violates "affect only code running inside them ... the previously effective setting is back in force".
CARRIER_KINDS = ["to_function", "function-class", "if-callback", "loop-callback", "inline", "vars-created-here", "plain-closure"]


def probe_small(env: _Env):
    """[warning level, backend, dispatch] as `behave` sees them (the three main probes)."""
    return env.behave()[:3]


def make_carrier(env: _Env, kind, tag):
    """-> use(): list of behaviour snapshots taken by the body each time spox ran it during this use."""
    import warnings

    import numpy as np
    from spox import Tensor, argument

    op = env.op
    seen = []

    def body_probe():
        seen.append(probe_small(env))

    if kind == "to_function":
        from spox._function import to_function

        @to_function(f"C16Carrier{tag}", "c16.carrier")
        def fn(x):
            body_probe()
            return [op.identity(x)]

        def use():
            fn(argument(Tensor(np.float32, (2,))))
    elif kind == "function-class":
        from spox._function import _make_function_cls

        def ctor(x):
            body_probe()
            return [op.identity(x)]

        cls = _make_function_cls(ctor, 1, 1, "c16.carrier", 0, f"C16Cls{tag}")

        def use():
            cls(cls.Attributes(), cls.Inputs(argument(Tensor(np.float32, (2,)))))
    elif kind == "if-callback":
        def then_():
            body_probe()
            return [op.const(np.float32(1.0))]

        def else_():
            body_probe()
            return [op.const(np.float32(2.0))]

        def use():
            op.if_(argument(Tensor(np.bool_, ())), then_branch=then_, else_branch=else_)
    elif kind == "loop-callback":
        def loop_body(i, c, acc):
            body_probe()
            return [c, op.add(acc, acc)]

        def use():
            op.loop(argument(Tensor(np.int64, ())), v_initial=[argument(Tensor(np.float32, ()))], body=loop_body)
    elif kind == "inline":
        from onnx import TensorProto, helper

        from spox import inline

        g = helper.make_graph([helper.make_node("Cast", ["x"], ["y"], to=TensorProto.STRING)], "g",
                              [helper.make_tensor_value_info("x", TensorProto.FLOAT, [])],
                              [helper.make_tensor_value_info("y", TensorProto.STRING, [])])
        call = inline(helper.make_model(g, opset_imports=[helper.make_opsetid("", 17)]))

        def use():
            # no user code runs; what an inlined model computes for a constant is decided by the backend in force
            y = call(env.p_const)["y"]
            val = getattr(y, "_value", None)
            seen.append([None, "no-value" if val is None else str(val.value.tolist()), None])
    elif kind == "vars-created-here":
        # Vars (arguments, a constant) that come into being where the carrier is created - possibly inside a block -
        # and are operated on later: what `a + b` / a warning-prone construction does is decided at the time of use
        with warnings.catch_warnings():
            warnings.simplefilter("ignore")
            a, b, i64, unk = (argument(Tensor(np.float32, ())), argument(Tensor(np.float32, ())), argument(Tensor(np.int64, ())),
                              argument(Tensor(np.float32)))

        def use():
            def disp(f):
                try:
                    r = f()
                    return r.type.dtype.name if hasattr(r, "type") else type(r).__name__
                except Exception as e:  # noqa: BLE001
                    return type(e).__name__

            with warnings.catch_warnings(record=True) as w:
                warnings.simplefilter("always")
                try:
                    op.abs(unk)
                    third = str(min(len(w), 1))
                except Exception as e:  # noqa: BLE001
                    third = "!" + type(e).__name__
            direct_lvl = probe_small(env)[0]
            seen.append([direct_lvl[:2] + third, None, "|".join([disp(lambda: a + b), disp(lambda: i64 + a), disp(lambda: a + 2.5)])])
    else:  # a plain Python closure: the control (nothing of spox in between)
        def use():
            body_probe()

    def run():
        del seen[:]
        with warnings.catch_warnings():
            warnings.simplefilter("ignore")
            use()
        return [list(x) for x in seen]

    return run


def gen_carrier_scenario(rng: random.Random, k):
    """blocks: a small forest over one or two settings; the carrier is created `create` = 'before' | 'first-body'
    and used at every point (before the history if created before; on entering each body; after each exit)."""
    which = k % 3
    kind = CARRIER_KINDS[(k // 3) % len(CARRIER_KINDS)]
    def arg(w, avoid=None):
        vals = [v for v in range(1 if w == 2 else 0, N_ARGS[w] + (1 if w == 2 else 0)) if v != avoid]
        return rng.choice(vals)
    a1 = arg(which)
    shape = rng.choice(["single", "nested-same", "successive", "nested-other"])
    blk = lambda w, a, inner=(), raises=False: {"which": w, "arg": a, "inner": list(inner), "raises": raises}  # noqa: E731
    if shape == "single":
        blocks = [blk(which, a1, raises=rng.random() < 0.3)]
    elif shape == "nested-same":
        blocks = [blk(which, a1, [blk(which, arg(which, a1), raises=rng.random() < 0.3)])]
    elif shape == "successive":
        blocks = [blk(which, a1), blk(which, arg(which, a1))]
    else:
        o = (which + 1 + rng.randrange(2)) % 3
        blocks = [blk(o, arg(o), [blk(which, a1)])]
    init = [rng.randrange(4), rng.randrange(1, 3), 0]
    if which == 2 and rng.random() < 0.5:
        init[2] = arg(2, a1)
    return {"kind": kind, "create": rng.choice(["before", "first-body", "first-body"]), "init": init, "blocks": blocks}


def run_carrier_scenario(env: _Env, sc, tag=0):
    """-> list of (point, settings read, direct behaviour, [behaviour seen by the carrier's body ...])"""
    env.write(sc["init"])
    out = []
    carrier = [None]

    def use(point):
        if carrier[0] is None:
            carrier[0] = make_carrier(env, sc["kind"], tag)
        direct = probe_small(env)
        out.append((point, env.read(), direct, carrier[0]()))

    if sc["create"] == "before":
        use("before any block")

    def run_block(b, depth):
        try:
            with env.manager(b["which"], b["arg"]):
                use(f"inside {MANAGERS[b['which']]}={b['arg']}")
                for ib in b["inner"]:
                    run_block(ib, depth + 1)
                if b["inner"]:
                    use(f"inside {MANAGERS[b['which']]}={b['arg']} after the inner block")
                if b["raises"]:
                    raise _Boom("body")
        except _Boom:
            pass
        use(f"after {MANAGERS[b['which']]}={b['arg']}")

    for b in sc["blocks"]:
        run_block(b, 0)
    return out


def carrier_oracle(sc, records):
    """Model-free: every time spox ran the carrier's body, the body saw the behaviour that code written directly at
    the call site sees (the settings in force at the call)."""
    bad = []
    for point, glob, direct, seen in records:
        for snap in seen:
            for j in range(3):
                if snap[j] is not None and snap[j] != direct[j]:
                    bad.append((MANAGERS[j], f"stale-inside-{sc['kind']}",
                                f"the body of a {sc['kind']} object used {point} behaves {snap[j]!r}; code at the call site behaves "
                                f"{direct[j]!r} (settings {glob}; object created {sc['create']})"))
                    break
    return bad


# --------------------------------------------------------------------------- settings as decorators on GENERATOR functions
# Reading taken by the check (stated in design.d/C16.md): a manager used as a decorator wraps the CALL of the
# decorated function. For a generator function that call only creates the generator, so the setting is in
# force neither in the generator's body nor in the caller between two next() calls: every probe reads the
# settings that were in force before. Whatever the reading, after all generators have finished or been
# closed - in any order - the previous settings must be back.
def gen_generator_scenario(rng: random.Random):
    n = rng.randrange(1, 4)
    same = rng.randrange(3)
    gens = []
    for _ in range(n):
        w = same if rng.random() < 0.6 else rng.randrange(3)
        gens.append({"which": w, "arg": rng.randrange(1 if w == 2 else 0, N_ARGS[w] + (1 if w == 2 else 0)),
                     "yields": rng.randrange(1, 4)})
    sched = []
    for i, g in enumerate(gens):
        k = g["yields"] + 1
        if rng.random() < 0.3:
            k = rng.randrange(1, k)  # abandoned early: closed at the end (or where "close" is scheduled)
        sched += [i] * k
    rng.shuffle(sched)
    closes = [i for i in range(n) if rng.random() < 0.3]
    rng.shuffle(closes)
    return {"init": [rng.randrange(4), rng.randrange(3), rng.randrange(5)], "gens": gens,
            "schedule": sched, "closes": closes}


FIXED_GENERATOR_SCENARIOS = [
    # two interleaved generators of the same setting, finishing in the order they started (non-LIFO)
    {"init": [2, 1, 0], "gens": [{"which": w, "arg": a1, "yields": 1}, {"which": w, "arg": a2, "yields": 1}],
     "schedule": [0, 1, 0, 1], "closes": []}
    for w, a1, a2 in ((0, 0, 3), (1, 0, 2), (2, 1, 4))
] + [
    {"init": [2, 1, 0], "gens": [{"which": 1, "arg": 2, "yields": 2}], "schedule": [0, 0, 0], "closes": []},
    {"init": [1, 2, 3], "gens": [{"which": 2, "arg": 1, "yields": 3}, {"which": 0, "arg": 0, "yields": 1}],
     "schedule": [0, 1, 0], "closes": [0, 1]},
]


def run_generator_scenario(env: _Env, sc):
    """-> (final, probes) ; probes = [(where, settings read)] in the generators' bodies and in the caller."""
    env.write(sc["init"])
    probes = []

    def make(i, g):
        @env.manager(g["which"], g["arg"])
        def f():
            for k in range(g["yields"]):
                probes.append((f"body of generator {i}", env.read()))
                yield k
            probes.append((f"body of generator {i}", env.read()))
        return f

    objs = []
    for i, g in enumerate(sc["gens"]):
        objs.append(make(i, g)())
        probes.append((f"caller after creating generator {i}", env.read()))
    for i in sc["schedule"]:
        try:
            next(objs[i])
        except StopIteration:
            pass
        probes.append((f"caller after next(generator {i})", env.read()))
    for i in list(sc["closes"]) + list(range(len(objs))):
        try:
            objs[i].close()
        except Exception:  # noqa: BLE001
            pass
    final = env.read()
    return final, probes


def generator_oracle(sc, final):
    return [(MANAGERS[j], "leak-after-generators", f"settings {sc['init']} before, {final} after all decorated generators finished or were closed")
            for j in range(3) if final[j] != -1 and final[j] != sc["init"][j]]


def forests(n):
    """All ordered forests with n nodes, as nested lists."""
    if n == 0:
        yield []
        return
    for k in range(1, n + 1):  # size of first tree
        for first_children in forests(k - 1):
            for rest in forests(n - k):
                yield [first_children] + rest


def label(shape, labels):
    """Attach (which, raises) labels to a forest shape, consuming `labels` in preorder."""
    out = []
    for children in shape:
        which, raises = next(labels)
        out.append({"which": which, "raises": raises, "inner": label(children, labels)})
    return out


def decorate(blocks, rng: random.Random):
    for b in blocks:
        b["arg"] = rng.randrange(1 if b["which"] == 2 else 0, N_ARGS[b["which"]])
        b["form"] = rng.choice(["with", "decorator", "shared-decorator", "prebuilt"])
        b["how"] = rng.choice([1, 1, 2, 3, 4, 5, 6, 7, 8])
        if b["which"] < 2 and rng.random() < 0.2:
            b["poke"] = rng.randrange(N_ARGS[b["which"]])
        if rng.random() < 0.3:
            b["caught"] = True
        b["junk"] = rng.randrange(7)
        decorate(b["inner"], rng)


def gen_exhaustive(maxn, rng):
    for n in range(1, maxn + 1):
        for shape in forests(n):
            for labs in itertools.product(itertools.product(range(3), [False, True]), repeat=n):
                blocks = label(shape, iter(labs))
                decorate(blocks, rng)
                yield blocks


def gen_random(rng: random.Random, size):
    def mk(depth, budget):
        out = []
        while budget[0] > 0 and rng.random() < 0.75:
            budget[0] -= 1
            b = {"which": rng.randrange(3), "raises": rng.random() < 0.4, "inner": []}
            if depth < 5:
                b["inner"] = mk(depth + 1, budget)
            out.append(b)
        return out

    blocks = mk(0, [size])
    decorate(blocks, rng)
    return blocks


def strip(blocks):
    return [
        {"which": b["which"], "arg": b["arg"], "raises": b["raises"], "inner": strip(b["inner"])}
        for b in blocks
    ]


def depth(blocks):
    return 0 if not blocks else 1 + max(depth(b["inner"]) for b in blocks)


def size(blocks):
    return sum(1 + size(b["inner"]) for b in blocks)


def run(ck: core.Check):
    from translator import ctx_ir

    info = ctx_ir.generate()
    ck.cov["generated_ir"] = {k: v["ir"] for k, v in info.items()}
    try:
        from translator import ctx_writes

        ck.cov["write_sites"] = ctx_writes.generate()
    except Exception as e:  # noqa: BLE001
        ck.broken("generated", "C16 write-site inventory", f"{type(e).__name__}: {e}")
    try:
        from translator import module_state

        ck.cov["module_state"] = module_state.generate()
    except Exception as e:  # noqa: BLE001
        ck.broken("generated", "C16 module-state inventory", f"{type(e).__name__}: {e}")
    ck.lean(["SpoxModel.Props.C16"], audit="SpoxModel.Audit.C16")
    if ck.thorough:
        ck.leanchecker(["SpoxModel.Props.C16"])

    try:
        env = _Env()
        saved = env.read()
    except Exception as e:  # noqa: BLE001
        ck.broken("correspondence", "C16 spox._future not observable", f"{type(e).__name__}: {e}")
        return
    try:
        early = baselines_start()  # 12 fresh interpreters, running while the histories below are executed
    except Exception:  # noqa: BLE001
        early = None
    rng = ck.rng
    cases = []
    maxn = ck.pick(3, 4)
    for blocks in gen_exhaustive(maxn, rng):
        cases.append(blocks)
    n_exh = len(cases)
    for _ in range(ck.pick(300, 3000)):
        cases.append(gen_random(rng, rng.randrange(1, 12)))
    inits = [[rng.randrange(4), rng.randrange(3), rng.randrange(5)] for _ in cases]

    try:
        drv = ck.driver()
        model = drv.ask_many(
            "C16", [{"init": i, "blocks": strip(b)} for b, i in zip(cases, inits)]
        )
    except Exception as e:  # noqa: BLE001
        ck.broken("correspondence", "C16 driver", str(e))
        model = [None] * len(cases)

    stats = {"raising_blocks": 0, "decorator_form": 0, "max_depth": 0, "spox_typeerror_bodies": 0}
    mismatches = 0
    for blocks, init, m in zip(cases, inits, model):
        try:
            final, log, records = run_real(env, blocks, init)
        except Exception as e:  # noqa: BLE001
            mismatches += 1
            if mismatches <= 3:
                ck.broken("correspondence", "C16 history not observable", f"{strip(blocks)}: {type(e).__name__}: {e}")
            continue
        key = ("hist", repr(strip(blocks)))
        ck.count(key if size(blocks) >= 2 or any(b["raises"] for b in blocks) else None)
        stats["max_depth"] = max(stats["max_depth"], depth(blocks))
        for r in records:
            stats["raising_blocks"] += int(r["raises"])
        ck.sample({"init": init, "blocks": blocks, "real_final": final, "real_log": log[:6]}, 3)
        # model-free oracle
        for mgr, kind, rec in oracle(records):
            ck.failure(
                f"{mgr}:{kind}",
                f"{mgr}: settings before block {rec['pre']}, after {rec['post']} (inside {rec['inside']})",
                {"init": init, "blocks": blocks},
            )
        # correspondence with the model
        if m is not None:
            if "error" in m or m["glob"] != final or m["log"] != log:
                mismatches += 1
                if mismatches <= 3:
                    ck.broken(
                        "correspondence",
                        "C16 model-vs-implementation log",
                        f"case={strip(blocks)} init={init} model={m} real_final={final} real_log={log}",
                    )
    env.write(saved)

    # ---------------------------------------------------------------- block PROGRAMS (round 10): setters / raise / try anywhere
    # model side: runCmds over the generated IR (Drv/C16 "prog"), proved equal to the IR-free specification
    # (programs_refine_spec); real side: the same program on the real managers and public setters
    pstats = {"programs": 0, "exhaustive_up_to_commands": 0, "exhaustive": 0, "mismatches": 0, "raised_at_top": 0,
              "with_records": 0, "max_depth": 0, "max_size": 0, "ops": {}, "blocks_with_own_setter_inside": 0}
    try:
        from harness import lib_ctxprog as cp

        set2 = 2 not in env.unobservable and env.NI is not None
        pmax = ck.pick(3, 4)
        progs = list(cp.gen_exhaustive(pmax, rng, set2))
        pstats["exhaustive_up_to_commands"], pstats["exhaustive"] = pmax, len(progs)
        progs = [cp.instrument(p_) for p_ in progs]
        progs += [cp.gen_random(rng, rng.randrange(2, 16), set2) for _ in range(ck.pick(300, 6000))]
        pinits = [[rng.randrange(4), rng.randrange(3), rng.randrange(5)] for _ in progs]
        try:
            pmodel = ck.driver().ask_many("C16", [{"init": i, "prog": cp.strip(p_)} for p_, i in zip(progs, pinits)])
        except Exception as e:  # noqa: BLE001
            ck.broken("correspondence", "C16 driver", str(e))
            pmodel = [None] * len(progs)
        for prog, init, m in zip(progs, pinits, pmodel):
            try:
                final, log, raised, records = cp.run_real(env, prog, init)
            except Exception as e:  # noqa: BLE001
                pstats["mismatches"] += 1
                if pstats["mismatches"] <= 3:
                    ck.broken("correspondence", "C16 program not observable", f"{cp.strip(prog)}: {type(e).__name__}: {e}")
                continue
            pstats["programs"] += 1
            pstats["raised_at_top"] += int(raised)
            pstats["with_records"] += len(records)
            pstats["max_depth"] = max(pstats["max_depth"], cp.depth(prog))
            pstats["max_size"] = max(pstats["max_size"], cp.size(prog))
            cp.count_ops(prog, pstats["ops"])
            pstats["blocks_with_own_setter_inside"] += sum(
                1 for r in records if r["pokes_post"] and r["pokes_post"][r["which"]] != r["pokes_pre"][r["which"]])
            ck.count(("prog", repr(cp.strip(prog))))
            if pstats["programs"] % 400 == 1:
                ck.sample({"init": init, "prog": cp.strip(prog), "real_final": final, "real_log": log[:6], "raised": raised}, 3)
            for mgr, kind, rec in cp.oracle(records):
                key_ = f"{mgr}:{kind}"
                cprog_ = prog
                if not any(x["key"] == key_ for x in ck.failures):
                    try:  # first witness of this kind: shrink it (the failure is re-judged on every candidate)
                        small_ = cp.shrink(env, prog, init, key_)
                        _, _, _, recs_ = cp.run_real(env, small_, init)
                        hit_ = [r_ for m_, k_, r_ in cp.oracle(recs_) if f"{m_}:{k_}" == key_]
                        if hit_:
                            cprog_, rec = small_, hit_[0]
                    except Exception:  # noqa: BLE001
                        pass
                ck.failure(f"{mgr}:{kind}",
                           f"{mgr}: settings before block {rec['pre']}, after {rec['post']} (on entering the body {rec['inside']}, at its end {rec.get('end')}; "
                           f"block over {MANAGERS[rec['which']]}={rec['arg']}, setter calls while open "
                           f"{[b_ - a_ for a_, b_ in zip(rec['pokes_pre'], rec['pokes_post'])]})",
                           {"init": init, "prog": cprog_})
            if m is not None and -1 not in final:
                if "error" in m or m["glob"] != final or m["log"] != log or m["raised"] != raised:
                    pstats["mismatches"] += 1
                    if pstats["mismatches"] <= 3:
                        ck.broken("correspondence", "C16 model-vs-implementation program (runCmds over the generated IR)",
                                  f"prog={cp.strip(prog)} init={init} model={m} real_final={final} real_log={log} real_raised={raised}")
    except Exception as e:  # noqa: BLE001
        ck.broken("correspondence", "C16 programs not observable", f"{type(e).__name__}: {e}")
    finally:
        env.write(saved)
    ck.cov["block_programs"] = pstats
    ck.log("programs done")

    for k_, why in sorted(env.unobservable.items(), key=str):
        ck.broken("correspondence", f"C16 setting global not observable ({MANAGERS[k_] if isinstance(k_, int) else k_})", why)

    # ---------------------------------------------------------------- managers as decorators on generator functions
    gstats = {"scenarios": 0, "interleaved": 0, "probes": 0, "reading_mismatches": 0}
    try:
        scs = list(FIXED_GENERATOR_SCENARIOS) + [gen_generator_scenario(rng) for _ in range(ck.pick(200, 2000))]
        try:
            gmodel = ck.driver().ask_many("C16", [
                {"init": sc["init"], "blocks": [{"which": g["which"], "arg": g["arg"], "raises": False, "inner": []} for g in sc["gens"]]}
                for sc in scs])
        except Exception as e:  # noqa: BLE001
            ck.broken("correspondence", "C16 driver", str(e))
            gmodel = [None] * len(scs)
        for sc, m in zip(scs, gmodel):
            final, probes = run_generator_scenario(env, sc)
            env.write(saved)
            gstats["scenarios"] += 1
            gstats["interleaved"] += int(len(sc["gens"]) > 1)
            gstats["probes"] += len(probes)
            ck.count(("generators", repr(sc)))
            for mgr, kind, what in generator_oracle(sc, final):
                ck.failure(f"{mgr}:{kind}", f"{mgr}: {what}", {"generators": sc})
            want = m["glob"] if m is not None and "error" not in m else sc["init"]
            off = [(w, r) for w, r in probes if r != want] + ([("end", final)] if final != want else [])
            if off:
                gstats["reading_mismatches"] += 1
                if gstats["reading_mismatches"] <= 3:
                    ck.broken("correspondence", "C16 decorated generator functions: a decorator wraps the creating call only",
                              f"{sc}: settings {off[0][1]} read in the {off[0][0]}; the model (block around the call that creates the generator) says {want}")
    except Exception as e:  # noqa: BLE001
        ck.broken("correspondence", "C16 generator scenarios not observable", f"{type(e).__name__}: {e}")
    finally:
        env.write(saved)
    ck.cov["decorated_generators"] = gstats
    ck.log("globals histories + decorated generators done")

    # ---------------------------------------------------------------- behaviour: what the settings DO, not what the globals read
    bstats = {"histories": 0, "behaviour_snapshots": 0, "mismatches": 0}
    try:
        env.prepare_probes()
        env.asym_left = ck.pick(18, 100)
        base = baselines(env, ck, early)
        ck.cov["behaviour_baselines"] = {MANAGERS[j]: base[j] for j in range(3)}
        ck.cov["behaviour_baselines"]["asymmetric_operators_per_backend"] = base[3] if len(base) > 3 else None
        if len(base) > 3 and None not in base[3] and len(set(base[3][1:])) < 2:
            ck.broken("generator", "C16 no operator separates the two evaluating backends", str(base[3]))
        for j in range(3):
            if None not in base[j] and len(set(map(str, base[j]))) < len(base[j]):
                # the probes must tell the values of a setting apart, or the behavioural tie says nothing
                ck.broken("generator", f"C16 behavioural probes do not separate the values of {MANAGERS[j]}", str(base[j]))
        fixed = []
        for w_, n_ in ((0, N_ARGS[0]), (1, N_ARGS[1]), (2, N_ARGS[2] + 1)):
            for a_ in range(1 if w_ == 2 else 0, n_):
                for i_ in range(n_):
                    if i_ != a_:
                        init_ = [2, 1, 0]
                        init_[w_] = i_
                        for raises_ in (False, True):
                            fixed.append(([{"which": w_, "arg": a_, "raises": raises_, "inner": [], "form": "with", "how": 1}], init_))
        small = [(b, i) for b, i in zip(cases, inits) if size(b) <= 2][: ck.pick(40, 600)]
        rnd = [(gen_random(rng, rng.randrange(2, 7)), [rng.randrange(4), rng.randrange(3), rng.randrange(5)])
               for _ in range(ck.pick(20, 400))]
        bcases = fixed + small + rnd
        try:
            bmodel = ck.driver().ask_many("C16", [{"init": i, "blocks": strip(b)} for b, i in bcases])
        except Exception as e:  # noqa: BLE001
            ck.broken("correspondence", "C16 driver", str(e))
            bmodel = [None] * len(bcases)
        for k_hist, ((blocks, init), m) in enumerate(zip(bcases, bmodel)):
            env.asym_len = 2 + k_hist
            final, log, records, blog = run_real(env, blocks, init, behave=True)
            bstats["histories"] += 1
            bstats["behaviour_snapshots"] += len(blog)
            ck.count(("behaviour", repr(init), repr(strip(blocks))))
            for mgr, kind, rec, what in behaviour_oracle(records, base):
                ck.failure(f"{mgr}:{kind}", f"{mgr}: {what} (block enters {rec['arg']}, globals before/after {rec['pre']}/{rec['post']})",
                           {"init": init, "blocks": blocks, "behaviour": True, "asym_len": env.asym_len})
            if m is not None and "error" not in m:
                want = [init] + m["log"]
                if len(want) != len(blog):
                    ck.broken("correspondence", "C16 behaviour snapshots", f"{len(blog)} real vs {len(want)} model snapshots for {strip(blocks)}")
                    continue
                for k, (trip, bh) in enumerate(zip(want, blog)):
                    exp = [base[j][trip[j]] for j in range(3)]
                    if exp != bh:
                        bstats["mismatches"] += 1
                        if bstats["mismatches"] <= 3:
                            ck.broken("correspondence", "C16 effective behaviour vs the setting the model says is in force",
                                      f"case={strip(blocks)} init={init} snapshot {k}: model settings {trip} => {exp}, real behaviour {bh}")
                        break
    except Exception as e:  # noqa: BLE001
        ck.broken("correspondence", "C16 behavioural probes not observable", f"{type(e).__name__}: {e}")
    finally:
        env.write(saved)
    ck.cov["behaviour"] = bstats
    ck.log("behavioural histories done")

    # ---------------------------------------------------------------- settings seen through lazily constructed objects
    cstats = {"scenarios": 0, "uses": 0, "body_runs": 0, "kinds": {}, "not_observable": {}}
    try:
        if not hasattr(env, "p_const"):
            env.prepare_probes()
        n_car = ck.pick(35, 210)
        scs_ = [gen_carrier_scenario(rng, k) for k in range(n_car)]
        try:
            cmodel = ck.driver().ask_many("C16", [{"init": sc["init"], "blocks": strip(sc["blocks"])} for sc in scs_])
        except Exception as e:  # noqa: BLE001
            ck.broken("correspondence", "C16 driver", str(e))
            cmodel = [None] * n_car
        for k in range(n_car):
            sc = scs_[k]
            try:
                recs = run_carrier_scenario(env, sc, tag=k)
            except Exception as e:  # noqa: BLE001
                cstats["not_observable"].setdefault(sc["kind"], f"{type(e).__name__}: {e}"[:200])
                continue
            finally:
                env.write(saved)
            cstats["scenarios"] += 1
            cstats["uses"] += len(recs)
            cstats["body_runs"] += sum(len(r[3]) for r in recs)
            cstats["kinds"][sc["kind"]] = cstats["kinds"].get(sc["kind"], 0) + 1
            ck.count(("carrier", repr(sc)))
            for mgr, kind, what in carrier_oracle(sc, recs):
                ck.failure(f"{mgr}:{kind}", f"{mgr}: {what}", {"carrier": sc, "tag": k})
            # correspondence: the settings read at the use points on entering a body / after an exit are the model's snapshots
            m_ = cmodel[k]
            if m_ is not None and "error" not in m_:
                real_log = [r[1] for r in recs if not r[0].startswith("before") and "after the inner block" not in r[0]]
                if real_log != m_["log"] and -1 not in [x for r_ in real_log for x in r_]:
                    cstats["model_mismatches"] = cstats.get("model_mismatches", 0) + 1
                    if cstats["model_mismatches"] <= 3:
                        ck.broken("correspondence", "C16 carrier scenario: settings at the use points vs the model's snapshots",
                                  f"{sc}: model {m_['log']} real {real_log}")
        for kind_, why in cstats["not_observable"].items():
            ck.broken("correspondence", f"C16 carrier {kind_} not observable", why)
        if cstats["body_runs"] < cstats["scenarios"]:
            ck.broken("generator", "C16 carrier scenarios starved", str(cstats))
    except Exception as e:  # noqa: BLE001
        ck.broken("correspondence", "C16 carrier scenarios not observable", f"{type(e).__name__}: {e}")
    finally:
        env.write(saved)
    ck.cov["carriers"] = cstats
    ck.log("carrier scenarios done")


    ck.cov.update(
        {
            "correspondence_cases": len(cases),
            "correspondence_mismatches": mismatches,
            "exhaustive_histories_up_to_blocks": maxn,
            "exhaustive_histories": n_exh,
            "distribution": stats,
        }
    )
    ck.exhaustive = False
    ck.rule = (
        f"all block forests with <= {maxn} blocks x 3 managers x raise/normal (args, with/decorator form, "
        "exception class seeded-random among plain / KeyError / spox's eager TypeError / KeyboardInterrupt / StopIteration / "
        "GeneratorExit / SystemExit / RuntimeError-with-cause; a fifth of the blocks call the public setter of their own setting "
        "at the end of the body) + seeded random histories up to 11 blocks/depth 6; "
        "non-trivial = at least 2 blocks or a raising body; distinct by (shape, managers, args, outcomes)"
    )
    ck.assumptions += [
        "CPython's contextlib.contextmanager/ContextDecorator semantics as modelled in Model/Ctx.lean (exception thrown into the generator at yield)",
        "translator/ctx_ir.py's statement classification (validated by the log correspondence on every run)",
    ]


def replay(ck: core.Check, doc) -> bool:
    env = _Env()
    saved = env.read()
    case = doc["case"]
    try:
        if case.get("prog") is not None:
            from harness import lib_ctxprog as cp

            _, _, _, records = cp.run_real(env, case["prog"], case["init"])
            bad5 = cp.oracle(records)
            for m_, k_, r_ in bad5:
                print(f"{m_}: {k_}: before {r_['pre']} inside {r_['inside']} after {r_['post']}")
            return bool(bad5)
        if case.get("carrier"):
            env.prepare_probes()
            recs = run_carrier_scenario(env, case["carrier"], tag=case.get("tag", 0))
            bad4 = carrier_oracle(case["carrier"], recs)
            for m_, k_, w_ in bad4:
                print(f"{m_}: {k_}: {w_}")
            return bool(bad4)
        if case.get("generators"):
            final, _ = run_generator_scenario(env, case["generators"])
            bad3 = generator_oracle(case["generators"], final)
            for m_, k_, w_ in bad3:
                print(f"{m_}: {k_}: {w_}")
            return bool(bad3)
        if case.get("behaviour"):
            env.prepare_probes()
            env.asym_len = case.get("asym_len", 2)
            base = baselines(env)
            _, _, records, _ = run_real(env, case["blocks"], case["init"], behave=True)
            bad = [(m, k, r) for m, k, r, w in behaviour_oracle(records, base)]
            for m, k, r, w in behaviour_oracle(records, base):
                print(f"{m}: {k}: {w}")
            bad += oracle(records)
        else:
            _, _, records = run_real(env, case["blocks"], case["init"])
            bad = oracle(records)
    finally:
        env.write(saved)
    for mgr, kind, rec in bad:
        print(f"{mgr}: {kind}: before {rec['pre']} inside {rec['inside']} after {rec['post']}")
    return bool(bad)
