"""C13 — types are canonical; compatibility and broadcasting are exact and sound.

tie G : translator/dtypes.py runs Tensor(s)._elem_type / dtype_to_tensor_type / tensor_type_to_dtype over
        every spelling and every ONNX code -> Generated/Dtypes.lean (decide-theorems re-proved each run)
proof  : Props/C13.lean
tie H  : exhaustive bounded correspondence of the model's subtype / Shape.le / broadcast / toOnnx /
         fromOnnx (driver) with the real _subtype / Shape.__le__ / Shape.broadcast / _to_onnx /
         _from_onnx, and of npBroadcast with np.broadcast_shapes
oracle : the statement's own definitions computed in Python without the model:
         real protobuf round trip; pairwise equality of the types of every spelling; _subtype vs a
         brute-force search for a common conforming concrete value; Shape.broadcast vs
         np.broadcast_shapes over all concretisations; TypeError at the inline call boundary.
"""
from __future__ import annotations

import itertools
import os
import warnings

from harness import core

DIMS = [0, 1, 2, 3, "N", "M", None]
CONC = [0, 1, 2, 3]
WRAPS = ["s", "o", "ss", "so", "os", "oo"]  # outermost first


# --------------------------------------------------------------------------- domain
def shapes_upto(rank):
    out = [None]
    for r in range(rank + 1):
        out.extend(list(p) for p in itertools.product(DIMS, repeat=r))
    return out


def wrap(ty, w):
    for c in reversed(w):
        ty = [c, ty]
    return ty


def conc_shapes(rank):
    return [tuple(p) for r in range(rank + 1) for p in itertools.product(CONC, repeat=r)]


class Env:
    """Everything that touches the real spox; types are passed around as JSON-like lists whose
    element type is a *spelling name* of translator.dtypes.spellings()."""

    def __init__(self, table):
        import numpy as np
        import onnx
        import spox
        from spox import _shape, _type_system
        from translator import dtypes

        self.np, self.onnx, self.spox = np, onnx, spox
        self.ts, self.sh = _type_system, _shape
        self.spell = dict(dtypes.spellings())
        self.classes = table["classes"]
        self.table = table

    # ---- spelling-named JSON -> real type
    def mk(self, ty):
        k = ty[0]
        if k == "any":
            return self.ts.Type()
        if k == "t":
            s = ty[2]
            if len(ty) > 3:  # the shape argument in one of its simple spellings (list, '' for None, ...)
                return self.ts.Tensor(self.spell[ty[1]], spell_shape(self, s, ty[3])[0])
            return self.ts.Tensor(self.spell[ty[1]], None if s is None else tuple(s))
        if k == "s":
            return self.ts.Sequence(self.mk(ty[1]))
        if k == "o":
            return self.ts.Optional(self.mk(ty[1]))
        raise ValueError(ty)

    def cid(self, cls):
        return self.classes.index(cls) if cls in self.classes else -1

    # ---- real type -> class-id JSON (what the driver speaks)
    def enc(self, t):
        ts = self.ts
        if type(t) is ts.Type:
            return ["any"]
        if isinstance(t, ts.Tensor):
            sh = t.shape  # public: the simple shape
            cls = getattr(t, "_elem_type", None) or t.dtype.type
            return ["t", self.cid(cls), None if sh is None else list(sh)]
        if isinstance(t, ts.Sequence):
            return ["s", self.enc(t.elem_type)]
        if isinstance(t, ts.Optional):
            return ["o", self.enc(t.elem_type)]
        raise ValueError(t)

    # ---- real TypeProto <-> proto JSON
    def enc_proto(self, p):
        if p.HasField("tensor_type"):
            tt = p.tensor_type
            sh = None
            if tt.HasField("shape"):
                sh = []
                for d in tt.shape.dim:
                    if d.HasField("dim_value"):
                        sh.append(int(d.dim_value))
                    elif d.HasField("dim_param"):
                        sh.append(str(d.dim_param))
                    else:
                        sh.append(None)
            return ["t", int(tt.elem_type), sh]
        if p.HasField("sequence_type"):
            return ["s", self.enc_proto(p.sequence_type.elem_type)]
        if p.HasField("optional_type"):
            return ["o", self.enc_proto(p.optional_type.elem_type)]
        return ["empty"]

    def mk_proto(self, j):
        onnx = self.onnx
        p = onnx.TypeProto()
        if j[0] == "t":
            p.tensor_type.elem_type = j[1]
            if j[2] is not None:
                p.tensor_type.shape.dim.extend([])
                p.tensor_type.shape.SetInParent()
                for d in j[2]:
                    dim = p.tensor_type.shape.dim.add()
                    if isinstance(d, int):
                        dim.dim_value = d
                    elif isinstance(d, str):
                        dim.dim_param = d
        elif j[0] == "s":
            p.sequence_type.elem_type.CopyFrom(self.mk_proto(j[1]))
        elif j[0] == "o":
            p.optional_type.elem_type.CopyFrom(self.mk_proto(j[1]))
        return p


# --------------------------------------------------------------------------- own definitions (oracle side)
class NotObservable(Exception):
    """The harness could not reach an internal it observes (renamed / removed / changed signature)."""


def internal(obj, name):
    try:
        return getattr(obj, name)
    except AttributeError as e:
        raise NotObservable(f"{type(obj).__name__}.{name}: {e}") from e


def onnx_code_of(env, obj):
    """ONNX element code of a spelling, computed without spox."""
    np, onnx = env.np, env.onnx
    with warnings.catch_warnings():
        warnings.simplefilter("ignore")
        d = np.dtype(obj)
    if d.kind == "U":
        return int(onnx.TensorProto.STRING)
    if d.byteorder in "<>":
        d = d.newbyteorder("=")
    return int(onnx.helper.np_dtype_to_tensor_dtype(d))


def conforms_dims(conc, shape):
    """The statement: a concrete shape conforms iff rank unknown, or same rank and constants agree."""
    if shape is None:
        return True
    if len(conc) != len(shape):
        return False
    return all((not isinstance(d, int)) or d == c for c, d in zip(conc, shape))


def skeleton(ty):
    """(wrappers, leaf) of a spelling-named type."""
    w = ""
    while ty[0] in ("s", "o"):
        w += ty[0]
        ty = ty[1]
    return w, ty


class Universe:
    """Concrete tensor values (element type, concrete dims) as bit positions."""

    def __init__(self, elem_codes, rank):
        self.values = [(e, s) for e in elem_codes for s in conc_shapes(rank)]

    def mask(self, elem_code, shape):
        m = 0
        for i, (e, s) in enumerate(self.values):
            if e == elem_code and conforms_dims(s, shape):
                m |= 1 << i
        return m


def aspect(a, b):
    """Which part of two spelling-named types differs first (classifier for failure keys)."""
    wa, la = skeleton(a)
    wb, lb = skeleton(b)
    if wa != wb:
        return "constructor"
    if la[0] == "any" or lb[0] == "any":
        return "wildcard"
    if la[1] != lb[1]:
        return "element-type"
    sa, sb = la[2], lb[2]
    if sa is None or sb is None:
        return "unknown-rank"
    if len(sa) != len(sb):
        return "rank"
    for x, y in zip(sa, sb):
        if isinstance(x, int) and isinstance(y, int) and x != y:
            return "constant-dim"
    if any(not isinstance(x, int) or not isinstance(y, int) for x, y in zip(sa, sb)):
        return "unknown-dim"
    return "equal"


# --------------------------------------------------------------------------- single-case oracles (used by run and replay)
def check_roundtrip(env: Env, ty):
    """None if fine, else (key, what). Through the anchored methods _to_onnx / _from_onnx."""
    try:
        t = env.mk(ty)
    except Exception as e:  # noqa: BLE001
        return ("roundtrip:construct-error", f"{ty}: {type(e).__name__}")
    to_onnx = internal(t, "_to_onnx")
    from_onnx = internal(env.ts.Type, "_from_onnx")
    sub = internal(t, "_subtype")
    try:
        p = to_onnx()
        p2 = env.onnx.TypeProto.FromString(p.SerializeToString())  # the real wire format
        back = from_onnx(p2)
    except Exception as e:  # noqa: BLE001
        return ("roundtrip:raises", f"{t!r}: {type(e).__name__}: {e}")
    if back != t or hash(back) != hash(t) or not sub(back) or not back._subtype(t):
        return (f"roundtrip:{diff_kind(env, t, back)}", f"{t!r} -> ONNX -> {back!r} (equal={back == t})")
    # identity judged on the public content too (constructor, element type, shape), not only by `==`:
    # an `==` that is too coarse must not hide a type that came back different
    try:
        same = env.enc(back) == env.enc(t)
    except Exception:  # noqa: BLE001
        same = True
    if not same:
        return (f"roundtrip:{diff_kind(env, t, back)}", f"{t!r} -> ONNX -> {back!r}: `==` holds but the two differ in content")
    return None


def check_equality(env: Env, a, b):
    """Canonical representation: two types are equal (and equally hashed) exactly when they are the same
    ONNX type - same nesting, element type and shape (dimension by dimension, names included)."""
    ta, tb = env.mk(a), env.mk(b)
    same = env.enc(ta) == env.enc(tb)
    eq = bool(ta == tb)
    if eq != same:
        return (f"equality:{'distinct-types-equal' if eq else 'same-type-unequal'}:{aspect(a, b)}",
                f"{ta!r} == {tb!r} is {eq}, but they are {'the same' if same else 'different'} ONNX types")
    if same and hash(ta) != hash(tb):
        return ("equality:equal-types-hash-differently", f"{ta!r} and {tb!r}")
    return None


def diff_kind(env: Env, t, back):
    try:
        bl = skeleton(env.enc(back))[1]
        tl = skeleton(env.enc(t))[1]
        if tl[1] != bl[1]:
            cls = env.classes[tl[1]].__name__ if 0 <= tl[1] < len(env.classes) else "?"
            return f"elem-class:{cls}"
        return "shape" if tl[2] != bl[2] else "other"
    except Exception:  # noqa: BLE001
        return "other"


def check_roundtrip_public(env: Env, ty):
    """The same statement through the public API only: the type of a model input written by `build`
    (type -> ONNX) and read back by `inline` (ONNX -> type). Tensor types of known rank."""
    import spox.opset.ai.onnx.v17 as op
    from spox import argument, build, inline

    t = env.mk(ty)
    with warnings.catch_warnings():
        warnings.simplefilter("ignore")
        x = argument(t)
        try:
            model = build({"x": x}, {"y": op.identity(x)})
            back = inline(model)(argument(t))["y"].type
        except Exception as e:  # noqa: BLE001
            return ("roundtrip:raises", f"build/inline of a value of type {t!r}: {type(e).__name__}: {e}")
    # `inline` deliberately anonymises dimension names of the inlined model: compare modulo names
    anon = env.ts.Tensor(t.dtype, None if t.shape is None else tuple(None if isinstance(d, str) else d for d in t.shape))
    if back != anon or hash(back) != hash(anon):
        return (f"roundtrip:{diff_kind(env, anon, back)}", f"{t!r} -> build -> inline -> {back!r} (expected {anon!r})")
    return None


def check_spelling_pair(env: Env, s1, s2, shape):
    try:
        a = env.ts.Tensor(env.spell[s1], shape)
        b = env.ts.Tensor(env.spell[s2], shape)
    except Exception as e:  # noqa: BLE001
        return ("spelling:construct-error", f"{s1}/{s2}: {type(e).__name__}")
    sub_ok = True
    if hasattr(a, "_subtype"):
        sub_ok = a._subtype(b) and b._subtype(a)
    if a != b or hash(a) != hash(b) or not sub_ok:
        return ("spelling-unequal", f"Tensor({s1}) = {a!r} vs Tensor({s2}) = {b!r}: equal={a == b} mutually compatible={sub_ok}")
    return None


def check_refusal(env: Env, name, defined):
    with warnings.catch_warnings():
        warnings.simplefilter("ignore")
        try:
            env.ts.Tensor(env.spell[name])
            ok = True
        except Exception:  # noqa: BLE001
            ok = False
    if ok and not defined:
        return ("undefined-accepted", f"Tensor({name}) is accepted although ONNX defines no such element type")
    if not ok and defined:
        return ("defined-refused", f"Tensor({name}) is refused although ONNX defines this element type")
    return None


def has_common_value(env: Env, a, b, rank=3):
    """Brute force over concrete values, by the statement's definition (for replay / small use)."""
    wa, la = skeleton(a)
    wb, lb = skeleton(b)
    if wa != wb:
        return False
    ca = onnx_code_of(env, env.spell[la[1]])
    cb = onnx_code_of(env, env.spell[lb[1]])
    if ca != cb:
        return False
    return any(conforms_dims(s, la[2]) and conforms_dims(s, lb[2]) for s in conc_shapes(rank))


def check_subtype(env: Env, a, b):
    real = bool(internal(env.mk(a), "_subtype")(env.mk(b)))
    want = has_common_value(env, a, b)
    if real != want:
        how = "accepted-without-common-value" if real else "rejected-with-common-value"
        return (f"subtype:{how}:{aspect(a, b)}", f"{env.mk(a)!r}._subtype({env.mk(b)!r}) = {real}, "
                                                f"a common conforming runtime value {'exists' if want else 'does not exist'}")
    return None


# spellings of one abstract shape. kind 'shape' = a Shape object, 'simple' = the simple format
# (`Union[Shape, SimpleShape]` arguments accept both). 'list' is accepted by the code but not declared
# (SimpleShape is a tuple): a deviation under it alone is reported as a broken correspondence only.
SHAPE_SPELLINGS = ["Shape", "Shape(dims)", "tensor._shape", "from_simple(to_simple)", "tuple", "tensor.shape",
                   "argument.shape", "empty-str", "list"]
SELF_SPELLINGS = ["Shape", "Shape(dims)", "tensor._shape"]
UNDECLARED_SPELLINGS = {"list"}


class NotApplicable(Exception):
    pass


def spell_shape(env: Env, s, how):
    """The abstract shape `s` (None = unknown rank | list of int / str / None) written as `how`.
    -> (python object, 'shape' | 'simple')"""
    np = env.np
    tup = None if s is None else tuple(s)
    Shape = internal(env.sh, "Shape")
    if how == "Shape":
        return internal(Shape, "from_simple")(tup), "shape"
    if how == "Shape(dims)":
        Constant, Unknown = internal(env.sh, "Constant"), internal(env.sh, "Unknown")
        if tup is None:
            return Shape(None), "shape"
        return Shape(tuple(Constant(d) if isinstance(d, int) else (Unknown(d) if isinstance(d, str) else Unknown()) for d in tup)), "shape"
    if how == "tensor._shape":
        return internal(env.ts.Tensor(np.float32, tup), "_shape"), "shape"
    if how == "from_simple(to_simple)":
        return internal(Shape, "from_simple")(internal(Shape, "from_simple")(tup).to_simple()), "shape"
    if how == "tuple":
        return tup, "simple"
    if how == "tensor.shape":  # in particular: Tensor(dtype).shape is None = unknown rank
        return env.ts.Tensor(np.int64, tup).shape, "simple"
    if how == "argument.shape":
        with warnings.catch_warnings():
            warnings.simplefilter("ignore")
            return env.spox.argument(env.ts.Tensor(np.float32, tup)).unwrap_tensor().shape, "simple"
    if how == "empty-str":  # '' is the other spelling of the anonymous dimension
        if tup is None or None not in tup:
            raise NotApplicable(how)
        return tuple("" if d is None else d for d in tup), "simple"
    if how == "list":
        if tup is None:
            raise NotApplicable(how)
        return list(tup), "simple"
    raise ValueError(how)


def np_broadcast(np, *shapes):
    try:
        return tuple(int(v) for v in np.broadcast_shapes(*shapes))
    except ValueError:
        return None


def concretisations(s, other_rank, dom=CONC):
    """Concrete runtime shapes conforming to `s`. Unknown rank: every rank up to one more than the other
    operand's (a claimed rank is contradicted by a longer operand of ones)."""
    if s is None:
        return conc_shapes(min(3, other_rank + 1))
    return [tuple(p) for p in itertools.product(*[[d] if isinstance(d, int) else dom for d in s])]


def call_broadcast(env: Env, a, b, spell="Shape", self_spell="Shape", method="broadcast"):
    """-> ('ok', simple result) | ('raised', exception class name); for can_broadcast ('ok', bool)."""
    ShapeError = internal(env.sh, "ShapeError")
    sa = spell_shape(env, a, self_spell)[0]
    ob = spell_shape(env, b, spell)[0]
    f = internal(sa, method)
    try:
        r = f(ob)
    except ShapeError:
        return ("raised", "ShapeError")
    except NotObservable:
        raise
    except Exception as e:  # noqa: BLE001
        return ("raised", type(e).__name__)
    if method == "can_broadcast":
        return ("ok", bool(r))
    c = internal(r, "to_simple")()
    return ("ok", None if c is None else list(c))


def check_broadcast(env: Env, a, b, np_cache=None, spell="Shape", self_spell="Shape", method="broadcast"):
    """The statement about static broadcasting on ONE pair of abstract shapes, the operand written in the
    given spelling: numpy's shape on known dims; a claim no conforming runtime values contradict;
    ShapeError (can_broadcast False) only if no conforming values broadcast."""
    np = env.np
    res = call_broadcast(env, a, b, spell, self_spell, method)
    can = method == "can_broadcast"
    raised = res[0] == "raised" or (can and res[1] is False)
    c = None if (raised or can) else res[1]
    claims = not raised and not can
    shown = res[1] if (res[0] == "raised" or can) else c
    call = f"Shape{None if a is None else tuple(a)}.{method}({spell_shape(env, b, spell)[0]!r})"

    def npb(x, y):
        if np_cache is not None and (x, y) in np_cache:
            return np_cache[(x, y)]
        return np_broadcast(np, x, y)

    known = a is not None and b is not None and all(isinstance(d, int) for d in list(a) + list(b))
    if known:
        want = npb(tuple(a), tuple(b))
        if raised != (want is None) or (claims and tuple(c) != want):
            return ("broadcast:known-dims-differ-from-numpy", f"{call} = {shown}, numpy: {want}")
        return None
    ra = 0 if a is None else len(a)
    rb = 0 if b is None else len(b)
    for sa in concretisations(a, rb):
        for sb in concretisations(b, ra):
            s = npb(sa, sb)
            if raised:
                if s is not None:
                    return ("broadcast:raises-though-values-broadcast",
                            f"{call} {'raises ' + str(shown) if res[0] == 'raised' else 'is False'} but conforming values {sa} x {sb} broadcast to {s}")
            elif claims and s is not None and not conforms_dims(s, None if c is None else list(c)):
                return ("broadcast:claims-contradicted-dimension",
                        f"{call} -> {c}, but conforming values {sa} x {sb} broadcast to {s}")
    return None


def broadcast_arity(env: Env):
    """How many operands Shape.broadcast takes besides self: (min, max | None = variadic)."""
    import inspect

    sig = inspect.signature(internal(internal(env.sh, "Shape"), "broadcast"))
    ps = list(sig.parameters.values())[1:]
    lo = sum(1 for p in ps if p.kind in (p.POSITIONAL_ONLY, p.POSITIONAL_OR_KEYWORD) and p.default is p.empty)
    if any(p.kind == p.VAR_POSITIONAL for p in ps):
        return lo, None
    return lo, sum(1 for p in ps if p.kind in (p.POSITIONAL_ONLY, p.POSITIONAL_OR_KEYWORD))


def check_broadcast_n(env: Env, shapes, spells, method="broadcast"):
    """Several operands at once (only when the signature takes them): numpy broadcasts all of them."""
    np = env.np
    ShapeError = internal(env.sh, "ShapeError")
    me = spell_shape(env, shapes[0], "Shape")[0]
    args = [spell_shape(env, s, h)[0] for s, h in zip(shapes[1:], spells)]
    can = method == "can_broadcast"
    try:
        r = internal(me, method)(*args)
        raised = (r is False) if can else False
        c = None if can else internal(r, "to_simple")()
        shown = r if can else c
    except ShapeError:
        raised, c, shown = True, None, "ShapeError"
    except Exception as e:  # noqa: BLE001
        raised, c, shown = True, None, type(e).__name__
    claims = not raised and not can
    call = f"Shape{None if shapes[0] is None else tuple(shapes[0])}.{method}({', '.join(repr(x) for x in args)})"
    top = max([0] + [len(s) for s in shapes if s is not None])
    doms = [concretisations(s, top, dom=[1, 2, 3]) for s in shapes]
    known = all(s is not None and all(isinstance(d, int) for d in s) for s in shapes)
    for conc in itertools.product(*doms):
        s = np_broadcast(np, *conc)
        if known:
            if raised != (s is None) or (claims and tuple(c) != s):
                return ("broadcast:known-dims-differ-from-numpy", f"{call} = {shown}, numpy: {s}")
            return None
        if raised and s is not None:
            return ("broadcast:raises-though-values-broadcast", f"{call} gives {shown} but conforming values {conc} broadcast to {s}")
        if claims and s is not None and not conforms_dims(s, None if c is None else list(c)):
            return ("broadcast:claims-contradicted-dimension", f"{call} -> {c}, but conforming values {conc} broadcast to {s}")
    return None


INLINE_FORMS = ["single", "pos", "kw", "kw-reversed", "mixed-1", "mixed-2", "pos+default-omitted", "pos+default-pos",
                "kw+default-kw", "mixed+default-kw", "override-default-kw", "override-default-pos"]


def check_inline_boundary(env: Env, a, b, form="single", slot=0, spec=None):
    """The judgement at a call boundary: inline(model whose input `x` is declared with type b)(value of type a),
    the value handed over in the given argument-passing form (positional / keyword / mixed / with a defaulted
    input omitted or given / x itself a defaulted input that is overridden), x at position `slot` of the signature."""
    import numpy as np
    from onnx import TensorProto, helper, numpy_helper

    from spox import argument, inline

    tb, ta = env.mk(b), env.mk(a)
    f32 = helper.make_tensor_type_proto(TensorProto.FLOAT, [])
    if form == "single":
        names = ["x"]
    else:
        names = ["p", "q"]
        names.insert(slot % 3, "x")
    inputs = [helper.make_value_info(n, tb._to_onnx() if n == "x" else f32) for n in names]
    inits = []
    if "default" in form and not form.startswith("override"):
        inputs.append(helper.make_value_info("d", helper.make_tensor_type_proto(TensorProto.FLOAT, [2])))
        inits.append(numpy_helper.from_array(np.zeros(2, np.float32), "d"))
    if form.startswith("override"):
        # x itself has a default (an initializer of the declared type): needs a concrete numeric tensor type
        sh, dt = getattr(tb, "shape", None), getattr(tb, "dtype", None)
        if sh is None or dt is None or dt.kind not in "fiu" or any(not isinstance(d, int) for d in sh):
            raise NotApplicable(form)
        inits.append(numpy_helper.from_array(np.zeros(sh, dt), "x"))
    # the inputs are unused (the output is a constant), so that no operator's own type inference is involved:
    # only the boundary judgement decides
    graph = helper.make_graph(
        [helper.make_node("Constant", [], ["y"], value=helper.make_tensor("v", TensorProto.FLOAT, [], [0.0]))],
        "g", inputs, [helper.make_tensor_value_info("y", TensorProto.FLOAT, [])], initializer=inits)
    model = helper.make_model(graph, opset_imports=[helper.make_opsetid("", 17)])
    with warnings.catch_warnings():
        warnings.simplefilter("ignore")
        vals = {"x": argument(ta), "p": argument(env.ts.Tensor(np.float32, ())), "q": argument(env.ts.Tensor(np.float32, ())),
                "d": argument(env.ts.Tensor(np.float32, (2,)))}
        if form in ("single", "pos", "pos+default-omitted"):
            args, kwargs = [vals[n] for n in names], {}
        elif form == "kw":
            args, kwargs = [], {n: vals[n] for n in names}
        elif form == "kw-reversed":
            args, kwargs = [], {n: vals[n] for n in reversed(names)}
        elif form in ("mixed-1", "mixed-2"):
            k = 1 if form == "mixed-1" else 2
            args, kwargs = [vals[n] for n in names[:k]], {n: vals[n] for n in names[k:]}
        elif form == "pos+default-pos":
            args, kwargs = [vals[n] for n in names] + [vals["d"]], {}
        elif form == "kw+default-kw":
            args, kwargs = [], {n: vals[n] for n in names + ["d"]}
        elif form == "mixed+default-kw":
            args, kwargs = [vals[names[0]]], {n: vals[n] for n in names[1:] + ["d"]}
        elif form == "override-default-kw":
            args, kwargs = [], {n: vals[n] for n in names}
        elif form == "override-default-pos":
            args, kwargs = [vals[n] for n in names], {}
        else:
            raise ValueError(form)
        try:
            inline(model)(*args, **kwargs)
            accepted = True
        except TypeError:
            accepted = False
    if spec is not None:  # the same call for the model (driver op "call"), types by class id
        f32s, f32v = env.enc(vals["p"].type), env.enc(vals["d"].type)
        decl_t = {"x": env.enc(tb), "p": f32s, "q": f32s, "d": f32v}
        val_t = {"x": env.enc(ta), "p": f32s, "q": f32s, "d": f32v}
        key_of = {id(v): k for k, v in vals.items()}
        spec.update({"decl": [[i.name, decl_t[i.name]] for i in inputs],
                     "dflt": [[t.name, decl_t[t.name]] for t in inits],
                     "pos": [val_t[key_of[id(v)]] for v in args], "kw": [[k, val_t[k]] for k in kwargs], "real": accepted})
    want = has_common_value(env, a, b)
    if accepted != want:
        how = "accepted-without-common-value" if accepted else "rejected-with-common-value"
        shown = ", ".join([("x" if v is vals["x"] else "·") for v in args] + [f"{k}={'x' if k == 'x' else '·'}" for k in kwargs])
        return (f"inline-boundary:{how}:{aspect(a, b)}",
                f"inline(model: inputs {names + (['d (default)'] if 'd' in [i.name for i in inits] else [])}, x is {tb!r}"
                f"{' with a default' if form.startswith('override') else ''})({shown}) with x of type {ta!r} "
                f"{'accepted' if accepted else 'TypeError'} [{form}]")
    return None


DIM_PROBES = ["-1", "True", "np.int64(2)", "2.0", "''", "(2,-3)"]


def check_dim_domain(env: Env, name):
    """The model's dimensions are naturals. What the constructor does outside that domain is recorded
    (evidence), and the round trip - which the statement claims for *any* type - is still demanded of
    whatever it accepts (negative ints, bools). A negative dimension describes no runtime value, so the
    exactness of `_subtype` is claimed for natural constants only. -> (status, None | (key, what))"""
    np = env.np
    shape = {"-1": (-1,), "True": (True,), "np.int64(2)": (np.int64(2),), "2.0": (2.0,), "''": ("",), "(2,-3)": (2, -3)}[name]
    try:
        t = env.ts.Tensor(np.float32, shape)
    except Exception as e:  # noqa: BLE001
        return f"refused ({type(e).__name__})", None
    status = f"accepted as {t.shape!r}"
    to_onnx, from_onnx = internal(t, "_to_onnx"), internal(env.ts.Type, "_from_onnx")
    try:
        back = from_onnx(env.onnx.TypeProto.FromString(to_onnx().SerializeToString()))
    except Exception as e:  # noqa: BLE001
        return status, (f"dim-domain:{name}:roundtrip-raises",
                        f"{t!r} is constructible but has no ONNX form: {type(e).__name__}: {e}")
    if back != t or hash(back) != hash(t):
        return status, (f"dim-domain:{name}:roundtrip-differs", f"{t!r} -> ONNX -> {back!r} (equal={back == t})")
    return status, None


def onnx_elem_spelling(env: Env, code):
    """The numpy dtype onnx itself associates with an element code (str for STRING); None if it has none."""
    onnx = env.onnx
    if code == int(onnx.TensorProto.STRING):
        return str
    try:
        return onnx.helper.tensor_dtype_to_np_dtype(code)
    except Exception:  # noqa: BLE001
        return None


def check_elem_code(env: Env, code):
    """One ONNX element type: the spox type spelled with onnx's own dtype for it goes to THAT element code
    and comes back equal; Cast(to=that dtype) is typed with it where the operator allows. -> None | (key, what)"""
    name = {int(v): k for k, v in env.onnx.TensorProto.DataType.items()}.get(code, str(code))
    sp = onnx_elem_spelling(env, code)
    if sp is None:
        return None
    try:
        t = env.ts.Tensor(sp, (2,))
    except Exception as e:  # noqa: BLE001
        return (f"defined-refused:{name}", f"Tensor({sp!r}) is refused ({type(e).__name__}) although ONNX defines {name}")
    try:
        p = internal(t, "_to_onnx")()
        got = int(p.tensor_type.elem_type)
    except NotObservable:
        raise
    except Exception as e:  # noqa: BLE001
        return (f"roundtrip:raises", f"{t!r}: {type(e).__name__}: {e}")
    if got != code:
        return (f"elem-type-changed:{name}", f"Tensor({sp!r}) = {t!r} converts to ONNX element type "
                                             f"{ {int(v): k for k, v in env.onnx.TensorProto.DataType.items()}.get(got, got)}, not {name}")
    if t.dtype != env.np.dtype(sp):
        return (f"elem-type-changed:{name}", f"Tensor({sp!r}).dtype is {t.dtype!r}")
    import spox.opset.ai.onnx.v17 as op
    from spox import argument

    try:
        with warnings.catch_warnings():
            warnings.simplefilter("ignore")
            y = op.cast(argument(env.ts.Tensor(env.np.float32, (2,))), to=sp)
        if y.type is not None and y.type.dtype != env.np.dtype(sp):
            return (f"cast-typed-differently:{name}", f"cast(x, to={sp!r}) is typed {y.type!r}")
    except Exception:  # noqa: BLE001  (element types the operator's opset does not know are not a verdict)
        pass
    return None


def check_cast_spelling(env: Env, name):
    """Another public route by which a dtype-like becomes a type: `cast(x, to=<spelling>)` must be typed
    exactly like `Tensor(<spelling>)` (the canonical type of the ONNX element type). -> None | (key, what) | 'refused'"""
    import spox.opset.ai.onnx.v17 as op
    from spox import argument

    sp = env.spell[name]
    want = env.ts.Tensor(sp, (2,))
    with warnings.catch_warnings():
        warnings.simplefilter("ignore")
        x = argument(env.ts.Tensor(env.np.float32 if want.dtype != env.np.dtype("float32") else env.np.int32, (2,)))
        try:
            y = op.cast(x, to=sp)
        except Exception as e:  # noqa: BLE001
            return f"refused: {type(e).__name__}"
    if y.type is None:
        return "refused: untyped"
    if y.type != want or hash(y.type) != hash(want):
        return ("spelling-unequal:cast", f"cast(x, to={name}) is typed {y.type!r}; Tensor({name}, (2,)) is {want!r}")
    return None


def check_elem_distinct(env: Env, c1, c2):
    """Two different ONNX element types must give unequal, mutually incompatible spox types."""
    names = {int(v): k for k, v in env.onnx.TensorProto.DataType.items()}
    try:
        a = env.ts.Tensor(onnx_elem_spelling(env, c1), (2,))
        b = env.ts.Tensor(onnx_elem_spelling(env, c2), (2,))
    except Exception:  # noqa: BLE001
        return None
    compatible = False
    if hasattr(a, "_subtype"):
        compatible = bool(a._subtype(b)) or bool(b._subtype(a))
    if a == b or compatible:
        return (f"distinct-elem-types-collapse:{names.get(c1, c1)}/{names.get(c2, c2)}",
                f"{names.get(c1, c1)} and {names.get(c2, c2)} are different ONNX element types but Tensor(...) gives {a!r} and {b!r}: "
                f"equal={a == b} compatible={compatible}")
    return None


CHECKS = {
    "roundtrip": lambda env, c: check_roundtrip(env, c["type"]),
    "roundtrip_public": lambda env, c: check_roundtrip_public(env, c["type"]),
    "elem_code": lambda env, c: check_elem_code(env, c["code"]),
    "elem_distinct": lambda env, c: check_elem_distinct(env, c["c1"], c["c2"]),
    "cast_spelling": lambda env, c: (lambda r: r if isinstance(r, tuple) else None)(check_cast_spelling(env, c["name"])),
    "dim_domain": lambda env, c: check_dim_domain(env, c["probe"])[1],
    "spelling": lambda env, c: check_spelling_pair(env, c["s1"], c["s2"], None if c["shape"] is None else tuple(c["shape"])),
    "refusal": lambda env, c: check_refusal(env, c["name"], c["defined"]),
    "subtype": lambda env, c: check_subtype(env, c["a"], c["b"]),
    "equality": lambda env, c: check_equality(env, c["a"], c["b"]),
    "broadcast": lambda env, c: check_broadcast(env, c["a"], c["b"], None, c.get("spell", "Shape"),
                                                c.get("self_spell", "Shape"), c.get("method", "broadcast")),
    "broadcast_n": lambda env, c: check_broadcast_n(env, c["shapes"], c["spells"], c.get("method", "broadcast")),
    "inline": lambda env, c: check_inline_boundary(env, c["a"], c["b"], c.get("form", "single"), c.get("slot", 0)),
}


# --------------------------------------------------------------------------- the run
def to_ids(env: Env, ty):
    """spelling-named type -> class-id type, through the real constructor."""
    return env.enc(env.mk(ty))


def run(ck: core.Check):
    from translator import dtypes

    table = dtypes.generate()
    ck.cov["generated_table"] = {
        "spellings": len(table["spellings"]),
        "classes": len(table["classes"]),
        "accepted": sum(1 for r in table["spellings"] if r["cls"] is not None),
        "refused": sum(1 for r in table["spellings"] if r["cls"] is None),
        "onnx_codes": len(table["enum"]),
    }
    for msg in table.get("unobservable", []):
        ck.broken("correspondence", "C13 element-type functions not observable", msg)
    # inventory of the type layer (classes, deciding overrides, decorators) -> obligation type_layer_inventory;
    # digests of the covered functions vs the committed baseline: a changed function body escalates the sweep
    source_changed = []
    try:
        import json as _json
        from pathlib import Path

        from translator import type_overrides

        inv = type_overrides.generate()
        base = _json.loads((Path(__file__).resolve().parent.parent / "c13_source_baseline.json").read_text())["digests"]
        source_changed = sorted(k for k in set(base) | set(inv["digests"]) if base.get(k) != inv["digests"].get(k))
        ck.cov["type_layer_inventory"] = {"classes": [c[0] for c in inv["classes"]], "functions_digested": len(inv["digests"]),
                                          "changed_since_baseline": source_changed}
        if source_changed and os.environ.get("VERIF_NO_ESCALATE"):
            source_changed = []  # (mutation-table runs: the verdict, not the bounds, is of interest)
        if source_changed:
            ck.notes.append(f"covered functions differ from the committed baseline: {source_changed} - sweeping with the thorough bounds")
    except Exception as e:  # noqa: BLE001
        ck.broken("generated", "C13 type-layer inventory", f"{type(e).__name__}: {e}")
    ck.lean(["SpoxModel.Props.C13"], audit="SpoxModel.Audit.C13")
    if ck.thorough:
        ck.leanchecker(["SpoxModel.Props.C13"])

    env = Env(table)
    rng = ck.rng
    np = env.np
    R = 3 if source_changed else ck.pick(2, 3)  # rank bound of the exhaustive tensor sweep
    RN = 2 if source_changed else ck.pick(1, 2)  # rank bound under nestings
    E = ["cls:numpy.float32", "cls:numpy.int64"]
    shapes = shapes_upto(R)
    nshapes = shapes_upto(RN)
    m = len(shapes)
    unobservable = set()

    def guard(facet, fn):
        """Run one facet; failing to observe spox (renamed internals, exceptions in the observation code)
        is registered, never raised: the other facets and the public-API oracles still run."""
        try:
            return fn()
        except Exception as e:  # noqa: BLE001
            unobservable.add(facet)
            ck.broken("correspondence", f"C13 {facet} not observable", f"{type(e).__name__}: {e}")
            return None

    drv = guard("driver", ck.driver)
    mism = {"sub": 0, "le": 0, "bc": 0, "rt": 0, "from": 0, "np": 0}

    def note(kind, detail):
        mism[kind] += 1
        if mism[kind] <= 3:
            ck.broken("correspondence", f"C13 model-vs-implementation {kind}", detail)

    # ---------------------------------------------------------------- domains
    rt_types = []
    some_shapes = [None, [], [2], ["N", None, 3], [0, "M"]]
    # names of symbolic dimensions: anything a user may write, in particular names that look like the ones other
    # layers invent or strip (`unk__<n>` of onnx shape inference), digits, keywords of the simple format, non-ASCII
    DIM_NAMES = ["unk__0", "unk__batch", "unk__", "unk_1", "UNK__1", "xunk__0", "7", "-1", "None", "?", "N.1", "a b", "名前",
                 "batch_size", "*", "N" * 70, "\\n", "dim_param", "0x10", "1e3", "_", "é"]
    for r in table["spellings"]:
        if r["cls"] is None:
            continue
        for sh in some_shapes:
            rt_types.append(["t", r["name"], sh])
        rt_types.append(wrap(["t", r["name"], rng.choice(some_shapes)], rng.choice(WRAPS)))
    for e in E:
        for sh in shapes:
            rt_types.append(["t", e, sh])
        for w in WRAPS:
            for sh in nshapes:
                rt_types.append(wrap(["t", e, sh], w))
    name_types = []
    for i, nm in enumerate(DIM_NAMES):
        e = E[i % 2]
        for sh in ([nm], [nm, 3], [2, nm], [nm, nm], [nm, None, "N"], [DIM_NAMES[(i + 1) % len(DIM_NAMES)], nm]):
            name_types.append(["t", e, sh])
        for w in WRAPS:
            name_types.append(wrap(["t", e, [nm, 3]], w))
    rt_types.extend(name_types)
    types = [["any"], ["s", ["any"]], ["o", ["any"]]]
    for e in E:
        for sh in shapes:
            types.append(["t", e, sh])
    for w in WRAPS:
        for e in E:
            for sh in nshapes:
                types.append(wrap(["t", e, sh], w))
    for sh in (["unk__0"], ["unk__0", 3], [2, "unk__batch"], ["7"], ["名前", "unk__1"], ["None", None]):
        types.append(["t", E[0], sh])  # pool names are wildcards like any other name (judgement, equality, call boundary)
    for sh in [None, [], [2], ["N"]]:
        types.append(["t", "py:str", sh])
        types.append(["t", "str:q", sh])  # alias spelling of int64
    n = len(types)
    plain = [t for t in types if skeleton(t)[1][0] == "t"]
    code_name = {int(v): k for k, v in env.onnx.TensorProto.DataType.items()}

    # ---------------------------------------------------------------- element types (public constructor only)
    def facet_spellings():
        by_code: dict = {}
        for r in table["spellings"]:
            bad = check_refusal(env, r["name"], r["defined"])
            ck.count(("refusal", r["name"]))
            if bad:
                ck.failure(f"{bad[0]}:{r['name']}", bad[1], {"check": "refusal", "name": r["name"], "defined": r["defined"]})
            if r["defined"]:
                try:
                    by_code.setdefault(onnx_code_of(env, env.spell[r["name"]]), []).append(r["name"])
                except Exception:  # noqa: BLE001
                    pass
        n_pairs = 0
        for code, names in sorted(by_code.items()):
            for s1, s2 in itertools.combinations(names, 2):
                shape = rng.choice([None, (), (2, "N"), (None,)])
                bad = check_spelling_pair(env, s1, s2, shape)
                n_pairs += 1
                if bad and not bad[0].startswith("spelling:construct-error"):
                    ck.failure(f"{bad[0]}:{code_name.get(code, code)}", bad[1],
                               {"check": "spelling", "s1": s1, "s2": s2, "shape": None if shape is None else list(shape)})
            ck.count(("spelling-group", code), len(names))
        ck.cov["spelling_pairs_compared"] = n_pairs
        # the same spellings through another public entry point for dtype-likes (operator attributes)
        cast_stats = {"typed": 0, "refused": 0}
        refused_by_code = {}
        for code, names in sorted(by_code.items()):
            for nm in names:
                try:
                    res = check_cast_spelling(env, nm)
                except Exception as e:  # noqa: BLE001
                    res = f"refused: {type(e).__name__}"
                ck.count(("cast-spelling", nm))
                if isinstance(res, tuple):
                    ck.failure(f"{res[0]}:{code_name.get(code, code)}", res[1], {"check": "cast_spelling", "name": nm})
                elif res is None:
                    cast_stats["typed"] += 1
                else:
                    cast_stats["refused"] += 1
                    refused_by_code.setdefault(code, []).append(nm)
            # a code for which some spellings are typed and others refused: the route depends on the spelling
            if code in refused_by_code and len(refused_by_code[code]) < len(names):
                ck.broken("correspondence", "C13 cast(to=...) accepts some spellings of an element type and refuses others",
                          f"{code_name.get(code, code)}: refused {refused_by_code[code][:5]}")
        ck.cov["cast_spellings"] = cast_stats
        if len(by_code) < 10:
            ck.broken("generator", "C13 spelling table", f"only {len(by_code)} accepted element types")

    guard("element-type spellings", facet_spellings)

    def facet_elem_codes():
        """every element type the installed onnx defines (incl. bfloat16, float8*, float4, 4/2-bit ints)"""
        codes = sorted(int(v) for k, v in env.onnx.TensorProto.DataType.items() if k != "UNDEFINED")
        usable = []
        for c in codes:
            if onnx_elem_spelling(env, c) is None:
                continue
            usable.append(c)
            bad = check_elem_code(env, c)
            ck.count(("elem-code", c))
            if bad:
                ck.failure(bad[0], bad[1], {"check": "elem_code", "code": c})
        n_pairs = 0
        for c1, c2 in itertools.combinations(usable, 2):
            bad = check_elem_distinct(env, c1, c2)
            n_pairs += 1
            if bad:
                ck.failure(bad[0], bad[1], {"check": "elem_distinct", "c1": c1, "c2": c2})
        ck.count(None, n_pairs)
        ck.cov["onnx_element_types"] = {"codes": len(usable), "distinct_pairs": n_pairs}
        if len(usable) < 16:
            ck.broken("generator", "C13 ONNX element types", f"only {len(usable)} element types have a numpy dtype in this onnx")

    guard("ONNX element types (distinctness)", facet_elem_codes)

    # ---------------------------------------------------------------- ONNX round trip (anchored methods, then public path)
    def facet_roundtrip():
        for ty in rt_types:
            bad = check_roundtrip(env, ty)
            ck.count(("roundtrip", repr(ty)))
            if bad:
                ck.failure(bad[0], bad[1], {"check": "roundtrip", "type": ty})
        ck.cov["roundtrip_types"] = len(rt_types)

    guard("_to_onnx/_from_onnx round trip", facet_roundtrip)

    def facet_roundtrip_public():
        classic = {r["name"] for r in table["spellings"] if r["defined"]}
        todo = []
        for r in table["spellings"]:
            if r["name"] in classic:
                try:
                    if onnx_code_of(env, env.spell[r["name"]]) <= 16:
                        todo.append(["t", r["name"], rng.choice([[], [2, "N"], [None, 3]])])
                except Exception:  # noqa: BLE001
                    pass
        for e in E:
            todo.extend(["t", e, sh] for sh in shapes if sh is not None)
        skipped = 0
        found = []
        for ty in todo:
            bad = check_roundtrip_public(env, ty)
            ck.count(("roundtrip-public", repr(ty)))
            if bad and bad[0] == "roundtrip:raises":
                skipped += 1
            if bad:
                found.append((bad, ty))
        ck.cov["roundtrip_public_path"] = {"types": len(todo), "raised": skipped}
        if todo and skipped > len(todo) // 2:
            # build/inline themselves are out of order: not a statement about the type layer
            ck.broken("correspondence", "C13 public round-trip path", f"{skipped} of {len(todo)} types refused by build/inline")
            found[:] = [f for f in found if f[0][0] != "roundtrip:raises"]
        for bad, ty in found:
            ck.failure(bad[0], bad[1], {"check": "roundtrip_public", "type": ty})

    guard("public round trip (build -> inline)", facet_roundtrip_public)

    # ---------------------------------------------------------------- the domain of dimensions (guard of the theorems)
    def facet_dim_domain():
        seen = {}
        for name in DIM_PROBES:
            status, bad = check_dim_domain(env, name)
            seen[name] = status
            ck.count(("dim-domain", name))
            if bad:
                ck.failure(bad[0], bad[1], {"check": "dim_domain", "probe": name})
        ck.cov["dimension_domain_probe"] = seen

    guard("dimension domain", facet_dim_domain)

    # ---------------------------------------------------------------- _subtype: pairwise sweep
    state = {}

    def facet_subtype():
        real_types = [env.mk(t) for t in types]
        state["id_types"] = [env.enc(t) for t in real_types]
        subs = [internal(a, "_subtype") for a in real_types]
        state["real_sub"] = [[bool(f(b)) for b in real_types] for f in subs]
        ck.count(None, n * n)

    def facet_common_value():
        codes = {}
        for t in types:
            leaf = skeleton(t)[1]
            if leaf[0] == "t" and leaf[1] not in codes:
                codes[leaf[1]] = onnx_code_of(env, env.spell[leaf[1]])
        uni = Universe(sorted(set(codes.values())), R)
        desc = []
        for t in types:
            w, leaf = skeleton(t)
            desc.append(None if leaf[0] == "any" else (w, uni.mask(codes[leaf[1]], leaf[2])))
        state["desc"] = desc

    def facet_equality():
        """`==` / `hash` over all ordered pairs of the bounded type domain vs sameness of the content."""
        real_types = [env.mk(t) for t in types]
        encs = [repr(env.enc(t)) for t in real_types]
        hs = [hash(t) for t in real_types]
        n_bad = 0
        for i in range(n):
            ti, ei = real_types[i], encs[i]
            for j in range(n):
                eq = ti == real_types[j]
                if eq != (ei == encs[j]) or (eq and hs[i] != hs[j]):
                    n_bad += 1
                    if n_bad <= 20:
                        bad = check_equality(env, types[i], types[j])
                        if bad:
                            ck.failure(bad[0], bad[1], {"check": "equality", "a": types[i], "b": types[j]})
        ck.count(None, n * n)
        ck.cov["equality_pairs"] = n * n

    guard("type equality sweep", facet_equality)
    guard("_subtype sweep", facet_subtype)
    guard("common-value universe", facet_common_value)

    def facet_subtype_oracle():
        real_sub, desc = state["real_sub"], state["desc"]
        n_or = 0
        for i in range(n):
            if desc[i] is None:
                continue
            for j in range(n):
                if desc[j] is None:
                    continue
                want = desc[i][0] == desc[j][0] and (desc[i][1] & desc[j][1]) != 0
                n_or += 1
                if real_sub[i][j] != want:
                    bad = check_subtype(env, types[i], types[j])
                    if bad:
                        ck.failure(bad[0], bad[1], {"check": "subtype", "a": types[i], "b": types[j]})
        for i in range(n):
            ck.count(("subtype-row", repr(types[i])), 0)
        ck.cov["subtype_pairs_vs_common_value"] = n_or

    if "real_sub" in state and "desc" in state:
        guard("_subtype vs common value", facet_subtype_oracle)

    def facet_subtype_corr():
        out = drv.ask_many("C13", [{"op": "sub", "types": state["id_types"]}])[0]
        if "error" in out:
            note("sub", str(out))
            return
        flat = "".join("1" if v else "0" for row in state["real_sub"] for v in row)
        if out["sub"] != flat:
            k = next(i for i in range(n * n) if out["sub"][i] != flat[i])
            note("sub", f"{types[k // n]} _subtype {types[k % n]}: model {out['sub'][k]} real {flat[k]}")
        desc = state.get("desc")
        if desc:  # the specification-side `compat` against the brute-force search
            for i in range(n):
                for j in range(n):
                    if desc[i] is None or desc[j] is None:
                        continue
                    want = desc[i][0] == desc[j][0] and (desc[i][1] & desc[j][1]) != 0
                    if (out["compat"][i * n + j] == "1") != want:
                        note("sub", f"spec compat {types[i]} {types[j]}: model {out['compat'][i * n + j]} brute-force {want}")
                        return

    if drv and "real_sub" in state:
        guard("_subtype correspondence", facet_subtype_corr)

    # ---------------------------------------------------------------- Shape.__le__ / Shape.broadcast
    def facet_shapes_real():
        Shape, ShapeError = internal(env.sh, "Shape"), internal(env.sh, "ShapeError")
        rshapes = [internal(Shape, "from_simple")(None if s is None else tuple(s)) for s in shapes]
        state["real_le"] = "".join("1" if (a <= b) else "0" for a in rshapes for b in rshapes)
        real_bc = []
        for a in rshapes:
            f = internal(a, "broadcast")
            for b in rshapes:
                try:
                    c = f(b).to_simple()
                    real_bc.append([None if c is None else list(c)])
                except ShapeError:
                    real_bc.append("ShapeError")
                except Exception as e:  # noqa: BLE001
                    real_bc.append(type(e).__name__)
        state["real_bc"] = real_bc
        ck.count(None, 2 * m * m)

    guard("Shape.__le__/Shape.broadcast sweep", facet_shapes_real)

    def facet_shapes_corr():
        o1, o2 = drv.ask_many("C13", [{"op": "le", "shapes": shapes}, {"op": "bc", "shapes": shapes}])
        real_le, real_bc = state["real_le"], state["real_bc"]
        if "error" in o1 or o1["le"] != real_le:
            k = next((i for i in range(m * m) if "le" in o1 and o1["le"][i] != real_le[i]), 0)
            note("le", f"{shapes[k // m]} <= {shapes[k % m]}: model {o1.get('le', o1)[k]} real {real_le[k]}")
        if "error" in o2:
            note("bc", str(o2))
        else:
            for k, (x, y) in enumerate(zip(o2["bc"], real_bc)):
                if x != y:
                    note("bc", f"{shapes[k // m]} broadcast {shapes[k % m]}: model {x} real {y}")
                    if mism["bc"] > 3:
                        break

    if drv and "real_bc" in state:
        guard("Shape correspondence", facet_shapes_corr)

    # ---------------------------------------------------------------- numpy's rule + broadcast oracle
    cs = conc_shapes(R)
    np_cache = {}
    for x in cs:
        for y in cs:
            try:
                np_cache[(x, y)] = tuple(int(v) for v in np.broadcast_shapes(x, y))
            except ValueError:
                np_cache[(x, y)] = None

    def facet_np():
        o = drv.ask_many("C13", [{"op": "np", "shapes": [list(x) for x in cs]}])[0]
        if "error" in o:
            note("np", str(o))
            return
        k = 0
        for x in cs:
            for y in cs:
                got = o["np"][k]
                want = np_cache[(x, y)]
                if (None if got is None else tuple(got)) != want:
                    note("np", f"npBroadcast {x} {y}: model {got} numpy {want}")
                k += 1
        ck.count(None, len(cs) ** 2)

    if drv:
        guard("npBroadcast vs numpy", facet_np)

    def facet_broadcast_oracle():
        n_bc = 0
        for a in shapes:
            for b in shapes:
                bad = check_broadcast(env, a, b, np_cache)
                n_bc += 1
                if bad:
                    ck.failure(bad[0], bad[1], {"check": "broadcast", "a": a, "b": b})
        for s in shapes:
            ck.count(("broadcast-row", repr(s)), 0)
        ck.cov["broadcast_pairs_vs_numpy"] = n_bc

    guard("Shape.broadcast vs numpy", facet_broadcast_oracle)


    # ---------------------------------------------------------------- operand spellings (simple format), both orders, arity
    sp_stats = {"calls": 0, "spelling_dependent": 0, "model_mismatches": 0, "tensor_spellings": 0}

    def facet_shape_spellings():
        """Every `Union[Shape, SimpleShape]` argument with every spelling of the same abstract shape - in
        particular `None` / `Tensor(dtype).shape` = unknown rank: the answer must be the one for the Shape
        object. All ordered pairs (so both operand orders), broadcast and can_broadcast."""
        base = state["real_bc"]
        objs = {}
        for j, b in enumerate(shapes):
            for how in SHAPE_SPELLINGS:
                try:
                    objs[(j, how)] = spell_shape(env, b, how)
                except NotApplicable:
                    pass
        selfs = {(i, how): spell_shape(env, a, how)[0] for i, a in enumerate(shapes) for how in SELF_SPELLINGS}
        ShapeError = internal(env.sh, "ShapeError")
        items, reals, where = [], [], []
        bad_seen = set()
        # quick tier: ranks <= 2 (also when the sweep itself was escalated to rank 3)
        sel = [i for i, sh in enumerate(shapes) if ck.thorough or sh is None or len(sh) <= 2]
        for i in sel:
            a = shapes[i]
            for j in sel:
                b = shapes[j]
                want = base[i * m + j]
                for k, how in enumerate(SHAPE_SPELLINGS):
                    if (j, how) not in objs or (how == "Shape" and (i + j) % 3 == 0):
                        continue
                    self_how = SELF_SPELLINGS[(i + j + k) % 3]
                    me = selfs[(i, self_how)]
                    ob, kind = objs[(j, how)]
                    try:
                        c = me.broadcast(ob).to_simple()
                        got = [None if c is None else list(c)]
                    except ShapeError:
                        got = "ShapeError"
                    except Exception as e:  # noqa: BLE001
                        got = type(e).__name__
                    try:
                        can = bool(me.can_broadcast(ob))
                    except Exception as e:  # noqa: BLE001
                        can = type(e).__name__
                    sp_stats["calls"] += 2
                    if ck.thorough or how != "Shape(dims)" or (i + j) % 4 == 0:
                        enc = ob.to_simple() if kind == "shape" else ob
                        items.append([a, [kind, None if enc is None else list(enc)]])
                        reals.append({"bc": got, "can": can})
                        where.append((a, b, how))
                    for method, dev in (("broadcast", got != want), ("can_broadcast", can is not (want != "ShapeError"))):
                        if not dev:
                            continue
                        sp_stats["spelling_dependent"] += 1
                        found = check_broadcast(env, a, b, np_cache, how, self_how, method)
                        case = {"check": "broadcast", "a": a, "b": b, "spell": how, "self_spell": self_how, "method": method}
                        if found and how not in UNDECLARED_SPELLINGS:
                            ck.failure(found[0], found[1] + f" [operand written as {how}; as a Shape object the answer is {want}]", case)
                        elif (method, how) not in bad_seen:
                            bad_seen.add((method, how))
                            ck.broken("correspondence", "C13 the answer depends on the spelling of the operand",
                                      f"Shape{a}.{method}({ob!r}) [{how}] = {got if method == 'broadcast' else can}; with the Shape object: {want}")
        ck.count(None, sp_stats["calls"])
        for how in SHAPE_SPELLINGS:
            ck.count(("shape-spelling", how), 0)
        if drv:
            out = drv.ask_many("C13", [{"op": "bcs", "items": items}])[0]
            if "error" in out:
                note("bc", str(out))
            else:
                for (a, b, how), x, y in zip(where, out["bcs"], reals):
                    if x != y:
                        sp_stats["model_mismatches"] += 1
                        note("bc", f"Shape{a}.broadcast({b} written as {how}): model {x} real {y}")
                        if mism["bc"] > 3:
                            break
            # maybe_rank / rank
            real_r = []
            for i, a in enumerate(shapes):
                me = selfs[(i, "Shape")]
                mr = me.maybe_rank
                try:
                    rk = me.rank
                except ShapeError:
                    rk = None
                real_r.append(mr if mr == rk else f"maybe_rank={mr} rank={rk}")
            o = drv.ask_many("C13", [{"op": "rank", "shapes": shapes}])[0]
            if "error" in o or o["rank"] != real_r:
                note("bc", f"maybe_rank/rank: model {o.get('rank', o)} real {real_r}"[:400])
            # from_simple / to_simple
            simples = [None] + [list(p) for r in range(3) for p in itertools.product([0, 2, "N", "", None], repeat=r)]
            real_s = []
            Shape = internal(env.sh, "Shape")
            for x in simples:
                try:
                    c = internal(Shape, "from_simple")(None if x is None else tuple(x)).to_simple()
                    real_s.append([None if c is None else list(c)])
                except Exception as e:  # noqa: BLE001
                    real_s.append(type(e).__name__)
            o = drv.ask_many("C13", [{"op": "simple", "shapes": simples}])[0]
            if "error" in o or o["simple"] != real_s:
                k = next((i for i in range(len(simples)) if "simple" in o and o["simple"][i] != real_s[i]), 0)
                note("bc", f"from_simple({simples[k]}).to_simple(): model {o.get('simple', o)[k] if 'simple' in o else o} real {real_s[k]}")
            ck.count(None, len(simples))

    if "real_bc" in state:
        guard("operand spellings of Shape.broadcast / can_broadcast", facet_shape_spellings)

    def facet_glue():
        """Round 10 (tie H for `Model/TypesGlue.lean`): `Shape.__getitem__` with int indices (negative, out of range,
        unknown rank), `Shape.__bool__`, `shape[-1-i]` or 1, `unwrap_tensor/sequence/optional`, `_is_concrete` - the
        model (driver op `glue`) against the real methods on all shapes / all types of the bounded domain; and the
        statement of `broadcast_dimwise` evaluated with the REAL `__getitem__` and `_broadcast_elem` on every pair of
        shapes of known rank the real `broadcast` accepts."""
        Shape, ShapeError = internal(env.sh, "Shape"), internal(env.sh, "ShapeError")
        belem = internal(env.sh, "_broadcast_elem")
        rshapes = [internal(Shape, "from_simple")(None if s_ is None else tuple(s_)) for s_ in shapes]
        idx = [-5, -4, -3, -2, -1, 0, 1, 2, 3, 4]
        nr = 5
        real_sh = []
        for a in rshapes:
            items = []
            for i in idx:
                try:
                    items.append([a[i].to_simple()])
                except (ShapeError, IndexError) as e:
                    items.append(type(e).__name__)
                except Exception as e:  # noqa: BLE001
                    items.append(type(e).__name__)
            rd = None
            if a.dims is not None:
                rd = []
                for i in range(nr):
                    try:
                        rd.append(a[-1 - i].to_simple())
                    except IndexError:
                        rd.append(1)
            real_sh.append({"truthy": bool(a), "items": items, "rdim": rd})
        real_types = [env.mk(t) for t in types]
        real_ty = []
        for t in real_types:
            row = {}
            for nm, meth in (("tensor", "unwrap_tensor"), ("sequence", "unwrap_sequence"), ("optional", "unwrap_optional")):
                try:
                    r = internal(t, meth)()
                    row[nm] = "self" if r is t else "other"
                except TypeError:
                    row[nm] = "TypeError"
                except NotObservable:
                    raise
                except Exception as e:  # noqa: BLE001
                    row[nm] = type(e).__name__
            row["concrete"] = bool(internal(t, "_is_concrete"))
            real_ty.append(row)
        o = drv.ask_many("C13", [{"op": "glue", "types": [env.enc(t) for t in real_types], "shapes": shapes, "idx": idx, "nrdim": nr}])[0]
        if "error" in o:
            note("bc", f"glue: {o}")
        else:
            for sh_, mo, re_ in zip(shapes, o["shapes"], real_sh):
                if mo != re_:
                    note("bc", f"Shape{sh_}: __bool__ / __getitem__{idx} / shape[-1-i]: model {mo} real {re_}"[:500])
                    break
            for t_, mo, re_ in zip(types, o["types"], real_ty):
                if mo != re_:
                    note("sub", f"{t_}: unwrap_* / _is_concrete: model {mo} real {re_}")
                    break
        # the statement of broadcast_dimwise on the real functions
        n_pairs = n_dims = n_raise = 0
        for i, a in enumerate(rshapes):
            if a.dims is None:
                continue
            for j, b in enumerate(rshapes):
                if b.dims is None:
                    continue
                c = state["real_bc"][i * m + j]
                la, lb = len(a.dims), len(b.dims)
                if c == "ShapeError":  # broadcast_raises_iff_axis_clash: some right-aligned axis clashes
                    n_raise += 1
                    clash = False
                    for k in range(max(la, lb)):
                        try:
                            belem(a[-1 - k].to_simple() if k < la else 1, b[-1 - k].to_simple() if k < lb else 1)
                        except ShapeError:
                            clash = True
                            break
                    if not clash:
                        note("bc", f"broadcast_raises_iff_axis_clash: Shape{shapes[i]}.broadcast({shapes[j]}) raises ShapeError but no right-aligned axis clashes")
                    continue
                if not isinstance(c, list) or c[0] is None:
                    continue
                c = c[0]
                n_pairs += 1
                if len(c) != max(la, lb):
                    note("bc", f"broadcast_dimwise: Shape{shapes[i]}.broadcast({shapes[j]}) = {c}: rank is not the larger rank")
                    continue
                for k in range(max(la, lb)):
                    x = a[-1 - k].to_simple() if k < la else 1
                    y = b[-1 - k].to_simple() if k < lb else 1
                    n_dims += 1
                    try:
                        z = belem(x, y)
                    except ShapeError:
                        z = "ShapeError"
                    if z != c[-1 - k] or type(z) is not type(c[-1 - k]):
                        note("bc", f"broadcast_dimwise: Shape{shapes[i]}.broadcast({shapes[j]}) = {c}: dimension {-1 - k} is not "
                                   f"_broadcast_elem({x!r}, {y!r}) = {z!r}")
                        break
        ck.count(None, len(rshapes) * (len(idx) + nr + 1) + 4 * len(real_types) + n_dims)
        ck.cov["type_layer_glue"] = {
            "shapes": len(rshapes), "int_indices": idx, "getitem_calls": len(rshapes) * len(idx),
            "getitem_outcomes": {k: sum(1 for r in real_sh for it in r["items"] if (it if isinstance(it, str) else "dimension") == k)
                                 for k in ("dimension", "IndexError", "ShapeError")},
            "types": len(real_types),
            "unwrap_outcomes": {k: sum(1 for r in real_ty for nm in ("tensor", "sequence", "optional") if r[nm] == k) for k in ("self", "TypeError")},
            "concrete": sum(1 for r in real_ty if r["concrete"]), "not_concrete": sum(1 for r in real_ty if not r["concrete"]),
            "broadcast_dimwise_pairs": n_pairs, "broadcast_dimwise_dimensions": n_dims, "raising_pairs_with_a_clashing_axis": n_raise}

    if drv and "real_bc" in state:
        guard("type-layer glue (__getitem__, __bool__, unwrap_*, _is_concrete, broadcast dimension-wise)", facet_glue)

    def facet_broadcast_arity():
        """0 / 1 / n operands where the signature takes them (numpy broadcasts any number of shapes)."""
        lo, hi = broadcast_arity(env)
        sp_stats["broadcast_arity"] = [lo, hi]
        small = [sh for sh in shapes if sh is None or len(sh) <= 2]
        n_cases = 0
        for n_ops in (0, 2, 3):
            if n_ops < lo or (hi is not None and n_ops > hi):
                continue
            for _ in range(ck.pick(150, 1500) if n_ops else 30):
                shs = [rng.choice(small) for _ in range(n_ops + 1)]
                spells = []
                for sh in shs[1:]:
                    ok_sp = [h for h in SHAPE_SPELLINGS if h not in UNDECLARED_SPELLINGS and not (h == "empty-str" and (sh is None or None not in sh))]
                    spells.append(rng.choice(ok_sp))
                for method in ("broadcast", "can_broadcast"):
                    found = check_broadcast_n(env, shs, spells, method)
                    n_cases += 1
                    if found:
                        ck.failure(found[0], found[1], {"check": "broadcast_n", "shapes": shs, "spells": spells, "method": method})
        sp_stats["arity_cases"] = n_cases
        ck.count(None, n_cases)

    guard("Shape.broadcast arity", facet_broadcast_arity)

    def facet_tensor_shape_spellings():
        """Tensor(dtype, <shape in a simple spelling>) is the type of the tuple spelling, and round-trips."""
        for e in E:
            for sh in shapes:
                ref = env.mk(["t", e, sh])
                for how in ("list", "empty-str", "tensor.shape", "argument.shape"):
                    try:
                        t = env.mk(["t", e, sh, how])
                    except NotApplicable:
                        continue
                    except Exception as ex:  # noqa: BLE001
                        if how not in UNDECLARED_SPELLINGS:
                            ck.broken("correspondence", "C13 Tensor refuses a spelling of a shape", f"Tensor({e}, {sh} as {how}): {type(ex).__name__}: {ex}")
                        continue
                    sp_stats["tensor_spellings"] += 1
                    bad = check_roundtrip(env, ["t", e, sh, how])
                    if bad and how not in UNDECLARED_SPELLINGS:
                        ck.failure(bad[0], bad[1] + f" [shape written as {how}]", {"check": "roundtrip", "type": ["t", e, sh, how]})
                    elif bad or t != ref or hash(t) != hash(ref):
                        ck.broken("correspondence", "C13 the type depends on the spelling of the shape",
                                  f"Tensor({e}, {sh} as {how}) = {t!r} vs {ref!r}: equal={t == ref}")
        ck.count(None, sp_stats["tensor_spellings"])

    guard("Tensor(dtype, shape spellings)", facet_tensor_shape_spellings)
    ck.cov["operand_spellings"] = sp_stats

    # ---------------------------------------------------------------- ONNX forms: model toOnnx / fromOnnx vs the real ones
    def facet_onnx_forms():
        rt_ids, rt_real = [], []
        from_onnx = internal(env.ts.Type, "_from_onnx")
        for ty in rt_types + [["any"], ["s", ["any"]]]:
            try:
                t = env.mk(ty)
            except Exception:  # noqa: BLE001
                continue
            rt_ids.append(env.enc(t))
            to_onnx = internal(t, "_to_onnx")
            try:
                pr = to_onnx()
                pj = env.enc_proto(pr)
                try:
                    back = env.enc(from_onnx(pr))
                except Exception:  # noqa: BLE001
                    back = None
            except Exception:  # noqa: BLE001
                pj, back = None, None
            rt_real.append({"p": pj, "t": back})
        protos = [["empty"], ["s", ["empty"]], ["o", ["s", ["empty"]]]]
        all_codes = [r["code"] for r in table["codes"]]
        for c in all_codes:
            for sh in [None, [], [2, "N", None, ""], [""]]:
                protos.append(["t", c, sh])
        for i, nm in enumerate(DIM_NAMES):  # dim_param values read from a proto must come back verbatim
            protos.append(["t", all_codes[i % len(all_codes)], [nm, 3, nm]])
            protos.append(wrap(["t", 1, [2, nm]], WRAPS[i % len(WRAPS)]))
        for w in WRAPS:
            protos.append(wrap(["t", rng.choice(all_codes), rng.choice([None, [3, "", None]])], w))
        real_from = []
        for pj in protos:
            try:
                real_from.append(env.enc(from_onnx(env.mk_proto(pj))))
            except Exception:  # noqa: BLE001
                real_from.append(None)
        ck.count(None, len(rt_ids) + len(protos))
        ck.cov["onnx_forms_compared"] = len(rt_ids) + len(protos)
        if not drv:
            return
        o1, o2 = drv.ask_many("C13", [{"op": "rt", "types": rt_ids}, {"op": "from", "protos": protos}])
        if "error" in o1:
            note("rt", str(o1))
        else:
            for ty, x, y in zip(rt_ids, o1["rt"], rt_real):
                if x != y:
                    note("rt", f"{ty}: model {x} real {y}")
                    if mism["rt"] > 3:
                        break
        if "error" in o2:
            note("from", str(o2))
        else:
            for pj, x, y in zip(protos, o2["from"], real_from):
                if x != y:
                    note("from", f"_from_onnx({pj}): model {x} real {y}")
                    if mism["from"] > 3:
                        break

    guard("_to_onnx/_from_onnx correspondence", facet_onnx_forms)

    # ---------------------------------------------------------------- the call boundary (public API: inline)
    inl_stats = {"compatible": 0, "incompatible": 0, "skipped": 0}

    call_specs = []

    def facet_inline_corr():
        """the model's `callAccepted` (argument binding + judgement on every bound value) vs the real call; plus
        malformed calls (a name given twice, an unknown keyword, a missing argument, too many positionals)"""
        import numpy as np
        from onnx import TensorProto, helper

        from spox import argument, inline

        items = [sp for sp, _, _, _ in call_specs]
        f32 = env.enc(env.ts.Tensor(np.float32, ()))
        g = helper.make_graph([helper.make_node("Constant", [], ["y"], value=helper.make_tensor("v", TensorProto.FLOAT, [], [0.0]))], "g",
                              [helper.make_tensor_value_info(n_, TensorProto.FLOAT, []) for n_ in ("p", "x", "q")],
                              [helper.make_tensor_value_info("y", TensorProto.FLOAT, [])])
        call = inline(helper.make_model(g, opset_imports=[helper.make_opsetid("", 17)]))
        v = lambda: argument(env.ts.Tensor(np.float32, ()))  # noqa: E731
        for pos_n, kws in [(2, ["x", "q"]), (3, ["z"]), (2, []), (4, []), (0, ["p", "x"]), (0, ["p", "x", "q", "z"]), (1, ["p", "x", "q"]),
                           (3, []), (0, ["q", "p", "x"])]:
            try:
                call(*[v() for _ in range(pos_n)], **{k_: v() for k_ in kws})
                real = True
            except TypeError:
                real = False
            items.append({"decl": [[n_, f32] for n_ in ("p", "x", "q")], "dflt": [], "pos": [f32] * pos_n, "kw": [[k_, f32] for k_ in kws],
                          "real": real, "malformed": (pos_n, kws)})
        out = drv.ask_many("C13", [{"op": "call", "items": [{k_: it[k_] for k_ in ("decl", "dflt", "pos", "kw")} for it in items]}])[0]
        if "error" in out:
            note("sub", str(out))
            return
        for it, m_ in zip(items, out["call"]):
            if m_ != it["real"]:
                note("sub", f"inline call boundary: model accepted={m_} real accepted={it['real']} for {({k_: it[k_] for k_ in ('pos', 'kw', 'decl', 'dflt')})}"[:600])
        ck.count(None, len(items))
        ck.cov["inline_call_model_cases"] = len(items)

    def facet_inline():
        # more cases when the direct sweep of _subtype could not be observed
        n_inl = ck.pick(240, 1800) * (5 if "_subtype sweep" in unobservable else 1)
        for k in range(n_inl):
            a = rng.choice(plain)
            b = rng.choice(plain)
            if k % 2 == 0:  # steer towards near-misses: same skeleton and element type
                wa, la = skeleton(a)
                cand = [t for t in plain if skeleton(t)[0] == wa and skeleton(t)[1][1] == la[1]]
                b = rng.choice(cand)
            form, slot = INLINE_FORMS[k % len(INLINE_FORMS)], (k // len(INLINE_FORMS)) % 3
            if form.startswith("override"):
                # x with a default: the declared type must be a concrete numeric tensor type
                conc = [t for t in plain if t[0] == "t" and t[1] in E and t[2] is not None and all(isinstance(d, int) for d in t[2])]
                b = rng.choice(conc)
                if k % 2 == 0:
                    a = rng.choice([t for t in plain if t[0] == "t" and t[1] == b[1]])
            inl_stats.setdefault("forms", {}).setdefault(form, 0)
            inl_stats["forms"][form] += 1
            spec = {}
            try:
                bad = check_inline_boundary(env, a, b, form, slot, spec)
                if "decl" in spec:
                    call_specs.append((spec, a, b, form))
            except NotApplicable:
                continue
            except Exception as e:  # noqa: BLE001  (a model input type spox refuses to build is not a verdict)
                inl_stats["skipped"] += 1
                if inl_stats["skipped"] <= 3:
                    ck.notes.append(f"inline boundary case skipped: {type(e).__name__}: {e}")
                continue
            ck.count(("inline", repr(a), repr(b)))
            inl_stats["compatible" if has_common_value(env, a, b) else "incompatible"] += 1
            if bad:
                ck.failure(bad[0], bad[1], {"check": "inline", "a": a, "b": b, "form": form, "slot": slot})
        if inl_stats["skipped"] > n_inl // 2:
            ck.broken("correspondence", "C13 inline call boundary not observable", f"{inl_stats['skipped']} of {n_inl} cases raised")

    guard("inline call boundary", facet_inline)
    if drv:
        guard("inline call boundary correspondence", facet_inline_corr)

    ck.cov.update({
        "correspondence_mismatches": mism,
        "facets_not_observable": sorted(unobservable),
        "inline_boundary_cases": inl_stats,
        "types_in_pairwise_sweep": n,
        "shapes_in_pairwise_sweep": m,
        "rank_bound": R,
        "rank_bound_under_nesting": RN,
        "concrete_shape_pairs_vs_numpy": len(cs) ** 2,
    })
    ck.exhaustive = True
    ck.rule = (
        f"exhaustive: all shapes of rank <= {R} over dims {DIMS} + unknown rank ({m} shapes, all {m * m} pairs) for "
        f"Shape.__le__/broadcast; all {n * n} ordered pairs of {n} types (2 element types x those shapes, 6 nestings of "
        f"depth <= 2 over rank <= {RN}, Type() wildcards, alias spellings) for _subtype; every spelling x 5 shapes + nestings "
        "for the ONNX round trip; every ONNX code x 4 shapes for _from_onnx; all concrete shape pairs for numpy's rule; "
        "all ordered pairs of the shapes of rank <= 2 x 9 spellings of the operand (Shape object built four ways, tuple / None, "
        "Tensor.shape, argument.type.shape, '' for anonymous dims, list) x 3 spellings of self for Shape.broadcast and can_broadcast; "
        "== / hash over all ordered pairs of the types; cast(to=...) for every accepted spelling. "
        "non-trivial = one row of a pairwise sweep / one spelling / one type; the inline call boundary is seeded-random"
    )
    ck.assumptions += [
        "numpy scalar classes are identified by class id (index in the generated list); `issubclass` between element classes is tabulated, not modelled",
        "runtime values are seen only through element class, concrete dimensions and sequence/optional structure; the empty sequence/optional conforms to every sequence/optional type and is not a 'common value' witness",
        "named dimensions are wildcards (the statement's reading; spox does not enforce equal names)",
    ]


def replay(ck: core.Check, doc) -> bool:
    from translator import dtypes

    if doc.get("kind") == "obligation":  # a broken theorem / correspondence: re-run them
        run(ck)
        for b in ck.broken_items:
            print(f"still broken: {b['kind']} {b['name']}")
        return bool(ck.broken_items or ck.failures)
    env = Env(dtypes.tabulate())
    case = doc["case"]
    try:
        bad = CHECKS[case["check"]](env, case)
    except NotObservable as e:
        print(f"not observable on this tree: {e}")
        bad = ("not-observable", str(e))
    if bad:
        print(f"{bad[0]}: {bad[1]}")
    return bool(bad)
