"""C09 — one opset per domain; mixed-version programs build and keep their meaning.

tie G : translator/opset_facts.py -> Generated/OpsetFacts.lean (INTERNAL_MIN_OPSET by AST, spox's SCHEMAS
        table, the shipped constructor table, form compatibility from onnx.defs), re-proved facts
proof  : Props/C09.lean
tie H  : generated mixed-version programs are built by the real code under observation (compile_graph,
        adapt_best_effort, adapt_node, adapt_inline are wrapped from outside); the observed structure is
        given to the model (driver) and imports, per-graph opsets, per-node decision and target version,
        function imports and the qualification of converter-introduced names are compared;
        max_opset_policy is compared on random requirement sets; SCHEMAS lookups against onnx.defs
oracle : model-free. build must succeed; one import per domain, default >= 14, every import = the maximum
        required (computed from the abstract program and onnx.defs); every node well-formed for the schema
        in force at the imported version (own schema walk + onnx.checker full check + onnxruntime load);
        onnxruntime results equal an independent numpy evaluator of the abstract program.
"""
from __future__ import annotations

import copy
import json
import warnings
from pathlib import Path

import numpy as np

from harness import core
from harness import lib_c09 as L
from harness import lib_c09_qualify as Q

FINDINGS_DIR = core.VERIF / "findings"

XS = [
    (np.array([[1.0, -2.0, 3.0], [0.5, 4.0, -6.0]], np.float32),
     np.array([[0.25, 1.0, -1.0], [2.0, -0.5, 1.5]], np.float32)),
    (np.array([[-1.5, 2.0, 0.0], [3.0, -0.25, 1.0]], np.float32),
     np.array([[1.0, 1.0, 2.0], [-2.0, 0.75, -1.0]], np.float32)),
]


# ------------------------------------------------------------------------------------ observation
class Spies:
    """Wraps four functions of spox from outside for the duration of one build. Every facet is installed
    on its own; one that cannot be installed (renamed / removed internal) is listed in `unobservable`
    and the build proceeds unobserved for that facet. The wrappers never let their own bookkeeping
    disturb the build."""

    FACETS = (
        ("spox._build", "Builder.compile_graph"),
        ("spox._graph", "adapt_best_effort"),
        ("spox._adapt", "adapt_node"),
        ("spox._adapt", "adapt_inline"),
    )

    def __init__(self):
        self.stack, self.roots = [], []
        self.abe, self.an, self.ai = [], {}, {}
        self.unobservable: list[str] = []
        self.installed: list = []

    def _install(self, modname, path, make):
        import importlib

        try:
            mod = importlib.import_module(modname)
            owner = mod
            parts = path.split(".")
            for p_ in parts[:-1]:
                owner = getattr(owner, p_)
            orig = getattr(owner, parts[-1])
            if not callable(orig):
                raise TypeError("not callable")
            setattr(owner, parts[-1], make(orig))
            self.installed.append((owner, parts[-1], orig))
        except Exception as e:  # noqa: BLE001
            self.unobservable.append(f"{modname}.{path}: {type(e).__name__}: {e}")

    def __enter__(self):
        sp = self

        def mk_compile(orig):
            def compile_graph(bself, graph, *a, **k):
                rec = None
                try:
                    prefix = k.get("prefix", a[1] if len(a) > 1 else "")
                    rec = {"builder": bself, "graph": graph, "prefix": prefix, "children": [], "result": None}
                    parent = sp.stack[-1] if sp.stack else None
                    if parent is not None and parent["builder"] is bself:
                        parent["children"].append(rec)
                    else:
                        sp.roots.append(rec)
                except Exception as e:  # noqa: BLE001
                    sp.unobservable.append(f"compile_graph arguments: {type(e).__name__}: {e}")
                sp.stack.append(rec)
                try:
                    res = orig(bself, graph, *a, **k)
                    if rec is not None:
                        rec["result"] = res
                    return res
                finally:
                    sp.stack.pop()
            return compile_graph

        def mk_abe(orig):
            def adapt_best_effort(*a, **k):
                rec = None
                try:
                    node, protos, opsets = a[0], a[1], a[2]
                    rec = {"node": node, "opsets": list(opsets.items()), "warned": False, "kept": None,
                           "protos": list(protos), "result": None}
                    sp.abe.append(rec)
                except Exception as e:  # noqa: BLE001
                    rec = None
                    sp.unobservable.append(f"adapt_best_effort arguments: {type(e).__name__}: {e}")
                with warnings.catch_warnings(record=True) as w:
                    warnings.simplefilter("always")
                    res = orig(*a, **k)
                    if rec is not None:
                        rec["kept"] = res is None
                        rec["result"] = res
                        rec["warned"] = any(issubclass(x.category, RuntimeWarning) for x in w)
                return res
            return adapt_best_effort

        def mk_an(orig):
            def adapt_node(*a, **k):
                try:
                    node, s, t = a[0], a[2], a[3]
                except Exception as e:  # noqa: BLE001
                    sp.unobservable.append(f"adapt_node arguments: {type(e).__name__}: {e}")
                    return orig(*a, **k)
                try:
                    res = orig(*a, **k)
                except Exception as e:  # noqa: BLE001
                    sp.an[id(node)] = (s, t, "raise:" + type(e).__name__)
                    raise
                sp.an[id(node)] = (s, t, "none" if res is None else "list")
                return res
            return adapt_node

        def mk_ai(orig):
            def adapt_inline(*a, **k):
                res = orig(*a, **k)
                try:
                    sp.ai[id(a[0])] = res is not a[1]
                except Exception as e:  # noqa: BLE001
                    sp.unobservable.append(f"adapt_inline arguments: {type(e).__name__}: {e}")
                return res
            return adapt_inline

        for (modname, path), make in zip(self.FACETS, (mk_compile, mk_abe, mk_an, mk_ai)):
            self._install(modname, path, make)
        return self

    def __exit__(self, *exc):
        for owner, name, orig in reversed(self.installed):
            try:
                setattr(owner, name, orig)
            except Exception:  # noqa: BLE001
                pass
        return False


def build_with_spec(R, ins, spec):
    """One build of a history over the Realiser's Vars: names of the arguments / results as the spec says,
    intermediate values renamed through `Var._rename`, public `build` or the low-level Graph API."""
    from spox import build

    names = spec.get("names") or {}
    named_ins = {names.get(role, role): var for role, var in ins.items()}
    outs = {name: R.env[i] for name, i in spec["outs"]}
    for var in getattr(R, "renamed", []):
        var._rename(None)
    R.renamed = []
    for i, nm in (spec.get("renames") or {}).items():
        if i in R.env:
            R.env[i]._rename(nm)
            R.renamed.append(R.env[i])
    if spec.get("low"):
        from spox._graph import results

        for name, var in named_ins.items():
            var._rename(name)
        return results(**outs).with_arguments(*named_ins.values()).to_onnx_model()
    return build(named_ins, outs)


def fresh_build(prog, spec):
    """The same build on fresh objects (nothing was built before): (model, error)."""
    try:
        with warnings.catch_warnings():
            warnings.simplefilter("ignore")
            R = L.Realiser()
            ins, _outs = R.realise(prog)
            return build_with_spec(R, ins, spec), None
    except Exception as e:  # noqa: BLE001
        return None, e


def observe(prog):
    """Realise and build the program with the real code (public API only: argument/inline/build, the
    opset modules, to_function). If the program has `prebuild_outs`, the same Vars are first built into
    another model with those outputs; if it has a `history`, every spec but the last is built first, over
    the same Vars (multi-build history). Returns dict(model, error, stage, spies, earlier)."""
    out = {"model": None, "error": None, "stage": None, "spies": None, "earlier": []}
    specs = prog.get("history") or []
    with Spies() as sp:
        try:
            from spox import build

            with warnings.catch_warnings():
                warnings.simplefilter("ignore")
                R = L.Realiser()
                ins, outs = R.realise(prog)
                pre = [o for o in prog.get("prebuild_outs", []) if o in R.env]
                if pre:
                    build(ins, {f"pre{i}": R.env[o] for i, o in enumerate(pre)})
        except Exception as e:  # noqa: BLE001
            out.update(error=e, stage="construct")
            return out
        for spec in specs[:-1]:
            try:
                with warnings.catch_warnings():
                    warnings.simplefilter("ignore")
                    out["earlier"].append((spec, build_with_spec(R, ins, spec), None))
            except Exception as e:  # noqa: BLE001
                out["earlier"].append((spec, None, e))
        # function graphs are compiled once and cached: keep what the earlier build showed of them,
        # observe the adaptation of the final build only
        sp.earlier_roots = list(sp.roots)
        sp.roots, sp.abe, sp.an, sp.ai, sp.stack = [], [], {}, {}, []
        out["spies"] = sp
        try:
            with warnings.catch_warnings():
                warnings.simplefilter("ignore")
                if specs:
                    out["model"] = build_with_spec(R, ins, specs[-1])
                elif prog.get("with_opset"):
                    # the low-level Graph API: extra opset requirements, possibly spelled "ai.onnx"
                    from spox._graph import results

                    for name, var in ins.items():
                        var._rename(name)
                    graph = results(**outs).with_arguments(*ins.values())
                    graph = graph.with_opset(*[(d, int(v)) for d, v in prog["with_opset"]])
                    out["model"] = graph.to_onnx_model()
                else:
                    out["model"] = build(ins, outs)
        except Exception as e:  # noqa: BLE001
            out.update(error=e, stage="build")
    return out


def history_wiring(prog, obs):
    """Every build of a history against the same build on fresh objects: the ModelProtos must be equal
    (a difference is a broken correspondence; the values are judged separately by the oracle)."""
    out = []
    specs = prog.get("history") or []
    if not specs or obs.get("stage") == "construct":
        return out
    built = list(obs["earlier"]) + [(specs[-1], obs["model"], obs["error"])]
    for k, (spec, model, err) in enumerate(built):
        fm, fe = fresh_build(prog, spec)
        if (model is None) != (fm is None):
            out.append(("history", f"build {k + 1} of {len(built)}: after the earlier builds "
                        f"{'raises ' + type(err).__name__ if model is None else 'succeeds'}, on fresh objects "
                        f"{'raises ' + type(fe).__name__ if fm is None else 'succeeds'}"))
        elif model is not None and model.SerializeToString(deterministic=True) != fm.SerializeToString(deterministic=True):
            diff = ""
            for a, b in zip(model.graph.node, fm.graph.node):
                if a != b:
                    diff = f"{a.name}: inputs {list(a.input)} outputs {list(a.output)} vs {b.name}: inputs {list(b.input)} outputs {list(b.output)}"
                    break
            out.append(("history", f"build {k + 1} of {len(built)} differs from the same build on fresh objects ({diff or 'outside the main graph nodes'})"))
    return out


def to_model_input(sp: Spies):
    """The observed compile tree as the driver's request; returns (request graph, id -> node, notes)."""
    from spox._attributes import AttrGraph
    from spox._function import Function
    from spox._inline import _Inline
    from spox._internal_op import _InternalNode, _Introduce

    ids: dict[int, int] = {}
    nodes_by_id: dict[int, object] = {}
    notes: list[str] = []
    # Graph copies made by with_name/with_opset share the `_results` dict of the graph they come from:
    # that identifies the compile records of a function graph (compiled by Function.opset_req, and again
    # by to_onnx_function) and tells them from the record of the graph build() was called on.
    def gkey(g):
        return id(getattr(g, "_results", g))

    all_roots = list(getattr(sp, "earlier_roots", [])) + list(sp.roots)
    func_keys = set()

    def scan(rec):
        if rec.get("result") is not None:
            for node in rec["result"].nodes:
                if isinstance(node, Function):
                    func_keys.add(gkey(node.func_graph))
        for c in rec["children"]:
            scan(c)

    for r in all_roots:
        scan(r)
    func_roots: dict = {}
    for r in all_roots:
        if gkey(r["graph"]) in func_keys and r.get("result") is not None:
            func_roots.setdefault(gkey(r["graph"]), r)
    main_roots = [r for r in sp.roots if gkey(r["graph"]) not in func_keys]

    def nid(node):
        if id(node) not in ids:
            ids[id(node)] = len(ids) + 1
            nodes_by_id[ids[id(node)]] = node
        return ids[id(node)]

    def concrete(node):
        """adapt_node can build a valid singleton model: all ranks known, no reference attribute"""
        vs = list(node.inputs.get_vars().values()) + list(node.outputs.get_vars().values())
        return all(v.type is not None and getattr(v.type, "shape", ()) is not None for v in vs)

    def graph(rec):
        res = rec["result"]
        out = []
        n_intro = 0
        if res is None:
            notes.append("compile did not finish")
            return {"nodes": []}
        for node, protos in res.nodes.items():
            if isinstance(node, _Introduce):
                n_intro += 1
                try:
                    from spox._type_system import Optional as _OptT

                    fwd_opt = any(isinstance(v.type, _OptT) for v in node.inputs.inputs)
                except Exception:  # noqa: BLE001
                    fwd_opt = False
                if fwd_opt:  # its Identity nodes need opset 16: an explicit node of the model
                    out.append({"id": nid(node), "np": len(protos), "k": "introopt"})
                continue
            j = {"id": nid(node), "np": len(protos)}
            if isinstance(node, _Inline):
                j.update(k="inline", imports=[[i.domain, i.version] for i in node.model.opset_import],
                         hd=any(p.domain in ("", "ai.onnx") for p in protos))
            elif isinstance(node, Function):
                fr = func_roots.get(gkey(node.func_graph))
                if fr is None:
                    notes.append("function graph compile not observed")
                j.update(k="func", d=node.op_type.domain, v=node.op_type.version, nm=node.op_type.identifier,
                         subs=[graph(fr)] if fr else [])
            elif isinstance(node, _InternalNode):
                j.update(k="internal")
            else:
                name = res.scope.node[node]
                subs = []
                for key, attr in node.attrs.get_fields().items():
                    if isinstance(attr, AttrGraph):
                        want = f"{name}_{key}__"
                        ch = [c for c in rec["children"] if c["prefix"] == want]
                        if len(ch) != 1:
                            notes.append(f"body {want}: {len(ch)} compile records")
                        subs += [graph(c) for c in ch[:1]]
                has_ref = any(a.ref_attr_name for p_ in protos for a in p_.attribute)
                j.update(k="op", d=node.op_type.domain, o=node.op_type.identifier, v=node.op_type.version,
                         c=concrete(node) and not has_ref, subs=subs)
            out.append(j)
        if n_intro != 1:
            notes.append(f"{n_intro} _Introduce nodes in one compiled graph")
        return {"nodes": out}

    if len(main_roots) != 1:
        return None, nodes_by_id, [f"{len(main_roots)} compile records for the main graph"]
    return graph(main_roots[0]), nodes_by_id, notes


MODEL_CLASS = {
    "keepInline": "keep", "keepInternal": "keep", "keepProtos": "keep", "keepSubgraph": "keep",
    "keepSameVersion": "keep", "keepSameSchema": "keep", "keepNonDefault": "keep-warn",
    "convertInline": "convert-inline", "convert": "convert", "convertError": "convert-error",
    "pyError": "py-error",
}


def real_class(rec, sp: Spies):
    """Observable decision class of one adapt_best_effort call."""
    from spox._inline import _Inline

    node = rec["node"]
    if isinstance(node, _Inline):
        conv = sp.ai.get(id(node))
        return ("convert-inline" if conv else "keep"), None
    if id(node) in sp.an:
        s, t, how = sp.an[id(node)]
        if how == "list":
            return "convert", (s, t)
        if how == "none":
            return "give-up", (s, t)
        return "convert-error", (s, t)
    if rec["kept"] is None:
        return "py-error", None
    if rec["kept"]:
        return ("keep-warn" if rec["warned"] else "keep"), None
    return "other", None


def proto_form(p):
    """What the schema of a node constrains: operator, attribute names/kinds, arities."""
    return {"op": p.op_type, "domain": "" if p.domain == "ai.onnx" else p.domain,
            "attrs": sorted((a.name, int(a.type)) for a in p.attribute),
            "vals": sorted((a.name, a.SerializeToString().hex()) for a in p.attribute),
            "n_in": len(p.input), "n_out": len(p.output)}


def form_problems(form, version):
    """Is a node of this form well-formed for the schema in force at `version`? (onnx.defs only)"""
    import onnx.defs

    try:
        sch = onnx.defs.get_schema(form["op"], version, form["domain"])
    except Exception:  # noqa: BLE001
        return [f"{form['op']} has no schema at {version}"]
    out = []
    for n, k in form["attrs"]:
        if n not in sch.attributes:
            out.append(f"attribute {n!r} unknown to {form['op']}-{sch.since_version}")
        elif int(sch.attributes[n].type.value) != k:
            out.append(f"attribute {n!r} of the wrong kind")
    have = {n for n, _ in form["attrs"]}
    for n, ad in sch.attributes.items():
        if ad.required and n not in have:
            out.append(f"required attribute {n!r} missing")
    if not (sch.min_input <= form["n_in"] <= sch.max_input):
        out.append(f"{form['n_in']} inputs")
    if not (sch.min_output <= form["n_out"] <= sch.max_output):
        out.append(f"{form['n_out']} outputs")
    return out


def extract_real(obs):
    """Everything the correspondence needs from one observed build, as plain data (picklable)."""
    from spox._function import Function
    from spox._internal_op import _Introduce

    real = {"request": None, "mismatches": [], "abe": [], "imports": None, "func_keys": [], "func_imports": {},
            "complete": False}
    sp = obs["spies"]
    if sp is None:
        return real
    for u in sp.unobservable[:4]:
        real["mismatches"].append(("not observable", u))
    if sp.unobservable:
        return real
    if any(r["result"] is None for r in sp.roots):
        return real  # the build stopped inside compile_graph: no complete structure to give to the model
    req, nodes_by_id, notes = to_model_input(sp)
    for n in notes:
        real["mismatches"].append(("structure", n))
    if req is None:
        return real
    real["request"] = req
    ids = {id(n): i for i, n in nodes_by_id.items()}
    # a function graph is compiled twice (for its requirements, then by to_onnx_function with the model's
    # opsets): what is emitted comes from the last adaptation of a node
    last = {}
    for k, rec in enumerate(sp.abe):
        last[id(rec["node"])] = k
    for k, rec in enumerate(sp.abe):
        node = rec["node"]
        if (isinstance(node, _Introduce) and id(node) not in ids) or last[id(node)] != k:
            continue
        cls, st = real_class(rec, sp)
        item = {"id": ids.get(id(node)), "op": f"{node.op_type.identifier}@{node.op_type.version}",
                "opsets": [list(x) for x in rec["opsets"]], "cls": cls, "st": list(st) if st else None,
                "fresh": None, "name": None, "qual": None, "orig_form": None, "conv_form": None}
        if cls == "convert" and rec["result"] is not None:
            p0 = rec["protos"][0]
            orig = set(p0.output) | set(p0.input)
            fresh = [o for p_ in rec["result"] for o in p_.output if o and o not in orig]
            item.update(fresh=fresh, name=p0.name, qual=all(o.startswith(p0.name + "__") for o in fresh),
                        orig_form=proto_form(p0))
            # hypotheses of `adapted_names_fresh_strings`, observed on every real conversion: the node's name does not
            # end in "_", the names the converter invented contain no "__" and are distinct
            local = [o[len(p0.name) + 2:] if o.startswith(p0.name + "__") else o for o in fresh]
            item["name_hyps"] = [Q.ends_clean(p0.name), all(Q.no_sep(o) for o in local), len(set(fresh)) == len(fresh)]
            main = [p_ for p_ in rec["result"] if set(p_.output) & set(p0.output)]
            item["conv_form"] = [proto_form(p_) for p_ in main]
            item["conv_others"] = [proto_form(p_) for p_ in rec["result"] if p_ not in main]
        real["abe"].append(item)
    if obs["model"] is not None:
        real["complete"] = True
        real["imports"] = [[o.domain, o.version] for o in obs["model"].opset_import]

        def collect(g):
            # BuildResult.functions: the graph's own Function nodes (each with its graph's functions),
            # then the functions of the bodies of its other nodes
            for j in g["nodes"]:
                n = nodes_by_id[j["id"]]
                if isinstance(n, Function):
                    real["func_keys"].append([n.op_type.domain, n.op_type.identifier])
                    for s_ in j.get("subs", []):
                        collect(s_)
            for j in g["nodes"]:
                if not isinstance(nodes_by_id[j["id"]], Function):
                    for s_ in j.get("subs", []):
                        collect(s_)

        collect(req)
        real["func_emitted"] = [[f.domain, f.name] for f in obs["model"].functions]
        for f in obs["model"].functions:
            real["func_imports"][f"{f.domain}:{f.name}"] = [[o.domain, o.version] for o in f.opset_import]
    return real


def compare(real, m, mismatches):
    """Model (driver answer `m`) against the observed build (`real`)."""
    if "error" in m:
        mismatches.append(("driver", m["error"]))
        return
    ents = {e["id"]: e for e in m["main"]}
    for f in m["funcs"]:
        for e in f["entries"]:
            ents.setdefault(e["id"], e)
    seen = set()
    for rec in real["abe"]:
        i = rec["id"]
        if i is None or i not in ents:
            mismatches.append(("node", f"adapted node {rec['op']} unknown to the model"))
            continue
        seen.add(i)
        e = ents[i]
        if rec["opsets"] != e["opsets"]:
            mismatches.append(("opsets", f"{rec['op']}: real {rec['opsets']} model {e['opsets']}"))
        cls, st = rec["cls"], rec["st"]
        mcls = MODEL_CLASS[e["dec"]]
        if cls != mcls:
            mismatches.append(("decision", f"{rec['op']}: real {cls}{st or ''} model {e['dec']}"))
        elif st is not None and [e.get("src"), e.get("tgt")] != st:
            mismatches.append(("versions", f"{rec['op']}: real {st} model {[e.get('src'), e.get('tgt')]}"))
        if cls == "convert-inline" and e.get("tgt") != dict(map(tuple, rec["opsets"])).get(""):
            mismatches.append(("versions", "inline target"))
        if cls == "convert" and rec["fresh"] is not None:
            if rec.get("name_hyps") is not None and not all(rec["name_hyps"]):
                mismatches.append(("names", f"{rec['name']}: introduced {rec['fresh']}: a hypothesis of adapted_names_fresh_strings does "
                                            f"not hold (node name does not end in '_', no '__' in converter names, distinct) = {rec['name_hyps']}"))
            if rec["fresh"] and rec["qual"] != bool(e.get("qualified")):
                mismatches.append(("names", f"{rec['name']}: introduced {rec['fresh']}, model says qualified={e.get('qualified')}"))
            # the converter's observable output: the node that now defines the original outputs is
            # well-formed for the schema at the target, and its form changed whenever the model says the
            # old form is not accepted there
            tgt = e.get("tgt")
            forms = rec["conv_form"] or []
            if len(forms) != 1:
                mismatches.append(("converter", f"{rec['op']}: {len(forms)} nodes define the original outputs"))
            for fm in forms + (rec.get("conv_others") or []):
                pr = form_problems(fm, tgt)
                if pr:
                    mismatches.append(("converter", f"{rec['op']} -> {tgt}: emitted {fm['op']} {pr[0]}"))
            if forms and "mustChange" in e:
                changed = (forms[0]["vals"], forms[0]["n_in"]) != (rec["orig_form"]["vals"], rec["orig_form"]["n_in"])
                if e["mustChange"] and not changed:
                    mismatches.append(("converter", f"{rec['op']} -> {tgt}: form unchanged although the old form is not accepted at the target"))
    by_name: dict = {}
    for rec in real["abe"]:
        if rec["cls"] == "convert" and rec["fresh"] is not None and rec.get("orig_form"):
            k = (rec["name"], json.dumps(rec["orig_form"], sort_keys=True), json.dumps(rec["st"]))
            first = by_name.setdefault(k, rec["fresh"])
            if first != rec["fresh"]:
                mismatches.append(("names", f"{rec['name']} ({rec['op']}) converted twice in one build (scopes of their own): "
                                            f"introduced {first} and {rec['fresh']}; the model's names depend on the node name only"))
    if real["complete"]:
        if real["imports"] != m["imports"]:
            mismatches.append(("imports", f"real {real['imports']} model {m['imports']}"))
        missing = set(ents) - seen
        if missing:
            mismatches.append(("node", f"{len(missing)} model nodes never adapted by the real code"))
        if len(real["func_keys"]) != len(m["funcs"]):
            mismatches.append(("functions", f"{len(real['func_keys'])} function nodes, model lists {len(m['funcs'])}"))
        # the loop of to_onnx_model over the functions: occurrences (keys in order) and what is emitted —
        # one FunctionProto per (domain, name), in first-occurrence order
        if "funcKeys" in m:
            if real["func_keys"] != m["funcKeys"]:
                mismatches.append(("functions", f"function occurrences {real['func_keys']}, model {m['funcKeys']}"))
            emitted = real.get("func_emitted")
            if emitted is not None and m.get("merged") != emitted:
                mismatches.append(("functions", f"model.functions {emitted}, model's merge {m.get('merged')}"))
        for (dom, name), mf in zip(real["func_keys"], m["funcs"]):
            ri = real["func_imports"].get(f"{dom}:{name}")
            if ri is None:
                mismatches.append(("functions", f"function {name} not in model.functions"))
            elif ri != mf["imports"]:
                mismatches.append(("functions", f"{name}: real imports {ri} model {mf['imports']}"))


def _empty_result(job):
    return {"idx": job[0], "fam": job[1], "real": None, "verdict": None, "small": None, "v2": None, "key": None,
            "feats": None, "crash": None, "stats": {}, "unsupported": []}


def process_chunk(chunk):
    """Each case runs in a forked child of the worker, so that an abort inside onnxruntime (a C++
    assertion kills the process) costs exactly that case: it comes back as `died`."""
    import os
    import pickle

    out = []
    for j in chunk:
        r_fd, w_fd = os.pipe()
        pid = os.fork()
        if pid == 0:  # child
            code = 0
            try:
                os.close(r_fd)
                data = pickle.dumps(process_case(j))
                with os.fdopen(w_fd, "wb") as w:
                    w.write(data)
            except BaseException:  # noqa: BLE001
                code = 1
            finally:
                os._exit(code)
        os.close(w_fd)
        chunks_ = []
        with os.fdopen(r_fd, "rb") as r:
            while True:
                b = r.read(1 << 16)
                if not b:
                    break
                chunks_.append(b)
        os.waitpid(pid, 0)
        try:
            out.append(pickle.loads(b"".join(chunks_)))
        except Exception:  # noqa: BLE001
            out.append(dict(_empty_result(j), died=True))
    return out


def process_case(args):
    """One program, start to finish, in a worker: build under observation, plain-data extraction for the
    correspondence, model-free verdict, shrinking. Never raises."""
    idx, fam, prog, shrink_budget = args
    res = {"idx": idx, "fam": fam, "real": None, "verdict": None, "small": None, "v2": None, "key": None,
           "feats": None, "crash": None, "stats": {}, "unsupported": []}
    try:
        del UNSUPPORTED[:]
        obs = observe(prog)
        try:
            res["real"] = extract_real(obs)
        except Exception as e:  # noqa: BLE001
            res["real"] = {"request": None, "abe": [], "complete": False,
                           "mismatches": [("correspondence-crash", f"{type(e).__name__}: {e}")]}
        try:
            for mm in history_wiring(prog, obs):
                res["real"].setdefault("mismatches", []).append(mm)
        except Exception as e:  # noqa: BLE001
            res["real"].setdefault("mismatches", []).append(("correspondence-crash", f"history: {type(e).__name__}: {e}"))
        try:
            heavy = any(st["op"] in ("func", "reffn") or st.get("share") for st, *_ in L.walk(prog["nodes"]))
            if not prog.get("history") and obs.get("stage") != "construct" and (heavy or fam == "targeted" or idx % 4 == 0):
                # the same program built once more in this process, on fresh objects: same bytes (or the same
                # failure). A difference is a broken correspondence — something outlives a build.
                obs2 = observe(prog)
                m1, m2 = obs["model"], obs2["model"]
                if (m1 is None) != (m2 is None):
                    res["real"].setdefault("mismatches", []).append(
                        ("rebuild", f"first build {'raises ' + type(obs['error']).__name__ if m1 is None else 'succeeds'}, "
                                    f"the same program built again {'raises ' + type(obs2['error']).__name__ if m2 is None else 'succeeds'}"))
                elif m1 is not None and m1.SerializeToString(deterministic=True) != m2.SerializeToString(deterministic=True):
                    diff = ""
                    pairs = list(zip(m1.graph.node, m2.graph.node)) + [
                        (a, b) for f1, f2 in zip(m1.functions, m2.functions) for a, b in zip(f1.node, f2.node)]
                    for a, b in pairs:
                        if a != b:
                            diff = f"{a.name}: {list(a.input)} -> {list(a.output)} vs {b.name}: {list(b.input)} -> {list(b.output)}"
                            break
                    res["real"].setdefault("mismatches", []).append(
                        ("rebuild", f"the same program built twice in one process gives different models ({diff or 'outside the nodes'})"))
        except Exception as e:  # noqa: BLE001
            res["real"].setdefault("mismatches", []).append(("correspondence-crash", f"rebuild: {type(e).__name__}: {e}"))
        verdict = judge(prog, obs)
        sp = obs["spies"]
        st = res["stats"]
        if sp is not None:
            st["nodes_adapted"] = len(sp.abe)
            st["converted_nodes"] = sum(1 for v in sp.an.values() if v[2] == "list")
            st["converted_inlines"] = sum(1 for v in sp.ai.values() if v)
            st["nconv"] = len(sp.an) + st["converted_inlines"]
        if obs["model"] is not None:
            st["imports"] = ",".join(f"{o.domain or 'ai.onnx'}:{o.version}" for o in obs["model"].opset_import)
            st["imports_list"] = [[o.domain, o.version] for o in obs["model"].opset_import]
        res["verdict"] = verdict
        if verdict is not None:
            small = prog if fam.startswith("witness") else shrink(prog, verdict[0], budget=shrink_budget)
            v2 = fails(small) or verdict
            res.update(small=small, v2=v2, key=classify(v2[0], small, v2[1]), feats=L.features(small))
        res["unsupported"] = list(UNSUPPORTED)
    except Exception as e:  # noqa: BLE001
        res["crash"] = f"{type(e).__name__}: {e} :: {core.fmt_exc()[-400:]}"
    return res


# ------------------------------------------------------------------------------------ oracle
def node_problems(graph, imports, where, out):
    """Every node well-formed for the schema in force at the imported version of its domain."""
    import onnx
    import onnx.defs

    for n in graph.node if hasattr(graph, "node") else graph:
        dom = "" if n.domain == "ai.onnx" else n.domain
        if dom in imports and dom in ("", "ai.onnx.ml"):
            try:
                sch = onnx.defs.get_schema(n.op_type, imports[dom], dom)
            except Exception:  # noqa: BLE001
                out.append(f"{where}: {n.op_type} has no schema at {dom!r}:{imports[dom]}")
                sch = None
            if sch is not None:
                for a in n.attribute:
                    if a.name not in sch.attributes:
                        out.append(f"{where}: {n.op_type}-{sch.since_version} at import {imports[dom]} does not take attribute {a.name!r}")
                    elif int(sch.attributes[a.name].type.value) != int(a.type):
                        out.append(f"{where}: {n.op_type} attribute {a.name!r} has the wrong kind")
                for an, ad in sch.attributes.items():
                    if ad.required and an not in {a.name for a in n.attribute}:
                        out.append(f"{where}: {n.op_type}-{sch.since_version} requires attribute {an!r}")
                if not (sch.min_input <= len(n.input) <= sch.max_input):
                    out.append(f"{where}: {n.op_type}-{sch.since_version} with {len(n.input)} inputs")
                if not (sch.min_output <= len(n.output) <= sch.max_output):
                    out.append(f"{where}: {n.op_type}-{sch.since_version} with {len(n.output)} outputs")
        elif dom not in imports:
            out.append(f"{where}: {n.op_type} in domain {dom!r} which is not imported")
        for a in n.attribute:
            if a.type == onnx.AttributeProto.GRAPH:
                node_problems(a.g, imports, f"{where}/{n.name}.{a.name}", out)


RUNTIME_STAGES = ("runtime-rejects", "runtime-fails", "results-differ")
UNSUPPORTED: list = []


def judge(prog, obs):
    """Model-free verdict on one program. A failure at run time counts only if the same program with all
    constructors from one opset module runs and agrees with the numpy evaluator (otherwise the runtime,
    or the evaluator, does not support the program at all: recorded, not a verdict)."""
    v = judge1(prog, obs)
    if v is not None and v[0] in RUNTIME_STAGES:
        base = L.uniform(prog)
        if base != prog:
            b = judge1(base, observe(base))
        else:
            b = v
        if b is not None and b[0] in RUNTIME_STAGES:
            # an inlined legacy model is a mix of versions by itself: if the single-module program runs and
            # agrees once its inlined models are taken out (and each of them runs alone — that is the
            # reference), the runtime supports everything and the failure is the inlined models' handling
            base2 = drop_inlines(base)
            if base2 is not None:
                b2 = judge1(base2, observe(base2))
                if b2 is None and pieces_supported(prog):
                    return v
            UNSUPPORTED.append((v[0], v[1][:120]))
            return None
    return v


def pieces_supported(prog) -> bool:
    """Third parties on the pieces: every inlined legacy model, converted ALONE by onnx.version_converter to
    the default-domain version the program must import, loads in onnxruntime and computes what it computes
    at the version it was written in. (onnxruntime 1.30 refuses some converted LogSoftmax models by itself.)"""
    import onnx
    import onnx.version_converter
    import onnxruntime as ort

    tgt = L.expected_imports(prog).get("", 14)
    for st, *_ in L.walk(prog["nodes"]):
        if st["op"] != "inline" or st["model"]["kind"] not in ("oldx", "old"):
            continue
        md = st["model"]
        try:
            m = L.oldx_model(md, for_runtime=True) if md["kind"] == "oldx" else L.old_model(md["body"], md["opset"])
            if md["opset"] != tgt:
                m = onnx.version_converter.convert_version(m, tgt)
            so = ort.SessionOptions()
            so.log_severity_level = 4
            sess = ort.InferenceSession(m.SerializeToString(), so, providers=["CPUExecutionProvider"])
            for x, _y in XS:
                got = sess.run(None, {"a": x})[0]
                ref = L.oldx_reference(md, x) if md["kind"] == "oldx" else L.OLD_NP[md["body"]](x)
                if not np.allclose(got, ref, rtol=2e-3, atol=1e-3, equal_nan=True):
                    return False
        except Exception:  # noqa: BLE001
            return False
    return True


def drop_inlines(prog):
    """The program with every inlined LEGACY model (hand-written, old opset) replaced by an inlined model built
    by spox from the newest module the program uses — same structure (an inlined model feeding the same
    consumers), nothing to convert. None if the program inlines no legacy model."""
    p = copy.deepcopy(prog)
    vs = [st.get("mv") for st, *_ in L.walk(p["nodes"]) if "mv" in st] + [17]
    mv = max(v for v in vs if v)
    n = 0
    for st, *_ in L.walk(p["nodes"]):
        if st["op"] == "inline" and st["model"].get("kind") in ("oldx", "old"):
            n += 1
            st["model"] = {"kind": "spox", "mv": mv,
                           "prog": {"nodes": [{"id": "v9000", "op": "neg", "mv": mv, "args": ["x"]}], "out": "v9000"}}
    return p if n else None


def judge1(prog, obs):
    """Model-free verdict on one program. Returns (stage, message) of the first failure, or None.
    Every build of a history is judged (the earlier ones first), each against the abstract program its
    outputs span and fed under the names that build was given."""
    if obs["error"] is not None and obs["stage"] == "construct":
        e = obs["error"]
        return (f"construct-raises-{type(e).__name__}", str(e).splitlines()[0][:160] if str(e) else "")
    specs = prog.get("history") or []
    if specs:
        built = list(obs.get("earlier") or []) + [(specs[-1], obs["model"], obs["error"])]
        for k, (spec, model, err) in enumerate(built):
            sub = L.spec_program(prog, spec)
            tag = f" [build {k + 1} of {len(built)} over the same objects]"
            if err is not None:
                return (f"build-raises-{type(err).__name__}", (str(err).splitlines()[0][:140] if str(err) else "") + tag)
            v = judge_model(sub, model, spec.get("names") or {}, [n for n, _ in spec["outs"]])
            if v is not None:
                return (v[0], v[1] + tag)
        return None
    if obs["error"] is not None:
        e = obs["error"]
        return (f"{obs['stage']}-raises-{type(e).__name__}", str(e).splitlines()[0][:160] if str(e) else "")
    return judge_model(prog, obs["model"], {}, None)


def judge_model(prog, model, names, out_names):
    """One built model against the abstract program (model-free). `names`: role -> input name."""
    import onnx
    import onnxruntime as ort

    pairs = [("" if o.domain == "ai.onnx" else o.domain, o.version) for o in model.opset_import]
    doms = [d for d, _ in pairs]
    if len(set(doms)) != len(doms):
        return ("imports-duplicate-domain", f"{pairs}")
    imports = dict(pairs)
    want = L.expected_imports(prog)
    if imports.get("", 0) < 14:
        return ("imports-default-below-14", f"{pairs}")
    if imports != want:
        return ("imports-not-max-required", f"imports {sorted(imports.items())}, required {sorted(want.items())}")
    probs: list[str] = []
    node_problems(model.graph, imports, "main", probs)
    for f in model.functions:
        fi = {("" if o.domain == "ai.onnx" else o.domain): o.version for o in f.opset_import}
        fdoms = [("" if o.domain == "ai.onnx" else o.domain) for o in f.opset_import]
        if len(set(fdoms)) != len(fdoms):
            probs.append(f"function {f.name} imports a domain twice: {sorted(fi.items())}")
        # one version per domain holds across the model AND its functions
        for d_, v_ in sorted(fi.items()):
            if d_ in imports and imports[d_] != v_:
                probs.append(f"function {f.name} imports {d_ or 'ai.onnx'}:{v_} but the model imports {d_ or 'ai.onnx'}:{imports[d_]}")
        if "" not in fi:
            probs.append(f"function {f.name} does not import the default domain")
        node_problems(f.node, fi, f"function {f.name}", probs)
    if probs:
        return ("node-invalid-at-import", probs[0])
    # custom-domain nodes (no runtime implements them; their meaning in the generated programs is the
    # identity) are written as Identity for the checker's shape inference (onnx 1.22 crashes when an
    # ai.onnx.ml node is fed by a value it cannot type) and for the runtime
    model = L.strip_custom(model)
    try:
        onnx.checker.check_model(model, full_check=True)
    except Exception as e:  # noqa: BLE001
        return ("checker-rejects", str(e).splitlines()[0][:160])
    try:
        so = ort.SessionOptions()
        so.intra_op_num_threads = 1
        so.inter_op_num_threads = 1
        so.log_severity_level = 4
        sess = ort.InferenceSession(model.SerializeToString(), so, providers=["CPUExecutionProvider"])
    except Exception as e:  # noqa: BLE001
        # onnxruntime 1.30's graph optimizer fails by itself on some valid models (Identity elimination next
        # to a converted Softmax: "GetIndexFromName ... _new_reshape"): a model is rejected only if it is
        # rejected with the optimizations switched off as well
        try:
            so.graph_optimization_level = ort.GraphOptimizationLevel.ORT_DISABLE_ALL
            sess = ort.InferenceSession(model.SerializeToString(), so, providers=["CPUExecutionProvider"])
            UNSUPPORTED.append(("runtime-optimizer-fails", str(e).splitlines()[0][:120]))
        except Exception:  # noqa: BLE001
            return ("runtime-rejects", str(e).splitlines()[0][:200])
    if out_names is not None and [o.name for o in model.graph.output] != list(out_names):
        return ("outputs-misnamed", f"outputs {[o.name for o in model.graph.output]}, requested {list(out_names)}")
    roles = names
    names = {i.name for i in sess.get_inputs()}
    for (x, y) in XS:
        for c in (True, False):
            feed = {"x": x, "y": y, "c": np.array(c), "s": np.array([2, 3], np.int64)}
            feed = {roles.get(k, k): v for k, v in feed.items()}
            feed = {k: v for k, v in feed.items() if k in names}
            try:
                got = sess.run(None, feed)
            except Exception as e:  # noqa: BLE001
                return ("runtime-fails", str(e).splitlines()[0][:200])
            with np.errstate(all="ignore"):
                ref = L.np_eval(prog, x, y, c)
            for g, r in zip(got, ref):
                if g.shape != r.shape or g.dtype != r.dtype:
                    return ("results-differ", f"shape/dtype {g.shape}/{g.dtype} vs {r.shape}/{r.dtype}")
                # non-finite entries (overflowing products) must sit at the same places; the tolerance is scaled
                # by the largest FINITE reference value
                fin = np.isfinite(r)
                if not np.array_equal(fin, np.isfinite(g)) or not np.array_equal(np.isnan(r), np.isnan(g)):
                    return ("results-differ", f"non-finite values at other places (c={c})")
                scale = float(np.max(np.abs(r[fin]))) if fin.any() else 0.0
                if not np.allclose(g[fin], r[fin], rtol=2e-3, atol=1e-3 * (1 + scale)):
                    return ("results-differ", f"max abs diff {float(np.max(np.abs(g[fin] - r[fin]))):.4g} (c={c})")
            if "c" not in names:
                break
    return None


INFORMATIONAL = {"inline-converted"}


def classify(stage, prog, msg=""):
    """Key of a (shrunk) witness: failure stage + the structural features that can cause it.
    The listed families get their own keys; everything else `<stage>:<features>`."""
    feats = set(L.features(prog)) - INFORMATIONAL
    bad_attr = stage in ("build-raises-ValidationError", "node-invalid-at-import", "checker-rejects") and (
        "Field 'shape'" not in msg)
    dup = "multiple times" in msg or "single static assignment" in msg
    if dup and "two-fresh-values" in feats:
        return "adapt:duplicate-fresh-name:>=2-converted-nodes"
    feats.discard("two-fresh-values")
    body_family = {"conv-in-body-below-import", "inline-in-body-below-import", "conv-unknown-rank"}
    # adapt_node's own checker call on a singleton model with a shape-less value info
    if stage in ("build-raises-ValidationError", "construct-raises-ValidationError") and "Field 'shape'" in msg \
            and "conv-unknown-rank" in feats \
            and feats <= body_family:
        return "adapt:unknown-rank:build-fails"
    if bad_attr and "conv-in-body-below-import" in feats and feats <= body_family:
        return "adapt:body-own-opsets:converted-node-in-body"
    if bad_attr and "inline-in-body-below-import" in feats and feats <= body_family:
        return "adapt:body-own-opsets:inline-in-body"
    if stage in ("build-raises-InferenceError", "construct-raises-InferenceError") and "expect a" in msg \
            and "ref-attr-converted" in feats and feats <= (body_family | {"ref-attr-converted", "inline-converted"}):
        return "adapt:ref-attribute-in-function-body:build-fails"
    if stage == "build-raises-BuildError" and "initializers" in msg and "inline-converted" in set(L.features(prog)):
        return "adapt-inline:converter-initializers:build-fails"
    if bad_attr and "inline-ml-node-form-rejected" in feats and feats <= (body_family | {"inline-ml-node-form-rejected", "inline-below-14-target-14"}) \
            and "LabelEncoder" in msg:
        return "adapt-inline:ml-node-form-rejected:build-fails"
    if bad_attr and feats == {"inline-below-14-target-14"}:
        return "adapt-inline:source-below-14:not-converted"
    return f"{stage}:{'+'.join(sorted(feats)) or 'plain'}"


def fails(prog):
    obs = observe(prog)
    return judge(prog, obs)


def shrink(prog, stage, budget=120):
    """Greedy structural shrinking that keeps the failure stage: single output, then repeatedly remove
    one statement anywhere (its users see its first argument, or the input x), bodies may become empty."""
    cur = copy.deepcopy(prog)

    def still(p):
        nonlocal budget
        if budget <= 0:
            return False
        budget -= 1
        try:
            v = fails(p)
        except Exception:  # noqa: BLE001
            return False
        return v is not None and v[0] == stage

    def all_ids(nodes, acc):
        for st in nodes:
            acc.append(st["id"])
            for blk in L.sub_blocks(st):
                all_ids(blk["nodes"], acc)
        return acc

    def remove(p, sid):
        """A copy of p without statement sid."""
        p = copy.deepcopy(p)
        repl = [None]

        def rm(nodes):
            for i, st in enumerate(nodes):
                if st["id"] == sid:
                    args = [a for a in st.get("args", []) if a != sid]
                    repl[0] = args[0] if args and st["op"] != "func" else "x"
                    if st["op"] == "func":
                        repl[0] = args[0] if args else "x"
                    del nodes[i]
                    return True
                for blk in L.sub_blocks(st):
                    if rm(blk["nodes"]):
                        return True
            return False

        if not rm(p["nodes"]):
            return None

        def sub(nodes):
            for st in nodes:
                if "args" in st:
                    st["args"] = [repl[0] if a == sid else a for a in st["args"]]
                for blk in L.sub_blocks(st):
                    if blk["out"] == sid:
                        blk["out"] = repl[0]
                    sub(blk["nodes"])

        sub(p["nodes"])
        p["outs"] = [repl[0] if o == sid else o for o in p["outs"]]
        # a function parameter is only visible inside its body; a body value only inside the body:
        # keep the candidate only if every reference is still defined where it is used
        return p if well_scoped(p) else None

    def well_scoped(p):
        def chk(nodes, vis):
            vis = set(vis)
            for st in nodes:
                if any(a not in vis for a in st.get("args", [])):
                    return False
                if st["op"] == "if":
                    for blk in (st["then"], st["else"]):
                        inner = chk(blk["nodes"], vis)
                        if inner is False or blk["out"] not in inner:
                            return False
                if st["op"] == "func":
                    inner = chk(st["body"]["nodes"], set(st["params"]))
                    if inner is False or st["body"]["out"] not in inner:
                        return False
                if st["op"] == "loop":
                    inner = chk(st["body"]["nodes"], vis | {st["param"]})
                    if inner is False or st["body"]["out"] not in inner:
                        return False
                vis.add(st["id"])
            return vis

        defs: dict = {}
        for st, *_ in L.walk(p["nodes"]):
            if st["op"] == "func":  # one name, one definition (several applications share it)
                d = json.dumps([st.get("domain"), st["params"], st["body"]], sort_keys=True)
                if defs.setdefault(st["name"], d) != d:
                    return False
            if st["op"] == "reffn" and defs.setdefault("reffn:" + st["name"], st["mv"]) != st["mv"]:
                return False
        vis = chk(p["nodes"], {"x", "y"})
        return vis is not False and all(o in vis for o in p["outs"]) and bool(p["nodes"])

    if cur.get("history"):
        # fewer builds, plainer specs (the last spec is the observed build: its outputs stay the program's)
        k = 0
        while k < len(cur["history"]) and len(cur["history"]) > 1:
            cand = copy.deepcopy(cur)
            del cand["history"][k]
            cand["outs"] = [i for _, i in cand["history"][-1]["outs"]]
            if still(cand):
                cur = cand
            else:
                k += 1
        for k in range(len(cur["history"])):
            for field in ("renames", "low"):
                if field in cur["history"][k]:
                    cand = copy.deepcopy(cur)
                    del cand["history"][k][field]
                    if still(cand):
                        cur = cand
        used = {i for sp_ in cur["history"] for _, i in sp_["outs"]}
        cand = L.prune(dict(copy.deepcopy(cur), outs=sorted(used)))
        cand["outs"] = list(cur["outs"])
        if still(cand):
            cur = cand
    if len(cur["outs"]) > 1 and not cur.get("history"):
        for o in list(cur["outs"]):
            cand = L.sink(L.prune(dict(cur, outs=[o])))
            if cand["nodes"] and still(cand):
                cur = cand
                break
    changed = True
    while changed and budget > 0:
        changed = False
        for sid in reversed(all_ids(cur["nodes"], [])):
            cand = remove(cur, sid)
            if cand is None:
                continue
            cand = L.sink(L.prune(cand))
            if not cand["nodes"] or any(o in ("x", "y") for o in cand["outs"]):
                continue
            if still(cand):
                cur = cand
                changed = True
                break
    return cur


# ------------------------------------------------------------------------------------ fixed witnesses
def witness_programs():
    """The committed witnesses of the listed findings (also replayed on every run)."""
    out = []
    for name in ("C09-body-own-opsets.json", "C09-unknown-rank.json", "C09-duplicate-fresh-name.json",
                 "C09-inline-below-14.json", "C09-fresh-name-main-and-body.json",
                 "C09-inline-in-body.json", "C09-ref-attribute.json", "C09-inline-initializers.json",
                 "C09-inline-ml-labelencoder1.json"):
        p = FINDINGS_DIR / name
        if p.exists():
            out.append((name, json.loads(p.read_text())["case"]["prog"]))
    return out


# ------------------------------------------------------------------------------------ run
def gen_programs(ck, escalate=False):
    """`escalate`: the covered functions of spox are not the pinned ones (new / changed code): three times
    as many programs of the two families that exercise adaptation hardest, whatever was changed."""
    rng = ck.rng
    progs = []
    n = ck.pick(950, 16000)
    for i in range(n):
        r = rng.random()
        clean = r < 0.85
        g = L.Gen(rng, clean=clean, size=rng.randrange(2, ck.pick(12, 18)), max_depth=rng.randrange(0, 4),
                  allow_dyn=rng.random() < 0.35)
        prog = g.program()
        progs.append(("clean" if clean else "dirty", prog))
        has_func = any(st["op"] == "func" for st, *_ in L.walk(prog["nodes"]))
        has_dyn = bool(L.tainted_ids(prog))  # values of unknown rank (run-time reshape, Loop results)
        if clean and not has_dyn and "with_opset" not in prog and (has_func or rng.random() < 0.08):
            # multi-build history: the same Vars (function applications included) are first built into
            # a model with the original outputs, then into one whose maximum is raised by v21 identities
            p2 = copy.deepcopy(prog)
            outs2 = []
            for k, o in enumerate(p2["outs"]):
                nid = f"h{i}_{k}"
                p2["nodes"].append({"id": nid, "op": "identity", "mv": 21, "args": [o]})
                outs2.append(nid)
            p2["prebuild_outs"] = list(p2["outs"])
            p2["outs"] = outs2
            L.align_unknown_rank(p2)
            progs.append(("history", p2))
        if clean and not has_dyn and "with_opset" not in prog and rng.random() < 0.13:
            # 2-3 builds over the same Vars, the names given to build changing between them
            progs.append(("history-names", L.make_history(rng, prog, i)))
    for i in range(ck.pick(150, 2000) * (3 if escalate else 1)):
        progs.append(("inline-mix", L.inline_mix_program(rng, i)))
    for i in range(ck.pick(100, 1500) * (3 if escalate else 1)):
        progs.append(("func-twice", L.func_twice_program(rng, i)))
    if escalate:
        k = 0
        while k < ck.pick(250, 2500):
            g = L.Gen(rng, clean=True, size=rng.randrange(2, 10), max_depth=rng.randrange(0, 3), allow_dyn=False)
            prog = g.program()
            if L.tainted_ids(prog) or "with_opset" in prog:
                continue
            k += 1
            progs.append(("history-names", L.make_history(rng, prog, 100000 + k)))
    return progs


def targeted_programs():
    """Small deterministic programs around the decision tree's corners (always run)."""
    P = []

    def st(i, op, mv, args, **p):
        d = {"id": i, "op": op, "mv": mv, "args": args}
        if p:
            d["p"] = p
        return d

    # floor: nothing above 14
    P.append({"nodes": [st("a", "abs", 17, ["x"])], "outs": ["a"]})
    # one converted node
    P.append({"nodes": [st("a", "rmean", 17, ["x"], axis=1), st("b", "rmax", 18, ["a"], axis=0)], "outs": ["b"]})
    # two / three converted nodes in one graph (each introduces a value)
    P.append({"nodes": [st("a", "rmean", 17, ["x"], axis=1), st("b", "rmax", 17, ["y"], axis=0),
                        st("c", "rmin", 18, ["a"], axis=0), st("d", "add", 17, ["b", "c"])], "outs": ["d"]})
    P.append({"nodes": [st("a", "rl1", 17, ["x"], axis=1), st("b", "rl2", 17, ["a"], axis=0),
                        st("c", "rsumsq", 17, ["b"], axis=1), st("d", "identity", 21, ["c"])], "outs": ["d"]})
    # converted node in main and in a pinned body
    P.append({"nodes": [st("a", "rmean", 17, ["x"], axis=1),
                        {"id": "i", "op": "if", "mv": 17, "cond": "c",
                         "then": {"nodes": [st("t", "rmax", 17, ["x"], axis=1), st("t2", "pad", 18, ["t"])], "out": "t2"},
                         "else": {"nodes": [st("e", "rmin", 18, ["y"], axis=0)], "out": "e"}},
                        st("d", "add", 17, ["a", "i"])], "outs": ["d"]})
    # old inlined models alone / next to <= 14 operators / next to newer ones
    for body, opset in (("unsq_sq_relu", 11), ("rsum_attr", 12), ("relu_neg", 13)):
        md = {"kind": "old", "body": body, "opset": opset}
        P.append({"nodes": [{"id": "a", "op": "inline", "model": md, "args": ["x"]}], "outs": ["a"]})
        P.append({"nodes": [{"id": "a", "op": "inline", "model": md, "args": ["x"]}, st("b", "relu", 17, ["a"])], "outs": ["b"]})
        P.append({"nodes": [{"id": "a", "op": "inline", "model": md, "args": ["x"]}, st("b", "identity", 19, ["a"]),
                            {"id": "a2", "op": "inline", "model": md, "args": ["b"]}], "outs": ["a2"]})
    P.append({"nodes": [{"id": "a", "op": "inline", "model": {"kind": "if_ml", "mv": 17, "mlv": 3}, "args": ["x"]}], "outs": ["a"]})
    P.append({"nodes": [{"id": "a", "op": "inline", "model": {"kind": "if_ml", "mv": 19, "mlv": 5}, "args": ["x"]},
                        {"id": "f", "op": "func", "name": "fdom2", "domain": "verif.other", "params": ["p"], "args": ["a"],
                         "body": {"nodes": [st("q", "rmean", 17, ["p"], axis=0)], "out": "q"}},
                        st("g", "identity", 21, ["f"])], "outs": ["g", "f"]})
    P.append({"nodes": [{"id": "a", "op": "inline", "model": {"kind": "ml_only", "mlv": 2}, "args": ["x"]},
                        st("b", "rmean", 17, ["a"], axis=1), st("c", "identity", 19, ["b"])], "outs": ["c"]})
    # every operator whose schema changed between 17 and 21, written against an old module, next to a newer one
    for k, opn in enumerate(sorted(L.ORT_MACROS)):
        for src, (top, tmv) in ((17, ("identity", 21)), (18, ("isnan_w", 20)), (19, ("identity", 21))):
            P.append({"nodes": [st("a", opn, src, ["x"]), st("b", top, tmv, ["a"])], "outs": ["b"]})
    # extra requirements through Graph.with_opset, the default domain spelled "ai.onnx" (as spox's tests do):
    # below / at / above the operators' maximum
    for dom in ("ai.onnx", ""):
        for n in (13, 17, 18, 20, 21):
            P.append({"nodes": [st("a", "rmean", 17, ["x"], axis=1), st("b", "rmax", 18, ["a"], axis=0)],
                      "outs": ["b"], "with_opset": [[dom, n]]})
        P.append({"nodes": [st("a", "abs", 17, ["x"])], "outs": ["a"], "with_opset": [[dom, 12]]})
        P.append({"nodes": [{"id": "i", "op": "if", "mv": 17, "cond": "c",
                             "then": {"nodes": [st("t", "rl1", 17, ["x"], axis=1)], "out": "t"},
                             "else": {"nodes": [st("e", "neg", 17, ["y"])], "out": "e"}}],
                  "outs": ["i"], "with_opset": [[dom, 19]]})
    for body, opset in (("unsq_sq_relu", 11), ("relu_neg", 13), ("relu_neg", 15)):
        md = {"kind": "old", "body": body, "opset": opset, "alias": True}
        P.append({"nodes": [{"id": "a", "op": "inline", "model": md, "args": ["x"]}], "outs": ["a"]})
        P.append({"nodes": [{"id": "a", "op": "inline", "model": md, "args": ["x"]}, st("b", "rmin", 18, ["a"], axis=1)], "outs": ["b"]})
    # Loop bodies (has-subgraph, never converted themselves) with convertible nodes inside
    P.append({"nodes": [{"id": "l", "op": "loop", "mv": 17, "param": "s", "args": ["x"],
                         "body": {"nodes": [st("t", "rmean", 17, ["s"], axis=1), st("u", "add", 17, ["t", "y"])], "out": "u"}},
                        st("d", "fix", 21, ["l"])], "outs": ["d"]})
    P.append({"nodes": [{"id": "l", "op": "loop", "mv": 19, "param": "s", "args": ["x"],
                         "body": {"nodes": [{"id": "i", "op": "if", "mv": 17, "cond": "c",
                                             "then": {"nodes": [st("t", "rl2", 17, ["s"], axis=0)], "out": "t"},
                                             "else": {"nodes": [st("e", "grid_sample", 18, ["s"])], "out": "e"}}], "out": "i"}},
                        st("d0", "fix", 21, ["l"]), st("d", "isnan_w", 20, ["d0"])], "outs": ["d"]})
    # a function body alone carries the model's maximum; a convertible node sits in a body elsewhere
    for hi, (pop, pmv) in ((21, ("identity", 21)), (19, ("identity", 19)), (18, ("pad", 18))):
        P.append({"nodes": [{"id": "f", "op": "func", "name": f"fhi{hi}", "params": ["p"], "args": ["y"],
                             "body": {"nodes": [st("q", pop, pmv, ["p"])], "out": "q"}},
                            {"id": "i", "op": "if", "mv": 17, "cond": "c",
                             "then": {"nodes": [st("t", "rmean", 17, ["x"], axis=1)], "out": "t"},
                             "else": {"nodes": [st("e", "neg", 17, ["x"])], "out": "e"}},
                            st("d", "add", 17, ["f", "i"])], "outs": ["d"]})
    # a non-default domain at a lower version inside a function body than elsewhere in the model
    for inner, imv, outer, omv in (("ml_scaler", 3, "ml_label", 4), ("ml_label", 3, "ml_label", 4),
                                   ("ml_binarizer", 3, "ml_label", 5), ("ml_label", 4, "ml_scaler", 3)):
        P.append({"nodes": [{"id": "f", "op": "func", "name": f"fml_{inner}{imv}_{outer}{omv}", "params": ["p"], "args": ["x"],
                             "body": {"nodes": [{"id": "q", "op": inner, "mv": imv, "dv": 17, "args": ["p"]}], "out": "q"}},
                            {"id": "m", "op": outer, "mv": omv, "dv": 17, "args": ["y"]},
                            st("d", "add", 17, ["f", "m"])], "outs": ["d", "f"]})
    P.append({"nodes": [{"id": "f", "op": "func", "name": "fml_in_if", "params": ["p"], "args": ["x"],
                         "body": {"nodes": [{"id": "i", "op": "if", "mv": 17, "cond": "t",
                                             "then": {"nodes": [{"id": "q", "op": "ml_label", "mv": 3, "dv": 17, "args": ["p"]}], "out": "q"},
                                             "else": {"nodes": [st("e", "neg", 17, ["p"])], "out": "e"}}], "out": "i"}},
                        {"id": "i2", "op": "if", "mv": 19, "cond": "c",
                         "then": {"nodes": [{"id": "m", "op": "ml_label", "mv": 5, "dv": 19, "args": ["y"]}], "out": "m"},
                         "else": {"nodes": [st("e2", "abs", 17, ["y"])], "out": "e2"}},
                        st("d", "add", 17, ["f", "i2"])], "outs": ["d", "f"]})
    # the same function application built twice, in models with different maxima
    P.append({"nodes": [{"id": "f", "op": "func", "name": "ftwice", "params": ["p"], "args": ["x"],
                         "body": {"nodes": [st("q", "rmean", 17, ["p"], axis=0), st("r", "rmax", 18, ["q"], axis=1)], "out": "r"}},
                        st("g", "identity", 21, ["f"])], "outs": ["g"], "prebuild_outs": ["f"]})
    # ml mixes
    P.append({"nodes": [{"id": "a", "op": "ml_label", "mv": 3, "dv": 17, "args": ["x"]},
                        {"id": "b", "op": "ml_label", "mv": 4, "dv": 19, "args": ["y"]},
                        st("c", "add", 17, ["a", "b"])], "outs": ["c"]})
    P.append({"nodes": [{"id": "a", "op": "ml_scaler", "mv": 5, "dv": 17, "args": ["x"]}], "outs": ["a"]})
    # TreeEnsemble (ai.onnx.ml 5 only): raises the ml import to 5 next to ml3 / ml4 operators, legacy ml-1 models, in bodies
    P.append({"nodes": [{"id": "a", "op": "ml_tree", "mv": 5, "dv": 17, "args": ["x"]}], "outs": ["a"]})
    P.append({"nodes": [{"id": "a", "op": "ml_tree", "mv": 5, "dv": 17, "args": ["x"]},
                        {"id": "b", "op": "ml_label", "mv": 3, "dv": 19, "args": ["y"]},
                        {"id": "c", "op": "ml_label", "mv": 4, "dv": 17, "args": ["a"]},
                        st("d", "add", 17, ["b", "c"])], "outs": ["d"]})
    P.append({"nodes": [{"id": "m", "op": "inline", "model": {"kind": "oldx", "body": "softmax3_reshape", "opset": 11, "ml": ["le2", 2]}, "args": ["x"]},
                        {"id": "i", "op": "if", "mv": 17, "cond": "c",
                         "then": {"nodes": [{"id": "t", "op": "ml_tree", "mv": 5, "dv": 17, "args": ["y"]}], "out": "t"},
                         "else": {"nodes": [{"id": "e", "op": "ml_scaler", "mv": 3, "dv": 17, "args": ["y"]}], "out": "e"}},
                        st("d", "add", 17, ["m", "i"]), st("g", "identity", 21, ["d"])], "outs": ["g"]})
    P.append({"nodes": [{"id": "f", "op": "func", "name": "ftree", "params": ["p"], "args": ["x"],
                         "body": {"nodes": [{"id": "q", "op": "ml_label", "mv": 3, "dv": 17, "args": ["p"]}], "out": "q"}},
                        {"id": "t", "op": "ml_tree", "mv": 5, "dv": 18, "args": ["y"]},
                        st("d", "add", 17, ["f", "t"])], "outs": ["d", "f"]})
    # a function whose body mixes versions, next to a converted node
    P.append({"nodes": [{"id": "f", "op": "func", "name": "fmix", "params": ["p"], "args": ["x"],
                         "body": {"nodes": [st("q", "rmean", 17, ["p"], axis=0), st("r", "rmax", 18, ["q"], axis=1)], "out": "r"}},
                        st("g", "rl2", 17, ["f"], axis=1)], "outs": ["g"]})
    # legacy models that need real conversion AND use ai.onnx.ml / a custom domain, the domain requested at
    # another version elsewhere: top level, an If body, a function body, another legacy model
    def inl(i, arg, body, opset, **kw):
        return {"id": i, "op": "inline", "model": dict({"kind": "oldx", "body": body, "opset": opset}, **kw), "args": [arg]}

    def lab(i, arg, mv, dv=17):
        return {"id": i, "op": "ml_label", "mv": mv, "dv": dv, "args": [arg]}

    P.append({"nodes": [inl("a", "x", "pad_attr", 10)], "outs": ["a"]})
    P.append({"nodes": [inl("a", "x", "pad_attr", 10, ml=["afe", 1]), st("b", "rmin", 18, ["a"], axis=1)], "outs": ["b"]})
    P.append({"nodes": [inl("a", "x", "topk_attr", 9, custom=1), st("b", "identity", 21, ["a"])], "outs": ["b"]})
    for k, (body, opset) in enumerate((("softmax3", 11), ("logsoftmax3", 12), ("softmax3_reshape", 11), ("logsoftmax3_reshape", 9), ("unsq_sq_relu", 9), ("rsum_attr", 12),
                                       ("rmean_attr", 13), ("rmax_attr", 17), ("split_attr", 11), ("clip_attr", 10),
                                       ("dropout_ratio", 11))):
        mlk, mlv = (("scaler", 1), ("le2", 2), ("norm", 3), ("afe", 2), ("binarizer", 1))[k % 5]
        top = (("identity", 21), ("isnan_w", 20), ("identity", 19), ("pad", 18))[k % 4]
        hi = 3 + k % 3
        # (a) requested at the top level
        P.append({"nodes": [inl("a", "x", body, opset, ml=[mlk, mlv]), lab("m", "y", hi), st("t", top[0], top[1], ["a"]),
                            st("d", "add", 17, ["t", "m"])], "outs": ["d"]})
        # (b) inside an If body
        P.append({"nodes": [inl("a", "x", body, opset, ml=[mlk, mlv], pos="before"),
                            {"id": "i", "op": "if", "mv": 17, "cond": "c",
                             "then": {"nodes": [lab("m", "y", hi)], "out": "m"},
                             "else": {"nodes": [st("e", top[0], top[1], ["y"])], "out": "e"}},
                            st("d", "sub", 17, ["a", "i"])], "outs": ["d"]})
        # (c) inside a function body
        P.append({"nodes": [inl("a", "x", body, opset, ml=[mlk, mlv], custom=2),
                            {"id": "f", "op": "func", "name": f"fmlx{k}", "params": ["p"], "args": ["y"],
                             "body": {"nodes": [lab("m", "p", hi)], "out": "m"}},
                            st("t", top[0], top[1], ["f"]), st("d", "add", 17, ["a", "t"])], "outs": ["d", "f"]})
        # (d) another legacy model: ml and the custom domain at other versions; the legacy model inside a body
        P.append({"nodes": [inl("a", "x", body, opset, ml=[mlk, mlv], custom=1),
                            inl("b", "a", "rmean_attr", 17, ml=["le2", 2 + (mlv == 2)], custom=3),
                            st("t", top[0], top[1], ["b"])], "outs": ["t"]})
        P.append({"nodes": [{"id": "i", "op": "if", "mv": 17, "cond": "nc",
                             "then": {"nodes": [inl("a", "x", body, opset, ml=[mlk, mlv])], "out": "a"},
                             "else": {"nodes": [st("e", "neg", 17, ["x"])], "out": "e"}},
                            lab("m", "y", hi), st("t", top[0], top[1], ["m"]), st("d", "add", 17, ["i", "t"])], "outs": ["d"]})
    # histories: 2-3 builds over the same Vars, every one needing conversion, names changing between builds
    SW = {"x": "y", "y": "x"}
    base = [st("a", "rmean", 17, ["x"], axis=1), st("b", "rmax", 18, ["y"], axis=0), st("d", "sub", 17, ["a", "b"]),
            st("i17", "identity", 17, ["d"]), st("t", "identity", 21, ["i17"])]
    P.append({"nodes": base, "outs": ["d"], "history": [{"names": {}, "outs": [["out0", "d"]]},
                                                         {"names": SW, "outs": [["out0", "d"]]}]})
    P.append({"nodes": base, "outs": ["t", "a"], "history": [{"names": {}, "outs": [["out0", "t"], ["out1", "a"]]},
                                                              {"names": {"x": "p", "y": "q"}, "outs": [["out1", "t"], ["out0", "a"]]},
                                                              {"names": SW, "outs": [["r0", "t"], ["r1", "a"]], "low": True}]})
    P.append({"nodes": base, "outs": ["t"], "history": [{"names": {}, "outs": [["out0", "t"]], "renames": {"d": "zq0"}},
                                                         {"names": {}, "outs": [["out0", "t"]], "renames": {"a": "zq0", "i17": "zq1"}},
                                                         {"names": SW, "outs": [["out0", "t"]]}]})
    P.append({"nodes": base, "outs": ["i17"], "history": [{"names": {}, "outs": [["out0", "i17"]], "low": True},
                                                           {"names": SW, "outs": [["other", "i17"], ["out0", "t"]]},
                                                           {"names": {}, "outs": [["out0", "i17"], ["other", "t"]]}]})
    hin = [inl("a", "x", "softmax3_reshape", 11, ml=["scaler", 1]), inl("b", "y", "rsum_attr", 12), st("d", "sub", 17, ["a", "b"]),
           st("e", "rl2", 17, ["d"], axis=1), st("t", "identity", 19, ["e"])]
    P.append({"nodes": hin, "outs": ["t"], "history": [{"names": {}, "outs": [["out0", "t"]]},
                                                        {"names": SW, "outs": [["out0", "t"]]},
                                                        {"names": {"x": "q", "y": "p"}, "outs": [["r", "t"], ["s_", "b"]]}]})
    P.append({"nodes": hin, "outs": ["t"], "history": [{"names": {}, "outs": [["out0", "b"], ["out1", "t"]]},
                                                        {"names": SW, "outs": [["out0", "a"], ["out1", "t"]], "renames": {"d": "zq"}},
                                                        ]})
    hif = [{"id": "i", "op": "if", "mv": 17, "cond": "c",
            "then": {"nodes": [st("u", "rmin", 17, ["x"], axis=1)], "out": "u"},
            "else": {"nodes": [st("w", "rl1", 17, ["y"], axis=0)], "out": "w"}},
           {"id": "f", "op": "func", "name": "fhist", "params": ["p"], "args": ["y"],
            "body": {"nodes": [st("q", "rmean", 17, ["p"], axis=0)], "out": "q"}},
           st("d", "add", 17, ["i", "f"]), st("t", "isnan_w", 20, ["d"])]
    P.append({"nodes": hif, "outs": ["t", "f"], "history": [{"names": {}, "outs": [["out0", "t"], ["out1", "f"]]},
                                                             {"names": SW, "outs": [["out0", "t"], ["out1", "f"]]},
                                                             {"names": {"x": "p", "y": "q"}, "outs": [["out1", "t"], ["out0", "f"]], "low": True}]})
    # one function applied several times, its body needing conversion, a newer operator raising the opset
    def fn(i, name, args, body_nodes, out, params=("p",), domain="spox.verif"):
        return {"id": i, "op": "func", "name": name, "domain": domain, "params": list(params), "args": args,
                "body": {"nodes": copy.deepcopy(body_nodes), "out": out}}

    for k, (bop, bp, top) in enumerate((("rmean", {"axis": 1}, ("identity", 21)), ("rmax", {"axis": 0}, ("identity", 19)),
                                        ("rmin", {"axis": 1}, ("pad", 18)), ("split_cat", None, ("identity", 21)),
                                        ("dft", None, ("isnan_w", 20)), ("grid_sample", None, ("identity", 21)),
                                        ("rlogsum", None, ("identity", 19)))):
        b = [dict({"id": "q", "op": bop, "mv": 17, "args": ["p"]}, **({"p": bp} if bp else {}))]
        name = f"ftw_{bop}"
        # twice in the main graph
        P.append({"nodes": [fn("f1", name, ["x"], b, "q"), fn("f2", name, ["y"], b, "q"), st("d", "add", 17, ["f1", "f2"]),
                            st("t", top[0], top[1], ["d"])], "outs": ["t"]})
        # main graph + If body + nested application
        P.append({"nodes": [fn("f1", name + "_b", ["x"], b, "q"),
                            {"id": "i", "op": "if", "mv": 17, "cond": "c",
                             "then": {"nodes": [fn("f2", name + "_b", ["y"], b, "q")], "out": "f2"},
                             "else": {"nodes": [fn("f3", name + "_b", ["f1"], b, "q")], "out": "f3"}},
                            st("d", "sub", 17, ["f1", "i"]), st("t", top[0], top[1], ["d"])], "outs": ["t"]})
    # an inlined legacy model inside a function applied twice; one `inline` callable applied twice
    b = [inl("m", "p", "rsum_attr", 12, ml=["scaler", 1]), st("q", "rl2", 17, ["m"], axis=0)]
    P.append({"nodes": [fn("f1", "ftw_inl", ["x"], b, "q"), fn("f2", "ftw_inl", ["y"], b, "q"), st("d", "add", 17, ["f1", "f2"]),
                        st("t", "identity", 21, ["d"])], "outs": ["t"]})
    for body, opset in (("softmax3_reshape", 11), ("unsq_sq_relu", 12), ("rmean_attr", 17), ("pad_attr", 10)):
        a1, a2 = inl("a", "x", body, opset, custom=2), inl("b", "a", body, opset, custom=2)
        a1["share"] = a2["share"] = True
        P.append({"nodes": [a1, a2, st("t", "identity", 19, ["b"])], "outs": ["t"]})
        a3 = copy.deepcopy(a1)
        a3.update(id="a3", args=["y"])
        P.append({"nodes": [a1, {"id": "i", "op": "if", "mv": 17, "cond": "c",
                                 "then": {"nodes": [a3], "out": "a3"},
                                 "else": {"nodes": [st("e", "neg", 17, ["y"])], "out": "e"}},
                            st("d", "add", 17, ["a", "i"]), st("t", "isnan_w", 20, ["d"])], "outs": ["t"]})
    # v17 If in a v21 model (kept although its schema changed)
    P.append({"nodes": [{"id": "i", "op": "if", "mv": 17, "cond": "nc",
                         "then": {"nodes": [st("t", "identity", 21, ["x"])], "out": "t"},
                         "else": {"nodes": [st("e", "identity", 21, ["y"])], "out": "e"}},
                        st("d", "identity", 21, ["i"])], "outs": ["d"]})
    return P


def check_policy(ck, drv, mismatches):
    from spox._schemas import max_opset_policy

    rng = ck.rng
    doms = ["", "ai.onnx", "ai.onnx.ml", "spox.function", "a", "B", "ai", "zz", "ai.onnx.preview"]
    reqs_list = []
    for _ in range(ck.pick(300, 3000)):
        k = rng.randrange(0, 8)
        reqs_list.append([[rng.choice(doms), rng.randrange(0, 25)] for _ in range(k)])
    outs = drv.ask_many("C09", [{"t": "policy", "reqs": r} for r in reqs_list])
    bad = 0
    for r, o in zip(reqs_list, outs):
        real = [[d, v] for d, v in max_opset_policy({(d, v) for d, v in r}).items()]
        ck.count(("policy", json.dumps(sorted(r))) if len(r) >= 2 else None)
        if o.get("policy") != real:
            bad += 1
            if bad <= 3:
                mismatches.append(("policy", f"reqs {r}: real {real} model {o.get('policy')}"))
                # the property's own words on the real function
                want = L.policy(r)
                if dict(map(tuple, real)) != want or len(real) != len({d for d, _ in real}):
                    ck.failure("policy:not-max-per-domain",
                               f"max_opset_policy({r}) = {real}, the maximum per domain is {sorted(want.items())}",
                               {"policy_reqs": r})
    return len(reqs_list)


OPTIONAL_CASES = ("optional-output", "optional-from-if", "optional-intros", "optional-inside-only", "tensor-only",
                  "optional-through-inline", "optional-output-v21")


def build_optional_case(name):
    """Small real programs around the floor: (inputs, outputs, expects an optional value forwarded by an _Introduce)."""
    import spox.opset.ai.onnx.v17 as op
    import spox.opset.ai.onnx.v21 as op21
    from spox import Tensor, argument, inline

    x = argument(Tensor(np.float32, (2, 3)))
    c = argument(Tensor(np.bool_, ()))
    if name == "optional-output":
        return {"x": x}, {"o": op.optional(x)}, True
    if name == "optional-output-v21":
        return {"x": x}, {"o": op21.optional(op21.identity(x))}, True
    if name == "optional-from-if":
        r = op.if_(c, then_branch=lambda: [op.optional(op.abs(x))], else_branch=lambda: [op.optional(op.neg(x))])[0]
        return {"x": x, "c": c}, {"o": op.optional_get_element(r)}, True
    if name == "optional-intros":
        from spox._internal_op import intros

        o = intros(op.optional(x))[0]
        return {"x": x}, {"o": op.optional_get_element(o)}, True
    if name == "optional-inside-only":
        return {"x": x}, {"o": op.optional_get_element(op.optional(x))}, False
    if name == "tensor-only":
        return {"x": x}, {"o": op.abs(x)}, False
    if name == "optional-through-inline":
        # a model whose output IS its optional-typed input: _Inline forwards it with an Identity (not in the Lean model)
        import onnx
        from onnx import TensorProto as TP
        from onnx import helper as h

        t = h.make_optional_type_proto(h.make_tensor_type_proto(TP.FLOAT, [2, 3]))
        g = h.make_graph([], "fwd", [h.make_value_info("a", t)], [h.make_value_info("a", t)])
        m = h.make_model(g, opset_imports=[h.make_operatorsetid("", 15)], ir_version=8)
        r = list(inline(m)(op.optional(x)).values())[0]
        return {"x": x}, {"o": op.optional_get_element(r)}, None
    raise KeyError(name)


def run_optional_case(name):
    """-> (imports, failure message or None, model request or None, notes). Model-free part: the default domain
    is imported at >= 14, at >= 16 when an optional value is forwarded by internal Identity nodes, and the model
    passes the full check (an Identity of an optional value below 16 does not)."""
    import onnx
    from spox import build

    req, notes = None, []
    with Spies() as sp:
        with warnings.catch_warnings():
            warnings.simplefilter("ignore")
            try:
                ins, outs, fwd = build_optional_case(name)
                sp.roots, sp.abe, sp.an, sp.ai, sp.stack = [], [], {}, {}, []
                model = build(ins, outs)
            except Exception as e:  # noqa: BLE001
                return None, f"build raises {type(e).__name__}: {str(e).splitlines()[0][:120] if str(e) else ''}", None, notes
        try:
            if not sp.unobservable:
                req, _nodes, notes = to_model_input(sp)
        except Exception as e:  # noqa: BLE001
            notes = [f"{type(e).__name__}: {e}"]
    imports = [["" if o.domain == "ai.onnx" else o.domain, o.version] for o in model.opset_import]
    d = dict(map(tuple, imports))
    has_opt_identity = any(
        n.op_type == "Identity" and any(vi.name in n.output and vi.type.HasField("optional_type")
                                        for vi in list(model.graph.output) + list(model.graph.value_info))
        for n in model.graph.node)
    if d.get("", 0) < 14:
        return imports, f"default domain imported at {d.get('')} < 14", req, notes
    if (fwd or (fwd is None and has_opt_identity)) and d.get("", 0) < 16:
        return imports, f"an optional-typed value is forwarded by internal Identity nodes but the default domain is imported at {d.get('')} < 16", req, notes
    try:
        onnx.checker.check_model(model, full_check=True)
    except Exception as e:  # noqa: BLE001
        return imports, f"checker rejects: {str(e).splitlines()[0][:140]}", req, notes
    return imports, None, req, notes


def check_optional(ck, drv, mismatches):
    for name in OPTIONAL_CASES:
        try:
            imports, fail, req, notes = run_optional_case(name)
        except Exception as e:  # noqa: BLE001
            ck.broken("correspondence", "C09 optional floor not observable", f"{name}: {type(e).__name__}: {e}")
            continue
        ck.count(("optional", name))
        if fail is not None:
            ck.failure(f"optional-floor:{name}", f"{name}: {fail}", {"optional_case": name})
        for n in [n_ for n_ in notes if "_Introduce nodes" not in n_][:2]:  # a user-level `intros` is a second _Introduce
            mismatches.append(("structure", f"{name}: {n}"))
        if req is not None and drv is not None and imports is not None and name != "optional-through-inline":
            m = drv.ask("C09", {"t": "model", "graph": req, "extra": []})
            if m.get("imports") != imports:
                mismatches.append(("imports", f"{name}: real {imports} model {m.get('imports')}"))
    return len(OPTIONAL_CASES)


def check_schemas(ck, drv, info, mismatches):
    """Generated SCHEMAS table (driver) against onnx.defs directly, for every shipped operator."""
    import onnx.defs

    reqs, want = [], []
    for row in info["shipped"]:
        for v in sorted({row["module_version"], row["since"]} | ({14, 17, 18, 19, 20, 21} if row["domain"] == "" else {1, 3, 4, 5})):
            reqs.append({"t": "since", "d": row["domain"], "o": row["op"], "v": v})
            try:
                want.append(onnx.defs.get_schema(row["op"], v, row["domain"]).since_version)
            except Exception:  # noqa: BLE001
                want.append(None)
    outs = drv.ask_many("C09", reqs)
    bad = 0
    for r, o, w in zip(reqs, outs, want):
        if o.get("since") != w:
            bad += 1
            if bad <= 3:
                mismatches.append(("schemas", f"{r}: table {o.get('since')} onnx.defs {w}"))
    # the constructors carry the since-version in force at their module's version
    for row in info["shipped"]:
        try:
            w = onnx.defs.get_schema(row["op"], row["module_version"], row["domain"]).since_version
        except Exception:  # noqa: BLE001
            w = None
        if w != row["since"]:
            mismatches.append(("shipped", f"{row['domain']}:{row['op']} in module v{row['module_version']} has version {row['since']}, onnx.defs says {w}"))
    return len(reqs)


def run(ck: core.Check):
    from translator import opset_facts

    try:
        info = opset_facts.generate()
        for pr in info.get("problems", []):
            ck.broken("translator", "opset_facts", pr)
    except Exception as e:  # noqa: BLE001
        ck.broken("translator", "opset_facts.generate", f"{type(e).__name__}: {e}")
        info = {"internal_min_opset": None, "shipped": [], "runs": {}, "compat": []}
    ck.cov["generated"] = {"INTERNAL_MIN_OPSET": info["internal_min_opset"], "shipped_rows": len(info["shipped"]),
                           "schema_runs": len(info["runs"]), "form_compat_pairs": len(info["compat"]),
                           "adapt_state": info.get("adapt_state"), "adapt_attr_writes": info.get("adapt_attr_writes")}
    ck.lean(["SpoxModel.Props.C09"], audit="SpoxModel.Audit.C09")
    if ck.thorough:
        ck.leanchecker(["SpoxModel.Props.C09", "SpoxModel.Lemmas.Opset", "SpoxModel.Lemmas.OpsetRename",
                        "SpoxModel.Lemmas.OpsetFuncs", "SpoxModel.Lemmas.OpsetNames", "SpoxModel.Lemmas.OpsetMerge",
                        "SpoxModel.Model.Opset", "SpoxModel.Lemmas.OpsetQualify", "SpoxModel.Model.OpsetQualify",
                        "SpoxModel.Model.OpsetInits"])

    mismatches: list[tuple[str, str]] = []
    try:
        drv = ck.driver()
    except Exception as e:  # noqa: BLE001
        ck.broken("correspondence", "C09 driver", str(e))
        drv = None

    n_policy = n_sch = 0
    if drv is not None:
        for name, fn in (("policy", lambda: check_policy(ck, drv, mismatches)),
                         ("optional floor", lambda: check_optional(ck, drv, mismatches)),
                         ("qualify", lambda: ck.cov.__setitem__("qualify_correspondence", Q.check_qualify(
                             ck, drv, mismatches, 3000 if ck.thorough else 400))),
                         ("inits", lambda: ck.cov.__setitem__("inits_correspondence", Q.check_inits(
                             ck, drv, mismatches, 3000 if ck.thorough else 300))),
                         ("schemas", lambda: check_schemas(ck, drv, info, mismatches))):
            try:
                n = fn()
                if name == "policy":
                    n_policy = n
                elif name == "schemas":
                    n_sch = n
            except Exception as e:  # noqa: BLE001
                ck.broken("correspondence", f"C09 {name} not observable", f"{type(e).__name__}: {e}")
        for kind, msg in mismatches[:6]:
            ck.broken("correspondence", f"C09 {kind}", msg)

    cases = [("witness:" + n, p) for n, p in witness_programs()]
    cases += [("targeted", p) for p in targeted_programs()]
    # the literal table of operators the ORT-referenced macros emit, against the single-version models
    for opn in sorted(L.ORT_MACROS):
        for mv in (17, 18, 20):
            try:
                got = L.single(opn, mv, {})["ops"]
            except Exception:  # noqa: BLE001
                continue  # the single-version model cannot be built on this tree: nothing to compare
            if got != L.ORT_EMITS[opn](mv):
                ck.broken("correspondence", "C09 macro table", f"{opn}@v{mv} emits {got}, table says {L.ORT_EMITS[opn](mv)}")
    changed = list(info.get("ast_changed") or [])
    ck.cov["covered_functions"] = {"hashed": len(info.get("ast_hashes") or {}), "changed_since_pin": changed}
    cases += gen_programs(ck, escalate=bool(changed))

    stats = {"programs": 0, "built": 0, "max_depth": 0, "with_if": 0, "with_inline": 0, "with_func": 0,
             "with_ml": 0, "with_dyn": 0, "with_loop": 0, "with_changed_schema_op": 0, "with_history": 0, "nodes_adapted": 0, "converted_nodes": 0,
             "converted_inlines": 0, "conversions_form_checked": 0, "imports_seen": {}, "stages": {},
             "worker_crashes": 0}
    import multiprocessing as mp
    import os

    budget = ck.pick(60, 150)
    jobs = [(i, fam, prog, budget) for i, (fam, prog) in enumerate(cases)]
    nproc = max(1, min(int(os.environ.get("VERIF_JOBS", "0") or 0) or 12, os.cpu_count() or 1, len(jobs)))
    results = None
    deaths: list = []
    if nproc > 1:
        # A worker can die (onnxruntime aborts in C++ on some models): never hang, never lose the other cases.
        from concurrent.futures import ProcessPoolExecutor
        from concurrent.futures.process import BrokenProcessPool

        ctx = mp.get_context("fork")
        done: dict[int, dict] = {}
        chunks = [jobs[i:i + 8] for i in range(0, len(jobs), 8)]
        try:
            with ProcessPoolExecutor(nproc, mp_context=ctx) as ex:
                futs = [(ch, ex.submit(process_chunk, ch)) for ch in chunks]
                for ch, f in futs:
                    try:
                        for r in f.result():
                            done[r["idx"]] = r
                    except BrokenProcessPool:
                        pass
                    except Exception as e:  # noqa: BLE001
                        for j in ch:
                            done[j[0]] = dict(_empty_result(j), crash=f"{type(e).__name__}: {e}")
        except Exception as e:  # noqa: BLE001
            ck.broken("infrastructure", "C09 worker pool", f"{type(e).__name__}: {e}")
        todo = [j for j in jobs if j[0] not in done]
        for j in todo:  # one process per remaining case: the one that kills its process is identified
            try:
                with ProcessPoolExecutor(1, mp_context=ctx) as ex1:
                    done[j[0]] = ex1.submit(process_case, j).result(timeout=300)
            except Exception as e:  # noqa: BLE001
                deaths.append({"prog": j[2], "how": f"{type(e).__name__}"})
                done[j[0]] = dict(_empty_result(j), died=True)
        results = [done[j[0]] for j in jobs]
    results.sort(key=lambda r: r["idx"])

    # model side: one batch through the driver, in case order
    answers: dict[int, dict] = {}
    if drv is not None:
        asked = [r for r in results if r["real"] and r["real"].get("request") is not None]
        try:
            outs = drv.ask_many("C09", [{"t": "model", "graph": r["real"]["request"],
                                         "extra": cases[r["idx"]][1].get("with_opset", [])} for r in asked])
            answers = {r["idx"]: o for r, o in zip(asked, outs)}
        except Exception as e:  # noqa: BLE001
            ck.broken("correspondence", "C09 driver batch", f"{type(e).__name__}: {e}")

    kinds_reported: dict[str, int] = {}
    for r, (fam, prog) in zip(results, cases):
        stats["programs"] += 1
        if r.get("died"):
            # the process running this case was killed (an abort inside onnxruntime): recorded, not a verdict
            stats["worker_deaths"] = stats.get("worker_deaths", 0) + 1
            if len(deaths) < 3:
                deaths.append({"prog": prog, "how": "process died"})
            continue
        if r["crash"]:
            stats["worker_crashes"] += 1
            if stats["worker_crashes"] <= 3:
                ck.broken("correspondence", "C09 case not processed", f"{r['crash']} :: prog={json.dumps(prog)[:400]}")
            continue
        real = r["real"] or {"mismatches": [], "abe": []}
        local: list[tuple[str, str]] = list(map(tuple, real.get("mismatches", [])))
        if r["idx"] in answers:
            try:
                compare(real, answers[r["idx"]], local)
            except Exception as e:  # noqa: BLE001
                local.append(("correspondence-crash", f"{type(e).__name__}: {e}"))
        stats["conversions_form_checked"] += sum(1 for x in real.get("abe", []) if x.get("conv_form"))
        for kind, msg in local:
            mismatches.append((kind, msg))
            if kinds_reported.get(kind, 0) < 2:
                kinds_reported[kind] = kinds_reported.get(kind, 0) + 1
                ck.broken("correspondence", f"C09 {kind}", f"{msg} :: prog={json.dumps(prog)[:600]}")
        UNSUPPORTED.extend(r["unsupported"])
        ops_used = sorted({st["op"] for st, *_ in L.walk(prog["nodes"])})
        d = L.prog_depth(prog)
        stats["max_depth"] = max(stats["max_depth"], d)
        for k, o in (("with_if", "if"), ("with_inline", "inline"), ("with_func", "func"), ("with_dyn", "dyn")):
            stats[k] += int(o in ops_used)
        stats["with_ml"] += int(any(o.startswith("ml_") for o in ops_used))
        stats["with_loop"] += int("loop" in ops_used)
        stats["with_changed_schema_op"] += int(any(o in L.ORT_MACROS for o in ops_used))
        stats["with_history"] += int("prebuild_outs" in prog or "history" in prog)
        stats["history_builds"] = stats.get("history_builds", 0) + len(prog.get("history") or [])
        for k in ("nodes_adapted", "converted_nodes", "converted_inlines"):
            stats[k] += r["stats"].get(k, 0)
        if "imports" in r["stats"]:
            stats["built"] += 1
            k = r["stats"]["imports"]
            stats["imports_seen"][k] = stats["imports_seen"].get(k, 0) + 1
        ck.count(("prog", json.dumps(prog, sort_keys=True)) if (r["stats"].get("nconv") or d) else None)
        ck.sample({"family": fam, "imports": r["stats"].get("imports_list"), "verdict": r["verdict"], "prog": prog}, 4)
        if r["verdict"] is not None:
            stage = r["verdict"][0]
            stats["stages"][stage] = stats["stages"].get(stage, 0) + 1
            v2 = r["v2"]
            ck.failure(r["key"], f"{v2[0]}: {v2[1]}", {"prog": r["small"], "stage": v2[0], "features": r["feats"],
                                                     "family": fam, "original_size": L.prog_size(prog)})

    ck.cov.update({
        "correspondence_programs": stats["programs"],
        "correspondence_mismatches": len(mismatches),
        "policy_cases": n_policy,
        "schema_lookups_compared": n_sch,
        "distribution": stats,
        "runtime_unsupported": {"count": len(UNSUPPORTED), "examples": UNSUPPORTED[:3]},
        "worker_deaths": deaths[:3],
    })
    ck.exhaustive = False
    ck.rule = (
        "fixed witnesses + targeted corner programs + seeded random programs (2-17 statements, If nesting <= 3, "
        "operators from ai.onnx v17-v21 and ai.onnx.ml v3-v5, inlined hand-written models at opsets 11/12/13/15 and "
        "spox-built models at v17-v21, legacy models at opsets 9-17 that need real conversion and use ai.onnx.ml 1-3 / a custom "
        "domain while the domain is requested at another version elsewhere, histories of 2-3 builds over the same objects "
        "under changing argument / result / value names, functions, values of unknown rank; 85% avoid the listed findings by "
        "construction); non-trivial = at least one conversion or a body; distinct by abstract program"
    )
    ck.assumptions += [
        "onnx.version_converter emits nodes valid at the target version and preserves meaning (validated per run by the checker/onnxruntime/numpy oracle, not modelled)",
        "value names assigned by the builder are unique (C02); converter-introduced names are distinct within one singleton model",
        "onnx.defs form compatibility (attribute names/types/requiredness/defaults, arities) as computed by translator/opset_facts.py",
        "no value name chosen by the caller has the form <node name>__<converter name> (NoClash of qualify_preserves_wiring); converter names contain no '__' and node names do not end in '_' (checked on every observed conversion)",
    ]
    ck.trusted_base += [
        "translator/opset_facts.py (AST of _internal_op.py; introspection of spox._schemas.SCHEMAS and the shipped opset modules; onnx.defs)",
        "the observation wrappers around compile_graph / adapt_best_effort / adapt_node / adapt_inline in harness/props/c09.py",
        "harness/lib_c09.py numpy meanings of the program vocabulary",
        "harness/lib_c09_qualify.py (stub replacing onnx.version_converter.convert_version while the real adapt_node runs; reading names back from NodeProtos / GraphProtos)",
    ]


def replay(ck: core.Check, doc) -> bool:
    case = doc.get("case") or {}
    if "policy_reqs" in case:
        from spox._schemas import max_opset_policy

        r = case["policy_reqs"]
        real = dict(max_opset_policy({(d, v) for d, v in r}))
        print("max_opset_policy:", real, "maximum per domain:", L.policy(r))
        return real != L.policy(r)
    if "optional_case" in case:
        imports, fail, _req, _notes = run_optional_case(case["optional_case"])
        print(case["optional_case"], "imports", imports, "->", fail or "as required")
        return fail is not None
    if "prog" not in case:
        print("obligation-level replay: re-run the check")
        return False
    v = fails(case["prog"])
    if v is None:
        print("build succeeded; imports, node validity, checker, runtime and results all as required")
        return False
    print(f"{v[0]}: {v[1]}")
    key = classify(v[0], case["prog"], v[1])
    print("key:", key)
    listed = {f["key"] for f in core.load_findings() if f["property"] == "C09" and f.get("status") == "known"}
    if key in listed and key != doc.get("key"):
        print(f"this input only exhibits the listed known finding {key} (not the failure recorded in this replay)")
        return False
    return True
