"""C02 — build never hands back an invalid ONNX model.

tie G : translator/build_flags.py extracts the checked-status IR of Graph.to_onnx_model / build
proof  : Props/C02.lean (namespace invariant, naming uniqueness, checker soundness,
         build_returns_only_checked over the generated IR)
tie H  : (a) ScopeSpace operation sequences on the real class vs Model/Scope.lean,
         (b) Lean `checkStructural` on the REAL ModelProto of every generated build (and on corrupted
             copies) vs the independent Python walker,
         (c) naming: emission tree taken from the real Builder -> Model/Naming.lean predicts every
             name of the GraphProto exactly (or the error class)
oracle : adversarial generated programs; whenever build RETURNS: full checker, strict inference,
         onnxruntime load, independent walker, every used function defined (model-free)
"""
from __future__ import annotations

import copy
import itertools
import json
import multiprocessing as mp
import random
import warnings

from harness import core
from harness import lib_c02c14 as L
from harness import lib_c02hist as HI
from harness import lib_c02types as TY
from harness import lib_c02adv as ADV
from harness import lib_isolate as ISO

# ------------------------------------------------------------------ (a) ScopeSpace op sequences


class _Obj:
    __slots__ = ("i",)

    def __init__(self, i):
        self.i = i

    def __repr__(self):
        return f"o{self.i}"


def run_real_ops(ops):
    from spox._scope import ScopeError, ScopeSpace

    objs = {}

    def obj(i):
        return objs.setdefault(i, _Obj(i))

    stack = [ScopeSpace()]
    outs = []
    for op in ops:
        cur = stack[-1]
        k = op[0]
        try:
            if k == "set":
                cur[op[1]] = obj(op[2])
                outs.append("ok")
            elif k == "reserve":
                cur.reserve(op[1])
                outs.append("ok")
            elif k == "del":
                del cur[op[1]]
                outs.append("ok")
            elif k == "enum":
                outs.append(cur.enum(op[1]))
            elif k == "maybe":
                outs.append(cur.maybe_enum(op[1]))
            elif k == "push":
                stack.append(ScopeSpace(parent=cur))
                outs.append("ok")
            elif k == "pop":
                if len(stack) > 1:
                    stack.pop()
                outs.append("ok")
            elif k == "getname":
                outs.append(cur[op[1]].i if op[1] in cur else "absent")
            elif k == "getobj":
                o = obj(op[1])
                outs.append(cur[o] if o in cur else "absent")
        except ScopeError:
            outs.append("scope")
        except KeyError:
            outs.append("key")
    frames = []
    sp = stack[-1]
    while sp is not None:
        frames.append({"pairs": [[o.i, n] for o, n in sp.name_of.items()], "reserved": sorted(sp.reserved),
                       "of_name": sorted([n, o.i] for n, o in sp.of_name.items())})
        sp = sp.parent
    return outs, frames, dict(stack[-1].base_name_counters)


def canon_model_final(final):
    frames = [{"pairs": sorted(map(tuple, f["pairs"])), "reserved": sorted(f["reserved"])} for f in final["frames"]]
    return frames, {k: v for k, v in final["counters"]}


def canon_real_final(frames, counters):
    fr = []
    for f in frames:
        # name_of and of_name must be each other's inverse (the model keeps one list)
        assert sorted([n, o] for o, n in f["pairs"]) == f["of_name"], "name_of/of_name out of sync"
        fr.append({"pairs": sorted(map(tuple, f["pairs"])), "reserved": f["reserved"]})
    return fr, counters


NAMES = ["a", "a_0", "b"]


def gen_ops_exhaustive(maxlen):
    alphabet = []
    for n in NAMES[:2]:
        for o in (1, 2):
            alphabet.append(["set", n, o])
    alphabet += [["reserve", "a"], ["reserve", "a_0"], ["maybe", "a"], ["enum", "a"], ["push"], ["pop"], ["del", "a"]]
    for ln in range(1, maxlen + 1):
        for seq in itertools.product(alphabet, repeat=ln):
            yield list(seq)


def gen_ops_random(rng, n):
    ops = []
    names = ["a", "a_0", "a_1", "b", "b_0", "X", "X_0", "X_0_0"]
    last_names = []
    for _ in range(n):
        r = rng.random()
        pool = names + last_names[-4:]
        if r < 0.30:
            ops.append(["set", rng.choice(pool), rng.randrange(1, 6)])
        elif r < 0.42:
            ops.append(["reserve", rng.choice(pool)])
        elif r < 0.56:
            ops.append(["maybe", rng.choice(names)])
        elif r < 0.66:
            ops.append(["enum", rng.choice(names)])
        elif r < 0.72:
            ops.append(["del", rng.choice(pool)])
        elif r < 0.80:
            ops.append(["push"])
        elif r < 0.86:
            ops.append(["pop"])
        elif r < 0.93:
            ops.append(["getname", rng.choice(pool)])
        else:
            ops.append(["getobj", rng.randrange(1, 6)])
    return ops


def corr_scope(ck, drv):
    rng = ck.rng
    pick = getattr(ck, "_c02_pick", ck.pick)
    cases = list(gen_ops_exhaustive(ck.pick(3, 4)))
    n_exh = len(cases)
    # use names returned by enum/maybe_enum in later ops: generate, run real, splice results in
    for _ in range(pick(600, 6000)):
        ops = gen_ops_random(rng, rng.randrange(3, 40))
        outs, _, _ = run_real_ops(ops)
        gen_names = [o for op, o in zip(ops, outs) if op[0] in ("enum", "maybe")]
        if gen_names:
            for j in range(len(ops)):
                if ops[j][0] in ("set", "reserve") and rng.random() < 0.3:
                    ops[j][1] = rng.choice(gen_names)
        cases.append(ops)
    model = drv.ask_many("C02", [{"k": "ops", "ops": ops} for ops in cases])
    mism = 0
    kinds = {"scope": 0, "key": 0}
    for ops, m in zip(cases, model):
        outs, frames, counters = run_real_ops(ops)
        for o in outs:
            if o in kinds:
                kinds[o] += 1
        ck.count(("ops", json.dumps(ops)) if len(ops) >= 2 else None)
        try:
            real = (outs, *canon_real_final(frames, counters))
        except AssertionError as e:
            real = ("desync", str(e))
        mod = None if "error" in m else (m["outs"], *canon_model_final(m["final"]))
        if mod != real:
            mism += 1
            if mism <= 3:
                ck.broken("correspondence", "C02 ScopeSpace op sequence", f"ops={ops} model={mod} real={real}")
    ck.cov["scope_ops"] = {"cases": len(cases), "exhaustive": n_exh, "mismatches": mism, "errors_hit": kinds}
    return mism


# ------------------------------------------------------------------ (c) naming: emission tree of the real Builder
class Ids:
    def __init__(self):
        self.m = {}

    def __call__(self, o):
        return self.m.setdefault(id(o), len(self.m))


def extract_tree(spec):
    """Run the real Builder on the spec; -> (tree JSON for the model, real outcome).

    real outcome: ('ok', named graph of Graph.to_onnx(concrete=True)) | ('err', class)"""
    import onnx
    from spox import _build, _graph
    from spox._attributes import AttrGraph
    from spox._inline import _Inline
    from spox._internal_op import Argument, _Initializer, _Introduce
    from spox._public import _temporary_renames
    from spox._scope import ScopeError

    try:
        inputs, outputs = L.realise(spec)
    except Exception as e:  # noqa: BLE001 - the program itself is rejected at construction time
        return None, ("pre-err", type(e).__name__)
    keep = []  # keep objects alive so that id() stays unique
    with _temporary_renames(**inputs):
        graph = _graph.results(**outputs)
        if not spec.get("drop"):
            graph = graph.with_arguments(*inputs.values())
        b = _build.Builder(graph)
        # the whole real build (discovery, scopes, compilation); the emission tree is read off the
        # Builder afterwards, so the harness depends only on the attributes it reads
        from spox._scope import ScopeError

        res, real = None, None
        try:
            res = b.build_main()
        except ScopeError:
            real = ("err", "scope")
        except KeyError:
            real = ("err", "key")
        except (AttributeError, TypeError, NameError, ImportError):
            raise  # the Builder no longer looks as expected: reported as 'not observable' by the caller
        except Exception as e:  # noqa: BLE001
            real = ("other-err", type(e).__name__)
        if b.main not in b.scope_own:
            return None, ("pre-err", real[1] if real else "?")
        vid, nid = Ids(), Ids()

        def node_json(node):
            keep.append(node)
            kind = {"kind": "plain", "min_in": node.min_input}
            if isinstance(node, Argument):
                kind = {"kind": "arg", "has_default": node.attrs.default is not None}
            elif isinstance(node, _Initializer):
                kind = {"kind": "init"}
            elif isinstance(node, _Introduce):
                kind = {"kind": "intro"}
            elif isinstance(node, _Inline):
                g = node.graph
                inner = L.proto_to_named(g)
                inner["outputs"] = inner["outputs"] + [v.name for v in g.value_info]
                kind = {"kind": "inline", "top_in": [p.name for p in g.input], "top_out": [p.name for p in g.output],
                        "inner": inner}
            subkeys, subs = [], []
            for key, attr in node.attrs.get_fields().items():
                if isinstance(attr, AttrGraph):
                    subkeys.append(key)
                    subs.append(graph_json(attr.value))
            outs = []
            for field, var in node.outputs.get_vars().items():
                keep.append(var)
                o = {"id": vid(var), "field": field}
                if var._name is not None:
                    o["preset"] = var._name
                outs.append(o)
            ins = [None if v is None else vid(v) for v in node.inputs]
            keep.extend(v for v in node.inputs if v is not None)
            d = {"id": nid(node), "op": node.op_type.identifier, "ins": ins, "outs": outs, "subkeys": subkeys,
                 "subs": subs}
            d.update(kind)
            return d

        def graph_json(g):
            args = [node_json(a._op) for a in b.arguments_of[g]]
            nodes = [node_json(n) for n in b.scope_own[g] if not isinstance(n, Argument)]
            return {"args": args, "nodes": nodes, "results": [vid(v) for v in b.results_of[g]]}

        tree = graph_json(b.main)
        if res is not None:
            try:
                graph._build_result.value = res
                proto = graph.to_onnx(concrete=True)
                real = ("ok", L.proto_to_named(proto))
            except ScopeError:
                real = ("err", "scope")
            except KeyError:
                real = ("err", "key")
            except (AttributeError, TypeError, NameError, ImportError):
                raise
            except Exception as e:  # noqa: BLE001
                real = ("other-err", type(e).__name__)
    return tree, real


def strip_ops(named):
    """named graph without op/domain (the model only predicts names and structure)"""
    return {"inputs": named["inputs"], "inits": named["inits"], "outputs": named["outputs"],
            "nodes": [{"name": n["name"], "ins": n["ins"], "outs": n["outs"], "subs": [strip_ops(s) for s in n["subs"]]}
                      for n in named["nodes"]]}


def _wf_of(problems):
    """the walker's view of `Named.WfG`: no initializer listed twice, no empty entry name"""
    return not any(p.startswith(("dup-initializer", "empty-graph-input")) for p in problems)


def corrupt(named, rng):
    """A structurally damaged copy of a named graph (to exercise the reject paths of both checkers)."""
    g = copy.deepcopy(named)
    flat = []

    def walk(x):
        for nd in x["nodes"]:
            flat.append((x, nd))
            for s in nd["subs"]:
                walk(s)

    walk(g)
    if not flat:
        return g
    how = rng.randrange(9)
    x, nd = rng.choice(flat)
    x2, nd2 = rng.choice(flat)
    if how == 0 and nd["outs"] and nd2["outs"]:
        nd["outs"][0] = nd2["outs"][0]  # duplicate definition (possibly across graphs = shadowing)
    elif how == 1 and nd["ins"]:
        nd["ins"][0] = "nowhere"  # undefined input
    elif how == 2:
        nd["name"] = nd2["name"]  # duplicate node name
    elif how == 3 and len(x["nodes"]) > 1:
        rng.shuffle(x["nodes"])  # order
    elif how == 4 and nd["ins"] and nd2["outs"]:
        nd["ins"][0] = nd2["outs"][0]  # may reach into a sibling/inner scope
    elif how == 5 and g["inputs"]:
        g["inputs"].append(g["inputs"][0])
    elif how == 6:
        # round 10: an initializer listed twice — under an input's name (defines nothing twice: only WfG
        # fails) or under a fresh name; in the main graph or in the graph of the chosen node
        tgt = rng.choice([g, x])
        nm = rng.choice(tgt["inputs"]) if tgt["inputs"] and rng.random() < 0.6 else "dup_init"
        tgt["inits"] = list(tgt["inits"]) + [nm, nm]
    elif how == 7:
        tgt = rng.choice([g, x])
        if rng.random() < 0.5:
            tgt["inputs"] = list(tgt["inputs"]) + [""]   # an empty graph-input name
        else:
            tgt["inits"] = list(tgt["inits"]) + [""]
    elif how == 8 and g["inputs"]:
        g["inits"] = list(g["inits"]) + [g["inputs"][0]]  # harmless: a default value for an input (accepted)
    return g


# ------------------------------------------------------------------ worker: one generated program
def case_worker(task):
    """Never raises: an exception of the machinery becomes a per-case 'crash' record."""
    try:
        return _case_worker(task)
    except BaseException as e:  # noqa: BLE001
        import traceback

        return {"crash": f"{type(e).__name__}: {e}", "trace": traceback.format_exc()[-800:], "task": list(task),
                "status": "crash", "spec": None}


def _case_worker(task):
    seed, idx, mode = task
    mode_full = mode.replace("-noort", "")
    if mode_full == "typed-thorough":
        mode = mode.replace("typed-thorough", "typed")
    want_ort = not mode.endswith("-noort")
    mode = mode.replace("-noort", "")
    rng = random.Random(f"{seed}:{idx}")
    if mode == "hist":
        # a history of builds over the same Vars with different opset surroundings; every build is judged
        case = HAND_HIST[idx - 2 * 10**6] if idx - 2 * 10**6 < len(HAND_HIST) else HI.gen_case(rng)
        return {"mode": "hist", "case": case, "recs": HI.judge_history(case)}
    if mode == "typed":
        # a same-dtype argument whose shape differs from the declared type in exactly one way
        k = idx - 3 * 10**6
        grid = typed_grid(seed, thorough=(mode_full == "typed-thorough"))
        case = grid[k] if k < len(grid) else TY.gen_case(rng)
        st, m = ADV.build_case(case) if case.get("kind") == "adv" else TY.build_any(case)
        out = {"mode": "typed", "case": case, "status": st}
        if st == "ok":
            out["bad"] = TY.judge_built(m)
        else:
            out["err"] = m
        return out
    with warnings.catch_warnings():
        warnings.simplefilter("ignore")
        feat = {"custom": True, "generic": True, "func_if": True, "ml": True, "inline_sibling_names": True,
                "collide": True}
        if mode == "naming":  # no version adaptation: every name is predictable
            feat = {"mixed": False, "rmax": False, "custom": True, "generic": True, "func_if": True, "ml": True,
                    "inline_sibling_names": True}
        if mode == "oracle" and rng.random() < 0.25:
            feat["newer_only_in_funcs"] = True
            feat["inline"] = False  # (inlined models bring their own opset imports)
        g = L.Gen(rng, feat)
        spec = g.gen_spec()
        st, m = L.build_spec(spec)
        if st == "ok" and rng.random() < 0.7:
            spec = L.rename_adversarial(spec, rng, L.harvest_names(m), L.harvest_names(m, nested_values_only=True))
            st, m = L.build_spec(spec)
        out = {"spec": spec, "status": st, "stats": L.spec_stats(spec)}
        if st == "err":
            out["err"] = m
        else:
            n0 = len(L.ORT_UNSUPPORTED)
            out["bad"] = L.judge_model(m, want_ort=want_ort, custom_keys=custom_keys(spec))
            out["ort_skipped"] = not want_ort
            out["ort_unsupported"] = L.ORT_UNSUPPORTED[n0:]
            out["named"] = strip_ops(L.proto_to_named(m.graph))
            out["fnamed"] = [strip_ops(L.func_to_named(f)) for f in m.functions]
            out["walker"] = L.walk_named(L.proto_to_named(m.graph))
            if mode == "oracle" and not out["bad"] and rng.random() < 0.2:
                # the same program realised once and built several times over the SAME Vars, an Identity of another
                # opset module on the first output (rising / falling / back to none)
                tops = rng.choice([[None, 19], [None, 21, None], [21, None], [18, 21], [None, 20, 18], [17, 19, 21]])
                out["hist_tops"] = tops
                out["hist_recs"] = HI.spec_history(spec, tops, custom_keys=custom_keys(spec))
        if mode == "naming":
            try:
                tree, real = extract_tree(spec)
                out["tree"], out["real"] = tree, real
            except Exception as e:  # noqa: BLE001
                out["tree"], out["real"] = None, ("extract-failed", f"{type(e).__name__}: {e}")
        return out


HAND_HIST = HI.HAND_CASES


def typed_grid(seed, thorough=False):
    """The deterministic grids (all cases on every tier): shape-boundary calls, adversarial programs,
    Optional/Sequence routes."""
    return TY.all_cases() + ADV.all_cases() + TY.all_optseq_cases()



def hist_key(bad):
    """the known finding first (duplicates only between sibling bodies under inlined-model names, every other
    judge green), else history:<judge>"""
    if all(b[0] == "walker" for b in bad) and classify(bad) == "inline:sibling-bodies-share-names":
        return "inline:sibling-bodies-share-names"
    return HI.classify(bad)


def custom_keys(spec):
    return [(c["domain"], c["ident"]) for c in spec.get("customs", [])]


def classify(bad):
    import re

    kinds = [k for k, _ in bad]
    for k in ("checker-aborted", "runtime-aborted"):
        if k in kinds:
            return k  # a native judge kills the process on the model build returned
    if "missing-function" in kinds:
        return "function-used-but-not-defined"
    walker = [d for k, d in bad if k == "walker"]
    if walker:
        # duplicates that only occur between sibling bodies, under inlined-model names, are the known finding
        # `inline:sibling-bodies-share-names`; any other walker problem comes first
        sib = [d for d in walker if re.match(r"dup-(value|node-name)-in-sibling-bodies:.*Inline_\d+__", d)]
        other = [d for d in walker if d not in sib]
        if not other and not [k for k in kinds if k != "walker"]:
            return "inline:sibling-bodies-share-names"
        if other:
            d = other[0]
            if re.fullmatch(r"dup-value:.+___v_\d+", d):
                # a user name equal to a value the version converter introduces (qualified by the node name)
                return "dup-value:user-name-equals-converter-name"
            if re.fullmatch(r"dup-value:_v_\d+", d):
                # a fresh name of onnx.version_converter kept by per-node adaptation (former finding)
                return "dup-value:version-converter-fresh-name"
            if d.startswith("function "):
                return "walker-in-function:" + d.split(": ", 1)[1].split(":")[0]
            return "walker:" + d.split(":")[0]
    for k in ("full-checker", "strict-inference", "ort-load"):
        if k in kinds:
            return k
    return "invalid"


def judge_histories(ck, hist_results):
    """Verdicts of the build histories: EVERY build of every history was judged in the worker."""
    st = {"histories": len(hist_results), "builds": 0, "returned": 0, "raised": 0, "with_fresh_comparison": 0,
          "fresh_raises_history_returns": 0, "no_reference_value": 0, "inline_items": 0, "top_versions": {}}
    best = {}
    for r in hist_results:
        case = r["case"]
        st["inline_items"] += sum(1 for it in case["items"] if it["k"] == "inline")
        for rec in r["recs"]:
            st["builds"] += 1
            if rec["status"] == "err":
                st["raised"] += 1
                ck.count(None)
                continue
            st["returned"] += 1
            st["with_fresh_comparison"] += int(rec.get("fresh_status") == "ok")
            st["fresh_raises_history_returns"] += int(rec.get("fresh_status") == "err")
            st["no_reference_value"] += int("no_reference" in rec)
            ck.count(("hist", json.dumps(case, sort_keys=True), rec["bi"]) if rec["bi"] > 0 else None)
            if rec["bad"]:
                key = hist_key([tuple(b) for b in rec["bad"]])
                cur = best.get(key)
                if cur is None or len(json.dumps(case)) < len(json.dumps(cur[0])):
                    best[key] = (case, rec)
    for key, (case, rec) in list(best.items())[:4]:
        def fails(c, key=key):
            return any(x["bad"] and hist_key([tuple(b) for b in x["bad"]]) == key for x in HI.judge_history(c))

        try:
            small = HI.shrink(case, fails)
            recs = [x for x in HI.judge_history(small) if x["bad"] and hist_key([tuple(b) for b in x["bad"]]) == key]
            if recs:
                case, rec = small, recs[0]
        except Exception:  # noqa: BLE001
            pass
        ck.failure(key, f"build #{rec['bi']} of a history over the same Vars returned a model that fails: {rec['bad'][:2]}",
                   {"hist": case, "build_index": rec["bi"]})
    ck.cov["histories"] = st


def corr_inline_check(ck, drv):
    """tie H for Model/InlineCheck.lean (`accepts`, through it Types.subtype / Shape.le / Natural.le): the real
    `inline(model)(args)` - raises its TypeError or returns - against the model on the whole shape-boundary grid
    (positional, keyword, second input; same and different element types)."""
    import importlib

    import numpy as np
    import spox
    from translator import dtypes as DTT

    classes = DTT.generate()["classes"]
    op = importlib.import_module("spox.opset.ai.onnx.v17")

    def ty_json(t):
        if t is None:
            return None
        return [classes.index(t.dtype.type), None if t.shape is None else list(t.shape)]

    reqs, reals, cases = [], [], []
    skipped = 0
    grid = [c for c in TY.all_cases() if c["site"] in ("inline_pos", "inline_kw", "inline_second")]
    for c in grid:
        for adt in ("f32", "f64") if str(c["tag"]).startswith("same") or c["site"] == "inline_pos" else ("f32",):
            try:
                args = {}
                a = TY.make_arg(c["arg"][0], c["arg"][1], adt, op, args)
                second = c["site"] == "inline_second"
                m = TY.make_model(c["decl"], "f32", second=second)
                decls = [[classes.index(np.float32), [2, 3]], [classes.index(np.float32), list(c["decl"])]] if second \
                    else [[classes.index(np.float32), list(c["decl"])]]
                if second:
                    x0 = spox.argument(spox.Tensor(np.float32, (2, 3)))
                    call_args, call_kw, atypes = (x0, a), {}, [x0.type, a.type]
                elif c["site"] == "inline_kw":
                    call_args, call_kw, atypes = (), {"a": a}, [a.type]
                else:
                    call_args, call_kw, atypes = (a,), {}, [a.type]
            except Exception:  # noqa: BLE001 - the argument itself cannot be made (not the check under test)
                skipped += 1
                continue
            try:
                spox.inline(m)(*call_args, **call_kw)
                real = True
            except TypeError as e:
                if "to inlined model got type" not in str(e):
                    raise
                real = False
            reqs.append({"k": "inline_check", "decls": decls, "args": [ty_json(t) for t in atypes]})
            reals.append(real)
            cases.append((c, adt))
    outs = drv.ask_many("C02", reqs)
    mism = 0
    for (c, adt), real, o in zip(cases, reals, outs):
        ck.count(None)
        if o.get("accept") is not real:
            mism += 1
            if mism <= 3:
                ck.broken("correspondence", "C02 inline argument check (InlineCheck.accepts) vs real inline()",
                          f"case={json.dumps(c)} arg_dtype={adt} model={o} real_accepts={real}")
    ck.cov["inline_argument_check"] = {"calls": len(reqs), "accepted": sum(reals), "refused": len(reals) - sum(reals),
                                       "mismatches": mism, "skipped": skipped}


def corr_policy(ck, drv):
    """tie H for Func.policy (= `max_opset_policy`): requirement sets that spell the default domain both ways, with
    duplicates, in any order - all lists up to length 3 over {"", "ai.onnx"} x {12, 17, 19} plus random longer ones."""
    from spox._schemas import max_opset_policy

    rng = ck.rng
    small = [(d, v) for d in ("", "ai.onnx") for v in (12, 17, 19)]
    cases = [list(c) for n in (0, 1, 2, 3) for c in itertools.product(small, repeat=n)]
    doms = ["", "ai.onnx", "ai.onnx", "ai.onnx.ml", "dom.a", "ai.onnx.training"]
    for _ in range(300):
        cases.append([(rng.choice(doms), rng.randrange(1, 26)) for _ in range(rng.randrange(1, 9))])
    outs = drv.ask_many("C02", [{"k": "policy", "req": [[d, v] for d, v in c]} for c in cases])
    mism = 0
    for c, o in zip(cases, outs):
        ck.count(None)
        real = dict(max_opset_policy(set(c)))
        model = {d: v for d, v in o.get("policy", [["<error>", 0]])}
        if model != real or len(o.get("policy", [])) != len(model):
            mism += 1
            if mism <= 3:
                ck.broken("correspondence", "C02 max_opset_policy vs Func.policy (two spellings of the default domain)",
                          f"req={c} model={o} real={real}")
    ck.cov["opset_policy"] = {"cases": len(cases), "mismatches": mism}


def corr_inline_req(ck, drv):
    """tie H for InternalReq.inlineReq: the real `opset_req` of the `_Inline` node for inlined models with tensor /
    sequence / optional inputs that are (or are not) handed straight to an output, at opsets 15-17, the default
    domain spelled either way."""
    import numpy as np
    import onnx
    import spox
    from onnx import helper as h
    from spox import Optional, Sequence, Tensor, argument

    f2 = Tensor(np.float32, (2,))
    kinds = {"tensor": f2, "seq": Sequence(f2), "optional": Optional(f2), "optional-of-seq": Optional(Sequence(f2))}
    reqs, reals, notes = [], [], []
    for kind, ty in kinds.items():
        tp = TY._type_proto(ty)
        for passthrough in (True, False):
            for imports in ([("", 15)], [("", 16)], [("", 17)], [("", 15), ("ai.onnx", 15)], [("ai.onnx", 13), ("", 16)],
                            [("ai.onnx.ml", 2), ("", 15)]):
                vi = h.make_value_info("s", tp)
                if passthrough:
                    g = h.make_graph([], "pass", [vi], [h.make_value_info("s", tp)])
                else:
                    g = h.make_graph([h.make_node("Identity", ["s"], ["t"], name="idn")], "idg", [vi],
                                     [h.make_value_info("t", tp)])
                m = h.make_model(g, opset_imports=[h.make_operatorsetid(d, v) for d, v in imports], ir_version=8)
                (r,) = spox.inline(m)(argument(ty)).values()
                reals.append(sorted(set((d, v) for d, v in r._op.opset_req)))
                k = "optional" if kind.startswith("optional") else kind
                reqs.append({"k": "inline_req", "imports": [[d, v] for d, v in imports], "pass": [k] if passthrough else []})
                notes.append((kind, passthrough, imports))
    outs = drv.ask_many("C02", reqs)
    mism = 0
    for note, real, o in zip(notes, reals, outs):
        ck.count(None)
        model = sorted(set((d, v) for d, v in o.get("req", [["<error>", 0]])))
        if model != real:
            mism += 1
            if mism <= 3:
                ck.broken("correspondence", "C02 _Inline.opset_req (InternalReq.inlineReq)", f"case={note} model={model} real={real}")
    ck.cov["inline_opset_req"] = {"cases": len(reqs), "mismatches": mism}


def corr_intro_req(ck, drv):
    """tie H for Model/InternalReq.lean: the real `opset_req` of the `_Introduce` node behind `intros(...)` for every
    combination of value kinds (tensor / sequence / optional / optional-of-sequence / untyped) up to length 3."""
    import numpy as np
    import spox
    from spox import Optional, Sequence, Tensor, argument
    from spox._internal_op import intros

    f2 = Tensor(np.float32, (2,))
    makers = {"tensor": lambda: argument(f2), "seq": lambda: argument(Sequence(f2)),
              "optional": lambda: argument(Optional(f2)), "optional-of-seq": lambda: argument(Optional(Sequence(f2)))}
    try:
        from harness import lib_untyped

        opaque = lib_untyped.make("untyped")
        makers["untyped"] = lambda: opaque(argument(f2))
    except Exception:  # noqa: BLE001 - no untyped values available: that kind is left out
        pass
    names = sorted(makers)
    combos = [c for n in (1, 2, 3) for c in itertools.product(names, repeat=n)]
    reqs, reals = [], []
    for combo in combos:
        outs = intros(*[makers[k]() for k in combo])
        node = outs[0]._op
        req = {d: v for d, v in node.opset_req}
        reals.append(req.get("", req.get("ai.onnx")))
        reqs.append({"k": "intro_req", "kinds": ["optional" if k.startswith("optional") else k for k in combo]})
    outs = drv.ask_many("C02", reqs)
    mism = 0
    for combo, real, o in zip(combos, reals, outs):
        ck.count(None)
        if o.get("req") != real:
            mism += 1
            if mism <= 3:
                ck.broken("correspondence", "C02 internal forwarding operator's opset requirement (InternalReq.introReq)",
                          f"kinds={combo} model={o} real={real}")
    ck.cov["intro_opset_req"] = {"combinations": len(combos), "kinds": names, "mismatches": mism}


def judge_spec_histories(ck, rs):
    st = {"programs": len(rs), "builds": 0, "returned": 0}
    best = {}
    for r in rs:
        for rec in r["hist_recs"]:
            st["builds"] += 1
            if rec["status"] != "ok":
                continue
            st["returned"] += 1
            ck.count(("spec-hist", json.dumps(r["spec"], sort_keys=True), rec["bi"]) if rec["bi"] > 0 else None)
            if rec["bad"]:
                key = hist_key([tuple(b) for b in rec["bad"]])
                cur = best.get(key)
                if cur is None or len(json.dumps(r["spec"])) < len(json.dumps(cur[0]["spec"])):
                    best[key] = (r, rec)
    for key, (r, rec) in list(best.items())[:3]:
        ck.failure(key, f"build #{rec['bi']} (companions {r['hist_tops']}) over the Vars of ONE realisation of a program "
                        f"returned a model that fails: {rec['bad'][:2]}",
                   {"spec_hist": {"spec": r["spec"], "tops": r["hist_tops"]}})
    ck.cov["program_histories"] = st


def judge_typed(ck, typed_results):
    """Verdicts of the shape-boundary calls: raised, or returned a model every judge accepts."""
    st = {"cases": len(typed_results), "raised": 0, "returned_valid": 0, "by_site": {}, "well_typed_refused": 0}
    best = {}
    for r in typed_results:
        case = r["case"]
        site = st["by_site"].setdefault(case.get("site") or (case["kind"] + ":" + (case.get("what") or case["route"])),
                                       {"raised": 0, "returned": 0})
        if r["status"] == "err":
            st["raised"] += 1
            site["raised"] += 1
            st["well_typed_refused"] += int(str(case.get("tag", "")).startswith("same"))
            ck.count(None)
            continue
        site["returned"] += 1
        ck.count(("typed", json.dumps(case, sort_keys=True)))
        if r["bad"]:
            key = ADV.classify(case, r["bad"]) if case.get("kind") == "adv" else TY.classify(case, r["bad"])
            cur = best.get(key)
            # (fewest model inputs first: with one input the replay does not depend on the traversal order of a set)
            size = lambda c: (c.get("nin", 0), len(json.dumps(c)))  # noqa: E731
            if cur is None or size(case) < size(cur[0]):
                best[key] = (case, r["bad"])
        else:
            st["returned_valid"] += 1
    for key, (case, bad) in list(best.items())[:4]:
        if case.get("kind") == "adv":
            ck.failure(key, f"an adversarial program ({case['what']}, drop_unused_inputs={case['drop']}, route "
                            f"{case['route']}, {case['nin']} inputs) was built into a model that fails: {bad[:2]}",
                       {"typed": case})
            continue
        if case.get("kind") == "optseq":
            ck.failure(key, f"an Optional/Sequence-typed value ({case['make']}) routed through {case['route']} "
                            f"(module v{case.get('ver')}, companion {case.get('comp')}) was built into a model that "
                            f"fails: {bad[:2]}", {"typed": case})
            continue
        ck.failure(key, f"a call whose argument shape {case['arg']} does not fit the declared {case['decl']} "
                        f"({case.get('tag')}, site {case['site']}) was built into a model that fails: {bad[:2]}",
                   {"typed": case})
    ck.cov["shape_boundary_calls"] = st


def observe_final_check(specs):
    """Behavioural counterpart of Generated/BuildFlags: wrap onnx.checker.check_model (a third-party
    function, looked up by spox at call time), build, and see whether the returned ModelProto is the last
    object that was checked and has not changed since. -> (n_returned, n_checked_last, detail)"""
    import onnx

    real = onnx.checker.check_model
    log = []

    def spy(model, *a, **k):
        res = real(model, *a, **k)
        try:
            log.append((id(model), model.SerializeToString(deterministic=True), k.get("full_check", a[0] if a else False)))
        except Exception:  # noqa: BLE001
            log.append((id(model), None, None))
        return res

    n_ret = n_ok = 0
    detail = ""
    onnx.checker.check_model = spy
    try:
        for spec in specs:
            del log[:]
            st, m = L.build_spec(spec)
            if st != "ok":
                continue
            n_ret += 1
            if log and log[-1][0] == id(m) and log[-1][1] == m.SerializeToString(deterministic=True):
                n_ok += 1
            elif not detail:
                detail = f"returned model was not the last argument of check_model (calls seen: {len(log)}) for {json.dumps(spec)[:300]}"
    finally:
        onnx.checker.check_model = real
    return n_ret, n_ok, detail


HAND_SPECS = [
    # an overridable initializer default of an inlined model overridden by the caller: well-typed, then with a
    # wrong dtype / rank / dimension (must be refused, never built into an ill-typed model)
    {"args": ["f"], "inputs": [["x", 0]], "stmts": [["op", "neg", 17, [0]], ["inline", 0, [0], {"dflt": ["ok", 1]}]],
     "outputs": [["y", 2]], "drop": False, "funcs": [],
     "models": [{"ins": ["a"], "outs": ["r"], "nodes": [["Add", "n", ["a", "dflt"], ["r"]]], "inits": [], "opset": 17,
                 "defaults": [["dflt", [0.5, 2.0]]]}]},
    {"args": ["f"], "inputs": [["x", 0]], "stmts": [["op", "neg", 17, [0]], ["inline", 0, [0], {"dflt": ["dtype", 1]}]],
     "outputs": [["y", 2]], "drop": False, "funcs": [],
     "models": [{"ins": ["a"], "outs": ["r"], "nodes": [["Add", "n", ["a", "dflt"], ["r"]]], "inits": [], "opset": 17,
                 "defaults": [["dflt", [0.5, 2.0]]]}]},
    {"args": ["f"], "inputs": [["x", 0]], "stmts": [["op", "neg", 17, [0]], ["inline", 0, [0], {"dflt": ["rank", 1]}]],
     "outputs": [["y", 2]], "drop": False, "funcs": [],
     "models": [{"ins": ["a"], "outs": ["r"], "nodes": [["Add", "n", ["a", "dflt"], ["r"]]], "inits": [], "opset": 17,
                 "defaults": [["dflt", [0.5, 2.0]]]}]},
    {"args": ["f"], "inputs": [["x", 0]], "stmts": [["op", "neg", 17, [0]], ["inline", 0, [0], {"dflt": ["dim", 1]}]],
     "outputs": [["y", 2]], "drop": False, "funcs": [],
     "models": [{"ins": ["a"], "outs": ["r"], "nodes": [["Add", "n", ["a", "dflt"], ["r"]]], "inits": [], "opset": 17,
                 "defaults": [["dflt", [0.5, 2.0]]]}]},
    # known finding inline:sibling-bodies-share-names: an inlined model whose two If branches both call a value
    # `tmp` and a node `n` (valid ONNX: sibling scopes)
    {"args": ["f", "b"], "inputs": [["x", 0], ["c", 1]], "stmts": [["inline", 0, [0, 1]]],
     "outputs": [["y", 2]], "drop": False, "funcs": [],
     "models": [{"ins": ["a"], "cond": "cnd", "outs": ["r"], "inits": [], "opset": 17,
                 "nodes": [["If", "if0", ["cnd"], ["r"],
                            [[["Neg", "n", ["a"], ["tmp"]]], "tmp", [["Abs", "n", ["a"], ["tmp"]]], "tmp"]]]}]},
    # a newer opset version required ONLY inside a function body (called outside the If) + a v17 Split inside an If
    # branch: the branch has to be adapted against the model's opset 19 (Split 18 needs `num_outputs`)
    {"args": ["f", "b"], "inputs": [["x", 0], ["c", 1]],
     "stmts": [["call", 0, [0]],
               ["if", 1, {"stmts": [["op", "split0", 17, [0]]], "outs": [3]}, {"stmts": [], "outs": [0]}, 17],
               ["op", "add", 17, [2, 3]]],
     "outputs": [["y", 4]], "drop": False,
     "funcs": [{"name": "newer", "domain": "dom", "nin": 1, "nout": 1,
                "body": {"stmts": [["op", "identity", 19, [0]]], "outs": [1]}}],
     "models": []},
    # former finding (fixed by 1c7785c): a model output named like a value the version converter introduces
    {"args": ["b", "f"], "inputs": [["c", 0], ["x", 1]],
     "stmts": [["if", 0, {"stmts": [["op", "rmax", 17, [1]], ["op", "identity", 19, [2]]], "outs": [3]},
                {"stmts": [], "outs": [1]}, 17]],
     "outputs": [["If_0_then_branch__ReduceMax_0___v_4", 2]], "drop": False, "funcs": [], "models": [],
     "customs": [], "generics": []},
    # ... and the same name given to an input (named before the adaptation happens)
    {"args": ["b", "f"], "inputs": [["c", 0], ["If_0_then_branch__ReduceMax_0___v_4", 1]],
     "stmts": [["if", 0, {"stmts": [["op", "rmax", 17, [1]], ["op", "identity", 19, [2]]], "outs": [3]},
                {"stmts": [], "outs": [1]}, 17]],
     "outputs": [["y", 2]], "drop": False, "funcs": [], "models": [], "customs": [], "generics": []},
    # former finding (fixed by 6e356ff): the version converter's fresh name _v_4 in a Loop body and again in
    # the main graph
    {"args": ["f"], "inputs": [["x", 0]],
     "stmts": [["loop", 1, [0], {"stmts": [["op", "rmax", 17, [3]], ["op", "identity", 19, [4]]], "outs": [5]}, 17],
               ["op", "rmax", 17, [1]]],
     "outputs": [["y", 2]], "drop": False, "funcs": [], "models": [], "customs": []},
    # a function whose (user-chosen) name looks like the prefixed name of an inlined node
    # (pinned tree: two nodes called Inline_0__n0_0; fixed by the second fix: commit)
    {"args": ["f"], "inputs": [["x", 0]], "stmts": [["inline", 0, [0]], ["call", 0, [1]]],
     "outputs": [["y", 2]], "drop": False,
     "funcs": [{"name": "Inline_0__n0", "domain": "dom", "nin": 1, "nout": 1,
                "body": {"stmts": [["op", "neg", 17, [0]]], "outs": [1]}}],
     "models": [{"ins": ["a"], "outs": ["b"], "nodes": [["Abs", "n0_0", ["a"], ["b"]]], "inits": [], "opset": 17}]},
    {"args": ["f"], "inputs": [["x", 0]], "stmts": [["call", 0, [0]], ["inline", 0, [1]]],
     "outputs": [["y", 2]], "drop": False,
     "funcs": [{"name": "Inline_0__n0", "domain": "dom", "nin": 1, "nout": 1,
                "body": {"stmts": [["op", "neg", 17, [0]]], "outs": [1]}}],
     "models": [{"ins": ["a"], "outs": ["b"], "nodes": [["Abs", "n0_0", ["a"], ["b"]]], "inits": [], "opset": 17}]},
    # function used only inside an If body (the pinned-tree defect; fixed by the fix: commit)
    {"args": ["f", "b"], "inputs": [["x", 0], ["c", 1]],
     "stmts": [["if", 1, {"stmts": [["call", 0, [0, 0]]], "outs": [2]}, {"stmts": [], "outs": [0]}, 17]],
     "outputs": [["z", 2]], "drop": False,
     "funcs": [{"name": "f", "domain": "dom", "nin": 2, "nout": 1,
                "body": {"stmts": [["op", "mul", 17, [0, 0]], ["op", "add", 17, [2, 1]]], "outs": [3]}}],
     "models": []},
    # ... inside a Loop body, nested function inside
    {"args": ["f"], "inputs": [["x", 0]],
     "stmts": [["loop", 2, [0], {"stmts": [["call", 0, [3]]], "outs": [4]}, 17]],
     "outputs": [["z", 1]], "drop": False,
     "funcs": [{"name": "outer", "domain": "dom", "nin": 1, "nout": 1,
                "body": {"stmts": [["call", 1, [0]]], "outs": [1]}},
               {"name": "inner", "domain": "dom", "nin": 1, "nout": 1,
                "body": {"stmts": [["op", "neg", 17, [0]]], "outs": [1]}}],
     "models": []},
    # user output named like a generated value name
    {"args": ["f"], "inputs": [["x", 0]], "stmts": [["op", "abs", 17, [0]], ["op", "neg", 17, [1]]],
     "outputs": [["Abs_0_Y", 2]], "drop": False, "funcs": [], "models": []},
    # sibling bodies with equal op types + the same model inlined twice
    {"args": ["f", "b"], "inputs": [["x", 0], ["c", 1]],
     "stmts": [["if", 1, {"stmts": [["op", "add", 17, [0, 0]], ["inline", 0, [2]]], "outs": [3]},
                {"stmts": [["op", "add", 17, [0, 0]], ["inline", 0, [2]]], "outs": [3]}, 17],
               ["inline", 0, [2]]],
     "outputs": [["y", 3]], "drop": False, "funcs": [],
     "models": [{"ins": ["x"], "outs": ["Add_0_C"], "nodes": [["Add", "Add_0", ["x", "x"], ["x_0"]],
                                                                ["Neg", "", ["x_0"], ["Add_0_C"]]],
                 "inits": [], "opset": 17}]},
]


def run(ck: core.Check):
    from translator import build_flags

    info = build_flags.generate()
    try:  # tie G: from which opset on Identity accepts tensors / sequences / optionals (onnx.defs)
        from translator import identity_types

        ident = identity_types.generate()
    except Exception as e:  # noqa: BLE001
        ident = {"error": f"{type(e).__name__}: {e}"}
        ck.broken("correspondence", "C02 Identity type support not extractable", ident["error"])
    ck.cov["generated"] = {k: info[k] for k in ("known_params", "n_calls", "full_check", "concrete_io")}
    ck.cov["generated"]["to_onnx_model_ir"] = json.dumps(info["to_onnx_model_ir"])
    ck.cov["generated"]["build_ir"] = json.dumps(info["build_ir"])
    ck.cov["generated"]["identity_min_versions"] = ident
    ck.lean(["SpoxModel.Props.C02"], audit="SpoxModel.Audit.C02")
    if ck.thorough:
        ck.leanchecker(["SpoxModel.Props.C02"])

    # tie G (change-triggered escalation): any edit of a covered spox function makes this run use the
    # thorough generation counts (not a verdict by itself)
    try:
        from harness import lib_c02c14_sources as SRC

        cur, diff = SRC.changed()
        ck.cov["covered_sources"] = {"functions_hashed": len(cur), "differ_from_baseline": diff[:40],
                                     "escalated_generation_counts_x2.5": bool(diff) and not ck.thorough}
    except Exception as e:  # noqa: BLE001
        diff = ["<hashing failed>"]
        ck.cov["covered_sources"] = {"error": f"{type(e).__name__}: {e}"}
    escalated = bool(diff) and not ck.thorough
    if diff and not ck.thorough:
        ck.log(f"covered sources changed ({len(diff)}: {', '.join(diff[:4])}{' ...' if len(diff) > 4 else ''}) "
               "-> 2.5x generation counts")

    def pick(q, t):
        # (the full thorough counts would take the quick tier far beyond its time budget on a loaded machine)
        return t if ck.thorough else (min(t, int(q * 2.5)) if escalated else q)

    ck._c02_pick = pick
    try:
        drv = ck.driver()
    except Exception as e:  # noqa: BLE001
        ck.broken("correspondence", "C02 driver", str(e))
        drv = None

    # (a) namespace operations
    if drv is not None:
        try:
            corr_scope(ck, drv)
        except Exception as e:  # noqa: BLE001 - the real class no longer looks as the harness expects
            ck.broken("correspondence", "C02 ScopeSpace not observable",
                      f"{type(e).__name__}: {e} (spox._scope.ScopeSpace attributes/signatures changed?)")

    # (d) the argument check of inlined models on the shape-boundary grid
    if drv is not None:
        try:
            with warnings.catch_warnings():
                warnings.simplefilter("ignore")
                corr_inline_check(ck, drv)
        except Exception as e:  # noqa: BLE001
            ck.broken("correspondence", "C02 inline argument check not observable", f"{type(e).__name__}: {e}")

    # (e) opset requirement of the internal forwarding operator; Identity's type support from onnx.defs (tie G)
    if drv is not None:
        try:
            corr_policy(ck, drv)
        except Exception as e:  # noqa: BLE001
            ck.broken("correspondence", "C02 max_opset_policy not observable", f"{type(e).__name__}: {e}")
    if drv is not None:
        try:
            with warnings.catch_warnings():
                warnings.simplefilter("ignore")
                corr_intro_req(ck, drv)
                corr_inline_req(ck, drv)
        except Exception as e:  # noqa: BLE001
            ck.broken("correspondence", "C02 internal operator opset_req not observable", f"{type(e).__name__}: {e}")

    # generated programs (oracle on all; naming correspondence on the 'naming' slice)
    n_oracle = pick(800, 12000)
    n_naming = pick(350, 5000)
    n_hist = pick(120, 1500)
    tmode = "typed-thorough" if ck.thorough else "typed"
    n_typed = len(typed_grid(ck.seed, ck.thorough)) + pick(60, 2000)
    tasks = ([(ck.seed, i, "oracle") for i in range(n_oracle)] + [(ck.seed, 10**6 + i, "naming") for i in range(n_naming)]
             + [(ck.seed, 2 * 10**6 + i, "hist") for i in range(n_hist)]
             + [(ck.seed, 3 * 10**6 + i, tmode) for i in range(n_typed)])
    results = L.robust_map(case_worker, tasks, min(14, mp.cpu_count()), core.WORK, stall_timeout=900)
    # a case on which the worker process died (C++ abort inside a third-party judge): judged again without
    # loading it into onnxruntime; recorded in the evidence
    died = [i for i, r in enumerate(results) if r.get("died")]
    if died:
        again = L.robust_map(case_worker, [(tasks[i][0], tasks[i][1], tasks[i][2] + "-noort") for i in died],
                             min(14, mp.cpu_count()), core.WORK)
        for i, r in zip(died, again):
            results[i] = r
    ck.cov["process_aborted_in_onnxruntime_rejudged_without_it"] = len(died)
    # (the native judges run in children of the worker: a worker that still dies was killed inside `spox.build`
    #  itself or stalled - neither a returned valid model nor an exception)
    for i in died:
        # (exit code -9 = killed by the pool for not answering within 15 min on an overloaded machine: no verdict)
        if results[i].get("died") and "exit code -9" not in str(results[i].get("crash")):
            ck.failure("process-aborted", f"the process handling generated case {list(tasks[i])} died or stalled "
                                          "(native crash inside build?)", {"task": list(tasks[i])})
    # hand-written adversarial seeds always run (in-process)
    def hand(hs):
        st, m = L.build_spec(hs)
        r = {"spec": hs, "status": st, "stats": L.spec_stats(hs)}
        if st == "ok":
            r["bad"] = L.judge_model(m, custom_keys=custom_keys(hs))
            r["named"] = strip_ops(L.proto_to_named(m.graph))
            r["fnamed"] = [strip_ops(L.func_to_named(f)) for f in m.functions]
            r["walker"] = L.walk_named(L.proto_to_named(m.graph))
        else:
            r["err"] = m
        return r

    for hs in HAND_SPECS:  # (in a child process too: `build` itself calls native code)
        try:
            results.append(ISO.call(hand, hs, timeout=300))
        except ISO.Aborted as e:
            ck.failure("process-aborted", f"building / judging a hand-written program kills the process: {e}", {"spec": hs})
        except Exception as e:  # noqa: BLE001
            results.append({"crash": f"hand spec: {e}", "status": "crash", "spec": None})

    crashes = [r for r in results if r.get("crash")]
    if crashes:
        ck.broken("correspondence", "C02 generated-program worker failed",
                  f"{len(crashes)} cases; first: {crashes[0]['crash']} {crashes[0].get('trace', '')[-400:]}")
    results = [r for r in results if not r.get("crash")]
    hist_results = [r for r in results if r.get("mode") == "hist"]
    typed_results = [r for r in results if r.get("mode") == "typed"]
    results = [r for r in results if r.get("mode") not in ("hist", "typed")]
    judge_histories(ck, hist_results)
    judge_spec_histories(ck, [r for r in results if r.get("hist_recs")])
    judge_typed(ck, typed_results)
    dist = {"returned": 0, "raised": {}, "if": 0, "loop": 0, "inline": 0, "call": 0, "custom_ops": 0, "max_depth": 0,
            "mixed_versions": 0, "drop_true": 0}
    best: dict[str, dict] = {}
    for r in results:
        s = r["stats"]
        for k in ("if", "loop", "inline", "call"):
            dist[k] += int(s[k] > 0)
        dist["custom_ops"] += int(s.get("custom", 0) > 0)
        dist["generic_functions"] = dist.get("generic_functions", 0) + int(s.get("callg", 0) > 0)
        dist["output_named_like_body_value"] = dist.get("output_named_like_body_value", 0) + int(
            any("_branch__" in n or "_body__" in n for n, _ in r["spec"]["outputs"]))
        dist["max_depth"] = max(dist["max_depth"], s["depth"])
        dist["mixed_versions"] += int(len(s["vers"]) > 1)
        dist["drop_true"] += int(bool(r["spec"].get("drop")))
        if r["status"] == "err":
            cls = r["err"].split(":")[0]
            dist["raised"][cls] = dist["raised"].get(cls, 0) + 1
            ck.count(None)
            continue
        dist["returned"] += 1
        dist["ort_refused_but_reference_loads"] = dist.get("ort_refused_but_reference_loads", 0) + len(r.get("ort_unsupported", []))
        ck.count(("prog", json.dumps(r["spec"], sort_keys=True)))
        if r["bad"]:
            key = classify(r["bad"])
            cur = best.get(key)
            if cur is None or len(json.dumps(r["spec"])) < len(json.dumps(cur["spec"])):
                best[key] = r
    for key, r in list(best.items())[:6]:
        spec, bad = r["spec"], r["bad"]

        def same_failure(s, key=key):
            st, m = L.build_spec(s)
            return st == "ok" and classify(L.judge_model(m, custom_keys=custom_keys(s), want_ort=not r.get("ort_skipped"))) == key

        def shrunk(spec=spec, key=key, same_failure=same_failure):
            small = L.shrink(spec, same_failure, budget=120)
            st, m = L.build_spec(small)
            bad2 = L.judge_model(m, custom_keys=custom_keys(small), want_ort=not r.get("ort_skipped")) if st == "ok" else []
            return (small, bad2) if bad2 and classify(bad2) == key else None

        try:  # shrink the witness (failure path only; in a child process: a native crash ends the shrink, not the check)
            got = ISO.call(shrunk, timeout=240)
            if got:
                spec, bad = got
        except Exception:  # noqa: BLE001
            pass
        ck.failure(key, f"build returned a model that fails: {bad[:3]}", {"spec": spec})
    ck.sample({"spec": results[0]["spec"], "status": results[0]["status"]}, 2)

    # behavioural cross-check of the generated "returned model is the checked one" facts
    try:
        sample = [r["spec"] for r in results if r["status"] == "ok"][:60]
        n_ret, n_ok, detail = observe_final_check(sample)
        ck.cov["final_check_observed"] = {"builds_returned": n_ret, "returned_is_last_checked_unchanged": n_ok}
        if n_ret and n_ok != n_ret:
            ck.broken("correspondence", "C02 generated BuildFlags vs observed behaviour (final check)", detail)
    except Exception as e:  # noqa: BLE001
        ck.broken("correspondence", "C02 final check not observable", f"{type(e).__name__}: {e}")

    # (b) Lean checkStructural on the real protos (+ corrupted copies) vs the Python walker
    if drv is not None:
        reqs, expect = [], []
        rng = ck.rng
        for r in results:
            if r["status"] != "ok":
                continue
            graphs = [r["named"]] + r["fnamed"]
            for gi, g in enumerate(graphs):
                probs = L.walk_named(g)
                reqs.append({"k": "check", "g": g})
                expect.append(("real", not probs, r["spec"], _wf_of(probs)))
                if gi == 0 and rng.random() < 0.5:
                    c = corrupt(g, rng)
                    probs = L.walk_named(c)
                    reqs.append({"k": "check", "g": c})
                    expect.append(("corrupt", not probs, c, _wf_of(probs)))
        outs = drv.ask_many("C02", reqs)
        mism = rej_real = n_rej = n_notwf = wf_mism = 0
        for (kind, want, what, want_wf), o in zip(expect, outs):
            got = o.get("accept")
            n_rej += int(got is False)
            # round 10: `Named.wfB` (the hypothesis of checkStructural_complete, decided) vs the walker's two
            # well-formedness clauses (an initializer listed twice, an empty graph input / initializer name)
            n_notwf += int(o.get("wf") is False)
            if o.get("wf") != want_wf:
                wf_mism += 1
                if wf_mism <= 2:
                    ck.broken("correspondence", "C02 wfB (well-formedness clauses of the checker) vs walker",
                              f"kind={kind} lean={o} walker_wf={want_wf} on={json.dumps(what)[:600]}")
            if got != want:
                mism += 1
                if mism <= 3:
                    ck.broken("correspondence", "C02 checkStructural vs independent walker",
                              f"kind={kind} lean={o} walker_accepts={want} on={json.dumps(what)[:600]}")
            if kind == "real" and got is False:
                rej_real += 1
        ck.cov["check_structural"] = {"graphs_checked": len(reqs), "rejected": n_rej, "real_rejected": rej_real,
                                      "mismatches": mism, "not_well_formed": n_notwf, "wf_mismatches": wf_mism}

    # (c) naming correspondence
    if drv is not None:
        unobs = [r for r in results if "real" in r and r["real"][0] in ("extract-failed",)]
        if unobs:
            ck.broken("correspondence", "C02 naming not observable (real Builder internals changed?)",
                      f"{len(unobs)} cases; first: {unobs[0]['real'][1][:300]}")
        nam = [r for r in results if r.get("tree") is not None]
        outs = drv.ask_many("C02", [{"k": "compile", "tree": r["tree"]} for r in nam])
        mism = 0
        nst = {"cases": len(nam), "exact_graphs": 0, "errors_agree": 0, "skipped": 0, "trace_bad": 0}
        for r, o in zip(nam, outs):
            real = r["real"]
            if real[0] in ("other-err", "pre-err", "extract-failed"):
                nst["skipped"] += 1
                continue
            if real[0] == "ok":
                ok = "graph" in o and o["graph"] == strip_ops(real[1])
                nst["exact_graphs"] += int(ok)
            else:
                ok = o.get("err") == real[1]
                nst["errors_agree"] += int(ok)
            if "graph" in o and not (o.get("trace_ok") and o.get("names_in_scope")):
                nst["trace_bad"] += 1
                ok = False
            if not ok:
                mism += 1
                if mism <= 3:
                    ck.broken("correspondence", "C02 naming model vs real Builder names",
                              f"spec={json.dumps(r['spec'])[:900]} model={json.dumps(o)[:700]} real={json.dumps(real)[:700]}")
        nst["mismatches"] = mism
        if nst["cases"] and nst["skipped"] > 0.3 * nst["cases"]:
            ck.broken("correspondence", "C02 naming mostly not observable",
                      f"{nst['skipped']} of {nst['cases']} builds could not be taken apart (real Builder changed?)")
        ck.cov["naming"] = nst

    ck.cov["distribution"] = dist
    ck.exhaustive = False
    ck.rule = (
        f"{n_oracle}+{n_naming} seeded programs (If/Loop depth<=3, inlined models incl. models built by spox itself, "
        "functions incl. nested and inside bodies, opset versions 17-21, initializers, unused inputs, both "
        "drop_unused_inputs; 70% re-built with user names harvested from their own first build / lookalikes) "
        "+ hand-written adversarial seeds; non-trivial = build returned; distinct by spec"
    )
    ck.assumptions += [
        "onnx.checker / strict shape inference / onnxruntime are the judges of validity (third party)",
        "translator/build_flags.py's statement classification of to_onnx_model/build (any statement it cannot "
        "classify as harmless counts as touching the model)",
        "the emission tree (which node in which graph, in which order) is taken from the real Builder; the naming "
        "model predicts names only",
    ]


def replay(ck: core.Check, doc) -> bool:
    """True = still fails. Runs in a child process: a native crash on the replayed input is a failure, not exit 2."""
    try:
        return bool(ISO.call(_replay, ck, doc, timeout=600))
    except ISO.Aborted as e:
        print(f"process-aborted: replaying this input kills the process ({e})")
        return True


def _replay(ck: core.Check, doc) -> bool:
    import sys

    try:
        return _replay_inner(ck, doc)
    finally:
        sys.stdout.flush()


def _replay_inner(ck: core.Check, doc) -> bool:
    case = doc.get("case") or {}
    if case.get("task") is not None:
        r = case_worker(tuple(case["task"]))
        print("case re-generated from its task:", {k: r.get(k) for k in ("status", "err", "bad", "crash")})
        return bool(r.get("bad") or r.get("crash"))
    if case.get("hist") is not None:
        failing = False
        for rec in HI.judge_history(case["hist"]):
            if rec["status"] == "err":
                print(f"build #{rec['bi']} raised:", rec["err"])
            for k, d in rec["bad"]:
                print(f"build #{rec['bi']}: {k}: {d}")
            failing |= bool(rec["bad"])
        return failing
    if case.get("spec_hist") is not None:
        sh = case["spec_hist"]
        failing = False
        for rec in HI.spec_history(sh["spec"], sh["tops"], custom_keys=custom_keys(sh["spec"])):
            if rec["status"] == "err":
                print(f"build #{rec['bi']} raised:", rec["err"])
            for k, d in rec["bad"]:
                print(f"build #{rec['bi']}: {k}: {d}")
            failing |= bool(rec["bad"])
        return failing
    if case.get("typed") is not None:
        st, m = ADV.build_case(case["typed"]) if case["typed"].get("kind") == "adv" else TY.build_any(case["typed"])
        if st == "err":
            print("build raised:", m)
            return False
        bad = TY.judge_built(m)
        for k, d in bad:
            print(f"{k}: {d}")
        return bool(bad)
    spec = case.get("spec")
    if spec is None:
        print("replay file names broken obligations only:", [b["name"] for b in doc.get("broken", [])])
        return False
    st, m = L.build_spec(spec)
    if st == "err":
        print("build raised:", m)
        return False
    bad = L.judge_model(m, custom_keys=custom_keys(spec))
    for k, d in bad:
        print(f"{k}: {d}")
    return bool(bad)
