"""C12 — build and inline are pure, repeatable and independent of process history.

tie G : translator/renames_ir.py (IR of `_temporary_renames`), translator/writes.py (every
        state-writing statement of src/spox/_*.py; what `inline` does with its parameter)
proof  : Props/C12.lean — renames_restored (full strength), build_restores_names,
         build_deterministic (∀ π π'), writes_allowed / swaps_restored / inline_copies_first over the
         generated tables
tie H  : the context manager run on its own over a pool of real Vars (pre-existing names, one Var
         under several keys, raising bodies) vs. the IR executor (driver key C12); build requests
         through the front-end model under five set orders (driver key C03)
oracle : model-free — histories over a shared pool of Vars (constructions, successful and failing
         builds, inline calls, the manager on its own) with snapshots of every Var's
         type/_value/_name/_op and of every passed-in ModelProto around each operation; bytes
         (SerializeToString(deterministic=True)) of a reference request before / after the history
         and in fresh interpreters under several PYTHONHASHSEEDs and allocation patterns
"""
from __future__ import annotations

import json

from harness import core
from harness import lib_front as lf
from harness import lib_history as lh
from harness.props import c03


class _Boom(Exception):
    pass


# ----------------------------------------------------------------------------- tie H: the manager on its own
def gen_rename_case(rng):
    n = rng.randrange(1, 6)
    store = [[v, f"old{v}"] for v in range(n) if rng.random() < 0.3]
    kw = []
    for j in range(rng.randrange(0, 6)):
        key = f"k{j}"
        if j > 0 and rng.random() < 0.1 and all(k_ != "" for k_, _ in kw):
            key = ""  # one empty key now and then, never first (keyword dictionaries have distinct keys)
        if rng.random() < 0.15:
            cand = rng.choice(lf.HOSTILE_NAMES)  # parameter-like names, keywords, dunders, unicode, very long
            if all(k_ != cand for k_, _ in kw):
                key = cand
        kw.append([key, rng.randrange(n)])
    return {"n": n, "kw": kw, "store": store, "raises": rng.random() < 0.5}


def run_rename_real(case):
    import numpy as np
    import spox

    _temporary_renames = lh.get_manager()
    vs = [spox.argument(spox.Tensor(np.float32, ())) for _ in range(case["n"])]
    for v, name in case["store"]:
        vs[v]._rename(name)
    inside = None
    raised = False
    try:
        with _temporary_renames(**{k: vs[i] for k, i in case["kw"]}):
            inside = [v._name for v in vs]
            if case["raises"]:
                raise _Boom()
    except _Boom:
        raised = True
    except Exception as e:  # noqa: BLE001 - the manager itself refused the keywords: names must still be as before
        raised = "error:" + type(e).__name__
    return {"inside": inside, "after": [v._name for v in vs], "raised": raised}


def judge_rename(case, real):
    """Model-free: names after the block = names before; inside, a Var listed once carries its key."""
    before = [None] * case["n"]
    for v, name in case["store"]:
        before[v] = name
    bad = []
    if real["after"] != before:
        why = "raising" if case["raises"] else "normal"
        dup = len({i for _, i in case["kw"]}) < len(case["kw"])
        how = "error" if isinstance(real["raised"], str) else ("raised" if case["raises"] else "ok")
        bad.append((f"name:changed-after-renames-{how}" + (":dup" if dup else ""),
                    f"_temporary_renames({case['kw']}) with a {why} body: names before {before}, after {real['after']}"))
    if real["inside"] is not None:
        for k, i in case["kw"]:
            if sum(1 for _, j in case["kw"] if j == i) == 1 and real["inside"][i] != k:
                bad.append(("name:not-in-force-inside", f"Var #{i} listed as {k!r} is named {real['inside'][i]!r} inside the block"))
                break
    return bad


# ----------------------------------------------------------------------------- histories
def shrink_history(prog, hist, ref, key):
    def fails(h):
        try:
            return key in [v[0] for v in lh.run_case(prog, h, ref)["violations"]]
        except Exception:  # noqa: BLE001
            return False

    cur = list(hist)
    # constructed ids are positional, so only drop operations that create no Var
    j = len(cur) - 1
    while j >= 0:
        if cur[j]["op"] in ("build", "renames") or (cur[j]["op"] == "inline" and cur[j]["how"] not in ("kw", "pos")):
            cand = cur[:j] + cur[j + 1:]
            if fails(cand):
                cur = cand
        j -= 1
    return cur


def run(ck: core.Check):
    from translator import graph_setters, renames_ir, writes

    try:
        ck.cov["generated_graph_setters"] = graph_setters.generate()
    except Exception as e:  # noqa: BLE001
        ck.broken("translator", "translator/graph_setters.py could not read src/spox", f"{type(e).__name__}: {e}")

    try:
        ck.cov["generated_renames_ir"] = renames_ir.generate()["ir"]
    except Exception as e:  # noqa: BLE001
        ck.broken("translator", "translator/renames_ir.py could not read src/spox/_public.py", f"{type(e).__name__}: {e}")
    try:
        w = writes.generate()
        ck.cov["generated_write_sites"] = len(w["sites"])
        ck.cov["generated_inline_events"] = w["inline_events"]
        ck.cov["generated_mutate_attr_sites"] = sum(1 for x in w["sites"] if x["kind"] == "mutate-attr")
        ck.cov["generated_module_level_containers"] = len(w.get("module_mutables", []))
        ck.cov["generated_decorators"] = sorted({x[2] for x in w.get("decorators", [])})
        ck.cov["generated_dict_access_sites"] = len(w.get("dict_access", []))
    except Exception as e:  # noqa: BLE001
        ck.broken("translator", "translator/writes.py could not read src/spox", f"{type(e).__name__}: {e}")
    changed = lf.covered_code_changes(ck)
    ck.lean(["SpoxModel.Props.C12"], audit="SpoxModel.Audit.C12")
    if ck.thorough:
        ck.leanchecker(["SpoxModel.Props.C12"])

    rng = ck.rng
    import time as _time

    _t = [_time.time()]
    phases = {}

    def lap(name):
        phases[name] = round(_time.time() - _t[0], 1)
        _t[0] = _time.time()

    # ---- tie H (1): the manager on its own, real vs IR executor; model-free judgement alongside
    rcases = [gen_rename_case(rng) for _ in range(ck.pick(600, 4000))]
    try:
        rmodel = ck.driver().ask_many("C12", rcases)
    except Exception as e:  # noqa: BLE001
        ck.broken("correspondence", "C12 driver", str(e))
        rmodel = [None] * len(rcases)
    mism = 0
    if lh.get_manager() is None:
        ck.broken("correspondence", "spox._public._temporary_renames not observable (renamed or removed)",
                  "the manager-on-its-own facet is skipped; the history oracle still watches names around builds")
        rcases, rmodel = [], []
    unobs = 0
    for case, m in zip(rcases, rmodel):
        try:
            real = run_rename_real(case)
        except Exception as e:  # noqa: BLE001 - changed signature / Var._rename gone
            unobs += 1
            if unobs == 1:
                ck.broken("correspondence", "_temporary_renames facet not observable", f"{type(e).__name__}: {e}")
            continue
        ck.count(("rn", json.dumps(case)) if len(case["kw"]) >= 2 else None)
        for key, what in judge_rename(case, real):
            ck.failure(key, what, {"mode": "renames", "rename_case": case})
        if m is not None and (m.get("inside") != real["inside"] or m.get("after") != real["after"] or m.get("raised") != real["raised"]):
            mism += 1
            if mism <= 3:
                ck.broken("correspondence", "C12 _temporary_renames IR vs implementation", f"case={case} model={m} real={real}")
    ck.cov["rename_correspondence_cases"] = len(rcases)
    ck.cov["rename_correspondence_mismatches"] = mism

    lap("renames")
    # ---- tie H (2): the front-end model gives one answer under every set order, equal to the real build
    progs = [lf.gen_program(rng) for _ in range(ck.pick(60, 400))]
    dcases = []
    for prog in progs:
        for _ in range(2):
            req = lf.gen_request(rng, prog, allow_dup=(rng.random() < 0.2))
            req["drop"] = rng.random() < 0.8
            dcases.append((prog, req))
    try:
        outs = ck.driver().ask_many("C03", [c03.model_request(p, r, pi=pi) for p, r in dcases for pi in range(5)])
    except Exception as e:  # noqa: BLE001
        ck.broken("correspondence", "C03 driver (set orders)", str(e))
        outs = []
    dm = 0
    for j, (prog, req) in enumerate(dcases):
        group = outs[5 * j: 5 * j + 5]
        if not group:
            break
        try:
            env = lf.realize(prog)
        except Exception as e:  # noqa: BLE001
            ck.broken("correspondence", "program not constructible with the public constructors", f"{type(e).__name__}: {e}")
            continue
        got = lf.run_build(env, req)
        real = lf.observed(got[1]) if got[0] == "ok" else got[1]
        for m in group:
            r = m.get("res", {})
            mine = ([tuple(x) for x in r["inputs"]], [tuple(x) for x in r["outputs"]]) if "inputs" in r else r.get("err")
            theirs = ([tuple(x) for x in real[0]], [tuple(x) for x in real[1]]) if got[0] == "ok" else real
            if mine != theirs:
                dm += 1
                if dm <= 2:
                    ck.broken("correspondence", "C12 front-end model under a set order vs spox.build",
                              f"req={req} objs={lf.to_objs(prog)} model={m} real={real}")
        ck.count(None)
    ck.cov["set_order_correspondence_cases"] = len(dcases) * 5
    ck.cov["set_order_correspondence_mismatches"] = dm
    # ---- tie H (2b): histories. `Front.runHist` over the statement list extracted from _public.py (the object of
    # history_independent / history_deterministic) runs r1, r2, r1 over ONE name store under five families of set
    # orders (the order changes from step to step); the real spox.build runs the same sequence on one set of Vars.
    hreqs, hmeta = [], []
    for j in range(0, len(dcases) - 1, 2):
        prog, r1 = dcases[j]
        r2 = dcases[j + 1][1]
        seq = [r for r in (r1, r2, r1) if c03.is_modelled(r)]
        if len(seq) < 2:
            continue
        for fam in range(5):
            hreqs.append({"objs": lf.to_objs(prog), "store": lf.preset_store(prog),
                          "hist": [{"inputs": r["inputs"], "outputs": r["outputs"], "drop": r["drop"], "pi": (fam + 2 * i) % 5}
                                   for i, r in enumerate(seq)]})
        hmeta.append((prog, seq))
    try:
        houts = ck.driver().ask_many("C03", hreqs)
    except Exception as e:  # noqa: BLE001
        ck.broken("correspondence", "C03 driver (histories under set orders)", str(e))
        houts = []
    hm = hsteps = hfailed = 0
    for j, (prog, seq) in enumerate(hmeta):
        group = houts[5 * j: 5 * j + 5]
        if not group:
            break
        try:
            env = lf.realize(prog)
            gots = [lf.run_build(env, r) for r in seq]
            names_after = [getattr(env.get(i), "_name", None) for i in range(prog["n"])]
        except Exception as e:  # noqa: BLE001
            ck.broken("correspondence", "history not runnable with the public API", f"{type(e).__name__}: {e}")
            continue
        hsteps += len(seq)
        hfailed += sum(1 for g in gots if g[0] != "ok")
        for m in group:
            rs = m.get("results") if isinstance(m, dict) else None
            ok = (isinstance(rs, list) and len(rs) == len(seq)
                  and all(c03.agrees(r_, g_, q_) for r_, g_, q_ in zip(rs, gots, seq))
                  and m.get("names") == names_after)
            if not ok:
                hm += 1
                if hm <= 2:
                    ck.broken("correspondence", "C12 history model (Front.runHist, statements of build) under a family of set orders vs the real sequence of builds",
                              f"objs={lf.to_objs(prog)} steps={seq} model={m} "
                              f"real={[(g[0] if g[0] == 'ok' else g[1]) for g in gots]} names={names_after}")
        ck.count(None)
    ck.cov["history_correspondence"] = {"histories": len(hmeta), "set_order_families": 5, "steps": hsteps,
                                        "failed_steps": hfailed, "mismatches": hm}

    lap("set_orders")
    # ---- oracle: histories, in this process (which has a long history of its own by now)
    n_hist = ck.pick(1000 if changed else 650, 4000)  # code the models cover was edited: look harder
    hcases = []
    stats = {"ops": {}, "violating_histories": 0, "refs": 0, "chain_histories": 0, "preset_named_args": 0, "opsets": {}}
    for _ in range(n_hist):
        prog = lf.gen_program(rng, size=rng.randrange(1, 6), domains=(rng.random() < 0.5))
        ref = lh.gen_reference(rng, prog)
        hist = lh.gen_history(rng, prog, rng.randrange(2, 9))
        hcases.append({"prog": prog, "hist": hist, "ref": ref, "salt": rng.randrange(0, 200)})
    # histories over programs with a dependency chain of 1200 / 3000 operators (flat and inside a body): the
    # snapshots, the renamed rebuilds and the never-built twin at the size where recursion limits bite. Appended
    # after the random ones (their index is beyond the slice below, so they are listed separately).
    chain_cases = []
    for n_, in_body in ck.pick([(1200, False), (1200, True)], [(1200, False), (1200, True), (3000, False), (3000, True)]):
        cp = lf.gen_chain_program(rng, n_, in_body)
        creqs = lf.chain_requests(cp)
        chist = [{"op": "build", "req": creqs[1]}, {"op": "build", "req": creqs[2]}] + lh.gen_history(rng, cp, 3)
        chain_cases.append({"prog": cp, "hist": chist, "ref": creqs[0], "salt": 0})
    inproc = []
    # (quick: all histories are generated - the later phases draw from the same PRNG - the first 480 are run)
    for c in hcases[: ck.pick(900 if changed else 480, len(hcases))] + chain_cases:
        try:
            r = lh.run_case(c["prog"], c["hist"], c["ref"])
        except Exception as e:  # noqa: BLE001 - observation machinery, not a verdict
            ck.broken("correspondence", "history not runnable", f"{type(e).__name__}: {e}")
            r = {"violations": [], "ref_before": None, "ref_after": None}
        inproc.append(r)
        for o in c["hist"]:
            stats["ops"][o["op"]] = stats["ops"].get(o["op"], 0) + 1
        stats["chain_histories"] += 1 if "chain" in c["prog"] else 0
        stats["preset_named_args"] += len(lf.preset_store(c["prog"]))
        stats["opsets"][str(c["prog"].get("opset", 17))] = stats["opsets"].get(str(c["prog"].get("opset", 17)), 0) + 1
        ck.count(("hist", json.dumps([lf.to_objs(c["prog"]), c["hist"]])) if len(c["hist"]) >= 2 else None)
        ck.sample({"history": [o["op"] + (":" + o["req"]["kind"] if o["op"] == "build" else "") for o in c["hist"]],
                   "ref_before": r["ref_before"], "ref_after": r["ref_after"]}, 3)
        if r["violations"]:
            stats["violating_histories"] += 1
        for key, what, step in r["violations"]:
            small = shrink_history(c["prog"], c["hist"][: step + 1] if 0 <= step < len(c["hist"]) else c["hist"], c["ref"], key)
            ck.failure(key, what, {"mode": "history", "prog": c["prog"], "hist": small, "ref": c["ref"]})

    lap("histories")
    # ---- oracle: Graph setters applied to an already built Graph (memoised build result)
    probes = 0
    for c in hcases[: ck.pick(60, 400)]:
        if c["ref"] is None:
            continue
        try:
            bad_ = lh.graph_setter_probe(c["prog"], c["ref"])
        except Exception as e:  # noqa: BLE001 - internal API moved
            ck.broken("correspondence", "Graph setters not observable (spox._graph.results / Graph.with_* / get_arguments)", f"{type(e).__name__}: {e}")
            break
        probes += 1
        ck.count(None)
        for key, what in bad_:
            ck.failure(key, what, {"mode": "graphcache", "prog": c["prog"], "ref": c["ref"]})
    stats["graph_setter_probes"] = probes

    lap("graph_setters")
    # ---- oracle: look-alike programs built, freed and built again (results keyed by object identity go stale)
    n_fam = ck.pick(30, 200)
    fams = 0
    for _ in range(n_fam):
        fam = lh.gen_reuse_family(rng, rng.randrange(4, 9))
        if fam is None:
            continue
        fams += 1
        ck.count(("fam", json.dumps([lf.to_objs(p) for p in fam["progs"]])))
        try:
            bad_ = lh.run_reuse_family(fam)
        except Exception as e:  # noqa: BLE001
            ck.broken("correspondence", "look-alike family not runnable", f"{type(e).__name__}: {e}")
            bad_ = []
        for key, what in bad_:
            ck.failure(key, what, {"mode": "reuse", "family": fam})
    stats["reuse_families"] = fams

    lap("reuse_families")
    # ---- oracle: the same reference requests in fresh interpreters, several hash seeds / allocation patterns
    hashseeds = list(range(ck.pick(6, 32)))
    sub = [c for c in hcases if c["ref"] is not None][: ck.pick(150, 400)]
    fresh_cases = [{"prog": c["prog"], "hist": [], "ref": c["ref"], "salt": c["salt"]} for c in sub]
    for c in sub[: ck.pick(25, 100)]:  # a few complete histories too
        fresh_cases.append({"prog": c["prog"], "hist": c["hist"], "ref": c["ref"], "salt": c["salt"] + 7})
    # long generated names (If nested 5-7 deep, inlined models with 150-character internal names): whatever spox
    # does to long names must not depend on the interpreter's string-hash salt
    n_long = 0
    for _ in range(ck.pick(10, 60)):
        lp, lreq = lf.gen_long_name_program(rng)
        fresh_cases.append({"prog": lp, "hist": [], "ref": lreq, "salt": rng.randrange(0, 50)})
        n_long += 1
    stats["long_name_programs"] = n_long
    results = c03.run_fresh(ck, fresh_cases, hashseeds, "c12")
    by_case = {}
    for hs, res in results.items():
        for j, r in enumerate(res):
            if r is not None:
                by_case.setdefault(j, {})[hs] = r
    idx_of = {id(c): k for k, c in enumerate(hcases)}
    for j, per_seed in by_case.items():
        fc = fresh_cases[j]
        shas = {hs: r["ref_after"] for hs, r in per_seed.items()}
        ck.count(None, len(per_seed))
        for hs, r in per_seed.items():
            for key, what, step in r["violations"]:
                ck.failure(key, what + f" (fresh process, PYTHONHASHSEED={hs})",
                           {"mode": "history", "prog": fc["prog"], "hist": fc["hist"], "ref": fc["ref"], "hashseeds": hashseeds, "salt": fc["salt"]})
        if len(set(shas.values())) > 1:
            ck.failure("bytes:differs-across-processes",
                       f"the same request gives different bytes in fresh processes: {sorted(set(shas.values()))} over PYTHONHASHSEED {sorted(shas)}",
                       {"mode": "fresh", "prog": fc["prog"], "hist": fc["hist"], "ref": fc["ref"], "hashseeds": hashseeds, "salt": fc["salt"]})
        elif j < len(sub):
            # compare with the long-lived process after its history
            k_ = idx_of[id(sub[j])]
            if k_ >= len(inproc):
                continue
            mine = inproc[k_]["ref_after"]
            theirs = next(iter(shas.values()))
            if mine != theirs:
                prelude = [{"prog": c_["prog"], "hist": c_["hist"], "ref": c_["ref"]} for c_ in hcases[max(0, k_ - 2): k_]]
                ck.failure("bytes:history-dependent",
                           f"reference request: {theirs} in a fresh process, {mine} after a history in a long-lived process",
                           {"mode": "fresh-vs-history", "prog": fc["prog"], "hist": sub[j]["hist"], "ref": fc["ref"],
                            "hashseeds": hashseeds[:3], "salt": fc["salt"], "prelude": prelude})
        stats["refs"] += 1
    lap("fresh_processes")
    # ---- oracle: inlined hand-built models with several dense AND sparse initializers (some dense ones also inputs
    # with defaults), random-looking names, built in fresh interpreters under several hash seeds: bytes must coincide
    from harness import lib_c12sparse as lsp
    sp_specs = [lsp.gen_spec(rng) for _ in range(ck.pick(40, 200))]
    sp_seeds = hashseeds[: ck.pick(6, 12)]
    sp_res = lsp.run_family(ck, sp_specs, sp_seeds)
    sp_stats = {"models": len(sp_specs), "hash_seeds": len(sp_seeds), "built": 0, "refused": 0,
                "sparse_initializers": {}, "dense_initializers": {}, "default_valued_inputs": {}, "inlined_twice": 0}
    for j, spec in enumerate(sp_specs):
        per_seed = {hs: (res[j] if res is not None and j < len(res) else None) for hs, res in sp_res.items()}
        ck.count(None, len(per_seed))
        first = next((r for r in per_seed.values() if r is not None), None)
        sp_stats["built" if first and "sha" in first else "refused"] += 1
        for fld, val in (("sparse_initializers", len(spec["sparse"])), ("dense_initializers", len(spec["dense"])),
                         ("default_valued_inputs", sum(1 for d in spec["dense"] if d["as_input"]))):
            sp_stats[fld][str(val)] = sp_stats[fld].get(str(val), 0) + 1
        sp_stats["inlined_twice"] += 1 if spec["twice"] else 0
        for key, what in lsp.judge(spec, per_seed):
            ck.failure(key, what, {"mode": "sparse", "spec": spec, "hashseeds": sp_seeds})
    stats["sparse_initializer_models"] = sp_stats
    lap("sparse_initializer_models")
    ck.cov.update({
        "phase_seconds": phases,
        "histories": len(inproc),
        "fresh_process_cases": len(fresh_cases),
        "hash_seeds": len(hashseeds),
        "distribution": stats,
    })
    ck.exhaustive = False
    ck.rule = (
        "seeded-random: (a) keyword dictionaries for _temporary_renames over <= 5 Vars (pre-named Vars, repeated "
        "Vars, raising bodies); (b) requests through the front-end model under 5 set orders; (c) histories of 2-8 "
        "operations (builds of every request kind incl. missing / non-argument / non-Var / duplicate / name-clash, "
        "constructions, inline calls with keyword / positional / missing / unknown arguments on 3 hand-made models "
        "with symbolic dims and initializers, the manager on its own) over the pool of a random program, each with a "
        "reference request built before, after, and in fresh interpreters; non-trivial = at least 2 keys / 2 operations"
    )
    ck.assumptions += [
        "CPython's contextlib.contextmanager semantics as modelled in Model/Renames.lean (exception thrown into the generator at yield)",
        "translator/renames_ir.py's and translator/writes.py's statement classification (the former validated by the name-store correspondence on every run)",
        "protobuf's SerializeToString(deterministic=True) is a function of the message value",
        "Python set iteration order is an arbitrary permutation (parameter π); nothing else in the build path depends on addresses — checked by the fresh-process byte comparison only, not proved",
    ]


def replay(ck: core.Check, doc) -> bool:
    case = doc["case"]
    mode = case.get("mode")
    if mode == "renames":
        rc = case["rename_case"]
        bad = judge_rename(rc, run_rename_real(rc))
        for key, what in bad:
            print(f"{key}: {what}")
        return bool(bad)
    if mode == "sparse":
        from harness import lib_c12sparse as lsp
        res = lsp.run_family(ck, [case["spec"]], case.get("hashseeds", [0, 1, 2, 3, 4, 5]), tag="replay")
        bad = lsp.judge(case["spec"], {hs: (r[0] if r else None) for hs, r in res.items()})
        for key, what in bad:
            print(f"{key}: {what}")
        return bool(bad)
    if mode == "graphcache":
        bad = lh.graph_setter_probe(case["prog"], case["ref"])
        for key, what in bad:
            print(f"{key}: {what}")
        return bool(bad)
    if mode == "reuse":
        bad = lh.run_reuse_family(case["family"], rounds=12)
        for key, what in bad:
            print(f"{key}: {what}")
        return bool(bad)
    if mode == "fresh-vs-history":
        # the original process had built other things before; give this one a (fixed) past too
        import random

        wr = random.Random(12345)
        for _ in range(3):
            wp = lf.gen_program(wr, n_args=2, size=2, max_depth=0)
            wref = lh.gen_reference(wr, wp)
            if wref is not None:
                lh.run_case(wp, [], wref)
    for pre in case.get("prelude", []):
        lh.run_case(pre["prog"], pre["hist"], pre["ref"])
    prog, hist, ref = case["prog"], case.get("hist", []), case.get("ref")
    # orders that come from object addresses differ from realisation to realisation: try a few
    for _ in range(8):
        r = lh.run_case(prog, hist, ref)
        if r["violations"]:
            break
    for key, what, _ in r["violations"]:
        print(f"{key}: {what}")
    if r["violations"]:
        return True
    if True:
        seeds = case.get("hashseeds", [0, 1, 2, 3])[:8]
        fresh = c03.run_fresh(ck, [{"prog": prog, "hist": hist if mode != "fresh-vs-history" else [], "ref": ref,
                                    "salt": case.get("salt", 0) + 17 * j} for j in range(3)], seeds, "replay")
        shas = set()
        for hs, res in fresh.items():
            for one in res:
                if one is None:
                    continue
                for key, what, _ in one["violations"]:
                    print(f"{key}: {what} (PYTHONHASHSEED={hs})")
                    return True
                shas.add(one["ref_after"])
        if len(shas) > 1:
            print(f"bytes:differs-across-processes: {sorted(shas)}")
            return True
        if mode == "fresh-vs-history" and shas and r["ref_after"] not in shas:
            print(f"bytes:history-dependent: fresh {sorted(shas)} vs after the recorded history {r['ref_after']}")
            return True
    return False
