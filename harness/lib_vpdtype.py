"""placeholder, filled below"""
TEMPLATES: list = []
