"""Operators on which a value-propagation backend may compute in ANOTHER dtype than the ONNX operator
(C07, feedback round 6, class 2).

`onnx.reference` implements many operators with numpy expressions whose result dtype is numpy's, not the
operator's: `ai.onnx.ml` Scaler / Normalizer / LinearRegressor ... on integer or float64 inputs, reductions
and means on integers, float16 arithmetic. `Node.inference` keeps a propagated value only if its dtype IS
the inferred one (`PropValue.check`); a value of another dtype is the symptom of a backend that did not
compute the operator and must be dropped, not "conformed". Every value that IS kept is compared exactly
with onnxruntime's result of the built model by the C07 oracle (`lib_vpprog.c07_check_program`).

A program: const inputs (int32 / int64 / float64 / float16 / float32 / uint8 ...) -> one operator
(`mlop` step: module, constructor name, keyword attributes) -> Identity / Shape downstream.
"""
from __future__ import annotations

import importlib

import numpy as np

MODS = {"ml3": "spox.opset.ai.onnx.ml.v3", "ml4": "spox.opset.ai.onnx.ml.v4", "ml5": "spox.opset.ai.onnx.ml.v5",
        "v17": "spox.opset.ai.onnx.v17", "v20": "spox.opset.ai.onnx.v20", "v19": "spox.opset.ai.onnx.v19", "v21": "spox.opset.ai.onnx.v21"}


def apply_mlop(step: dict, a: list) -> list:
    mod = importlib.import_module(MODS[step["mod"]])
    fn = getattr(mod, step["fn"])
    kw = dict(step.get("kwargs", {}))
    for k in step.get("np_kwargs", []):  # attributes that are numpy dtypes / arrays
        v = kw[k]
        kw[k] = np.dtype(v).type if isinstance(v, str) else np.array(v["data"], dtype=v["dt"]).reshape(v["shape"])
    if step.get("variadic"):
        r = fn(list(a), **kw)
    else:
        r = fn(*a, **kw)
    return list(r) if isinstance(r, tuple) else [r]


INT_F = ["i64", "i32", "f64", "f32"]


def _vals(rng, dt, n, lo=-4, hi=9):
    if dt in ("f32", "f64", "f16"):
        return [rng.choice([0.5, 1.5, -2.25, 3.0, 0.25, 7.75, -0.75, 2.0, -1.0, 0.0, 4.5, 1.25]) for _ in range(n)]
    if dt == "bool":
        return [bool(rng.randrange(2)) for _ in range(n)]
    if dt.startswith("u"):
        return [rng.randrange(0, hi) for _ in range(n)]
    return [rng.randrange(lo, hi) for _ in range(n)]


TEMPLATES = ["scaler", "normalizer", "binarizer", "imputer", "linear_regressor", "array_feature_extractor",
             "tree_regressor", "linear_classifier", "label_encoder",
             "feature_vectorizer", "reduce_int", "mean_family", "arith_small", "unary_float", "matmul_int",
             "cumsum_pow", "quantize", "pool_f64", "cast_chain", "random", "random", "string_chain", "string_chain", "string_chain"]


def gen_string_chain(rng) -> list:
    """Chains of >= 2 string operators over constants: StringConcat / StringSplit / StringNormalizer /
    RegexFullMatch (v20), Gather / Concat / Where / Identity on string tensors, Cast to string. The reference
    evaluator returns some string results as object arrays: the NEXT operator must still construct (it
    constructs with propagation off), and every value must equal the runtime's."""
    steps: list = []
    # (no empty string: onnx.reference's StringSplit gives [['']] / 1 for it, onnxruntime [] / 0 - third-party)
    words = ["foo", "bar", "Baz", "a b", "x", "ü", "c d e", "fo"]

    def S(n):
        steps.append({"op": "const", "how": "value", "dt": "str", "shape": [n], "data": [rng.choice(words) for _ in range(n)]})
        return len(steps) - 1

    def M(name, mod, fn, args, nout=1, **kw):
        steps.append({"op": "mlop", "name": name, "mod": mod, "fn": fn, "args": args, "in_dt": "str", "kwargs": kw, "np_kwargs": [],
                      "variadic": False, "nout": nout})
        return nvars() - nout

    def nvars():
        return sum(st.get("nout", 2 if st["op"] in ("topk", "split") else 1) for st in steps)

    n = rng.choice([1, 2, 3])
    if rng.random() < 0.25:
        steps.append({"op": "const", "how": "value", "dt": "f32", "shape": [n], "data": [rng.choice([1.5, 2.75, -0.25, 0.5]) for _ in range(n)]})  # (integral floats print differently: 2.0 vs 2, third-party)
        steps.append({"op": "cast", "args": [0], "to": "str"})
        cur = 1
    else:
        cur = S(n)
    for _ in range(rng.choice([2, 2, 3, 4])):
        o = rng.choice(["concat_s", "concat_s", "ident", "norm" if rng.random() < 0.3 else "ident", "gather", "where", "concat0", "split", "regex"])
        if o == "concat_s":
            c = S(n)
            cur = M("StringConcat", "v20", "string_concat", [cur, c] if rng.random() < 0.7 else [c, cur])
        elif o == "ident":
            steps.append({"op": "identity", "args": [cur]})
            cur = nvars() - 1
        elif o == "norm":
            cur = M("StringNormalizer", "v17", "string_normalizer", [cur], case_change_action=rng.choice(["UPPER", "LOWER"]))
        elif o == "gather":
            idx = [rng.randrange(n) for _ in range(n)]
            steps.append({"op": "const", "how": "value", "dt": "i64", "shape": [n], "data": idx})
            steps.append({"op": "gather", "args": [cur, nvars() - 1]})
            cur = nvars() - 1
        elif o == "where":
            steps.append({"op": "const", "how": "value", "dt": "bool", "shape": [n], "data": [bool(rng.randrange(2)) for _ in range(n)]})
            cnd = nvars() - 1
            alt = S(n)
            steps.append({"op": "where", "args": [cnd, cur, alt]})
            cur = nvars() - 1
        elif o == "concat0":
            c = S(1)
            steps.append({"op": "concat", "args": [cur, c]})
            cur = nvars() - 1
            n += 1
        elif o == "split":
            first = M("StringSplit", "v20", "string_split", [cur], nout=2, delimiter=rng.choice([None, " "]) or " ")
            steps.append({"op": "identity", "args": [first]})
            steps.append({"op": "identity", "args": [first + 1]})
            return steps
        else:
            first = M("RegexFullMatch", "v20", "regex_full_match", [cur], pattern=rng.choice(["fo.*", ".*a.*", "x"]))
            steps.append({"op": "identity", "args": [first]})
            return steps
    steps.append({"op": "identity", "args": [cur]})
    return steps


def gen_dtype_program(rng, template: str) -> list:
    if template == "string_chain":
        return gen_string_chain(rng)
    t = template
    steps: list = []

    def C(dt, shape, data=None):
        n = int(np.prod(shape)) if shape else 1
        steps.append({"op": "const", "how": rng.choice(["value", "value", "init"]), "dt": dt, "shape": list(shape),
                      "data": data if data is not None else _vals(rng, dt, n)})
        return len(steps) - 1

    def OP(name, mod, fn, args, in_dt, nout=1, **kw):
        np_kwargs = kw.pop("np_kwargs", [])
        variadic = kw.pop("variadic", False)
        steps.append({"op": "mlop", "name": name, "mod": mod, "fn": fn, "args": args, "in_dt": in_dt,
                      "kwargs": {k: v for k, v in kw.items() if v is not None}, "np_kwargs": np_kwargs, "variadic": variadic, "nout": nout})

    ml = rng.choice(["ml3", "ml3", "ml4", "ml5"])
    n, c = rng.choice([1, 2, 3]), rng.choice([2, 3])
    dt = rng.choice(INT_F)
    if t == "scaler":
        x = C(dt, [n, c])
        OP("Scaler", ml, "scaler", [x], dt, offset=[rng.choice([0.25, 0.5, 1.0, -0.75]) for _ in range(c)],
           scale=[rng.choice([1.0, 0.5, 2.0, 0.3]) for _ in range(c)])
    elif t == "normalizer":
        dt = "f32"  # (spox reports X's element type for Y - C06's known finding Normalizer:Y:dtype - the built model is invalid otherwise)
        # (non-negative data: for negative entries onnx.reference and onnxruntime disagree on MAX / L1 - third-party)
        x = C(dt, [n, c], [rng.choice([0.5, 1.5, 2.25, 3.0, 0.25, 7.75]) for _ in range(n * c)])
        OP("Normalizer", ml, "normalizer", [x], dt, norm=rng.choice(["MAX", "L1", "L2"]))
    elif t == "binarizer":
        x = C(dt, [n, c])
        OP("Binarizer", ml, "binarizer", [x], dt, threshold=rng.choice([0.0, 0.5, 1.0, 1.5, -0.5]))
    elif t == "imputer":
        if dt[0] == "i":
            x = C(dt, [n, c], [rng.choice([0, 1, 2, 7]) for _ in range(n * c)])
            OP("Imputer", ml, "imputer", [x], dt, imputed_value_int64s=[rng.choice([5, -3])] * rng.choice([1, c]), replaced_value_int64=rng.choice([0, 7]))
        else:
            x = C(dt, [n, c], [rng.choice([0.5, float("nan"), 2.0, 7.5]) for _ in range(n * c)])
            OP("Imputer", ml, "imputer", [x], dt, imputed_value_floats=[rng.choice([5.25, -3.5])] * rng.choice([1, c]),
               replaced_value_float=rng.choice([None, 7.5, 0.5]))
    elif t == "linear_regressor":
        x = C(dt, [n, c])
        k = c  # (targets == features: spox reports X's shape for Y - C06's known finding LinearRegressor:Y:dim1:targets)
        OP("LinearRegressor", ml, "linear_regressor", [x], dt, coefficients=[rng.choice([0.5, 0.3, -1.25, 2.0]) for _ in range(k * c)],
           intercepts=[rng.choice([0.25, -0.5]) for _ in range(k)], targets=k, post_transform=rng.choice([None, "NONE"]))
    elif t == "array_feature_extractor":
        x = C(rng.choice(INT_F + ["str"]) if False else dt, [n, c + 1])
        y = C("i64", [2], [rng.randrange(c + 1) for _ in range(2)])
        OP("ArrayFeatureExtractor", ml, "array_feature_extractor", [x, y], dt)
    elif t == "svm_regressor":
        x = C(dt, [n, 2])
        OP("SVMRegressor", ml, "svm_regressor", [x], dt, coefficients=[0.5, -0.25], kernel_params=[0.1, 0.0, 2.0], kernel_type="LINEAR",
           n_supports=0, rho=[0.3], post_transform="NONE")
    elif t in ("tree_regressor", "tree_classifier"):
        ml = rng.choice(["ml3", "ml4"])
        x = C(dt, [n, 2])
        common = dict(nodes_falsenodeids=[2, 0, 0], nodes_featureids=[0, 0, 0], nodes_hitrates=[1.0, 1.0, 1.0], nodes_missing_value_tracks_true=[0, 0, 0],
                      nodes_modes=["BRANCH_LEQ", "LEAF", "LEAF"], nodes_nodeids=[0, 1, 2], nodes_treeids=[0, 0, 0], nodes_truenodeids=[1, 0, 0],
                      nodes_values=[rng.choice([0.5, 1.0, 1.5, 2.0]), 0.0, 0.0], post_transform="NONE")
        if t == "tree_regressor":
            OP("TreeEnsembleRegressor", ml, "tree_ensemble_regressor", [x], dt, n_targets=1, target_ids=[0, 0], target_nodeids=[1, 2],
               target_treeids=[0, 0], target_weights=[0.25, 1.75], **common)
        else:
            OP("TreeEnsembleClassifier", ml, "tree_ensemble_classifier", [x], dt, nout=2, class_ids=[0, 1], class_nodeids=[1, 2], class_treeids=[0, 0],
               class_weights=[1.0, 1.0], classlabels_int64s=[3, 8], **common)
    elif t == "linear_classifier":
        x = C(dt, [n, 2])
        OP("LinearClassifier", ml, "linear_classifier", [x], dt, nout=2, coefficients=[0.5, -0.25, -0.5, 0.75], intercepts=[0.1, -0.1],
           classlabels_ints=[4, 9], multi_class=0, post_transform=rng.choice(["NONE", "SOFTMAX", "LOGISTIC"]))
    elif t == "label_encoder":
        ml2 = rng.choice(["ml3", "ml4", "ml5"])
        kind = rng.choice(["i2f", "f2i", "i2i"])
        if kind == "i2f":
            x = C("i64", [n, c], [rng.choice([1, 2, 5]) for _ in range(n * c)])
            OP("LabelEncoder", ml2, "label_encoder", [x], "i64", keys_int64s=[1, 2], values_floats=[0.5, 2.25], default_float=-1.5)
        elif kind == "f2i":
            x = C("f32", [n, c], [rng.choice([0.5, 1.5, 3.0]) for _ in range(n * c)])
            OP("LabelEncoder", ml2, "label_encoder", [x], "f32", keys_floats=[0.5, 1.5], values_int64s=[7, -2], default_int64=11)
        else:
            x = C("i64", [n, c], [rng.choice([1, 2, 5]) for _ in range(n * c)])
            OP("LabelEncoder", ml2, "label_encoder", [x], "i64", keys_int64s=[1, 2], values_int64s=[70, -20], default_int64=-1)
    elif t == "feature_vectorizer":
        xs = [C(dt, [n, c]), C(dt, [n, 1])]
        OP("FeatureVectorizer", ml, "feature_vectorizer", xs, dt, variadic=True, inputdimensions=[c, 1])
    elif t == "reduce_int":
        dt2 = rng.choice(["i32", "i64", "f64", "f16", "u8" if False else "i32"])
        shape = rng.choice([[2, 3], [2, 2, 3], [4]])
        x = C(dt2, shape, [rng.choice([1, 2, 3, 4, 7, -5, -2]) for _ in range(int(np.prod(shape)))] if dt2[0] == "i" else None)
        fn = rng.choice(["reduce_mean", "reduce_sum", "reduce_l2", "reduce_l1", "reduce_prod", "reduce_max", "reduce_min", "reduce_sum_square",
                         "reduce_log_sum_exp" if dt2[0] == "f" else "reduce_mean", "reduce_log_sum" if dt2[0] == "f" else "reduce_l2"])
        kd = rng.choice([0, 1])
        if fn == "reduce_sum":
            ax = C("i64", [1], [rng.choice([0, -1])])
            OP("ReduceSum", "v17", fn, [x, ax], dt2, keepdims=kd)
        else:
            OP(fn, "v17", fn, [x], dt2, axes=rng.choice([None, [0], [-1]]), keepdims=kd)
    elif t == "mean_family":
        dt2 = rng.choice(["f16", "f64", "f32"])
        fn = rng.choice(["mean", "sum", "max", "min"])
        dt2 = rng.choice(["f16", "f64", "f32", "i32", "i64"]) if fn in ("max", "min") else dt2
        xs = [C(dt2, [2, 3]) for _ in range(rng.choice([2, 3]))]
        OP(fn, "v17", fn, xs, dt2, variadic=True)
    elif t == "arith_small":
        dt2 = rng.choice(["f16", "u8", "i8", "i16", "u16", "u32", "u64", "i32", "f64"])
        fn = rng.choice(["add", "sub", "mul", "div"])
        if dt2 in ("i8", "i16", "u16") :
            fn = "add" if False else fn
        a = C(dt2, [2, 3], [rng.randrange(1, 120) for _ in range(6)] if dt2[0] in "iu" else None)
        b = C(dt2, [2, 3], [rng.randrange(1, 7) for _ in range(6)] if dt2[0] in "iu" else [rng.choice([0.5, 2.0, 3.0, -1.5]) for _ in range(6)])
        OP(fn, "v17", fn, [a, b], dt2)
    elif t == "unary_float":
        dt2 = rng.choice(["f16", "f64", "f32"])
        fn = rng.choice(["sqrt", "exp", "log", "sigmoid", "tanh", "relu", "floor", "ceil", "round", "reciprocal", "softplus", "erf", "sign", "abs", "neg", "softsign"])
        x = C(dt2, [2, 3], [rng.choice([0.5, 1.5, 2.5, 3.0, 0.25, 7.75, 2.0, 4.5]) for _ in range(6)])
        OP(fn, "v17", fn, [x], dt2)
    elif t == "matmul_int":
        dt2 = rng.choice(["i32", "i64", "f64", "f16", "u32", "u64"])
        a = C(dt2, [2, 3], [rng.randrange(0, 6) for _ in range(6)] if dt2[0] in "iu" else None)
        b = C(dt2, [3, 2], [rng.randrange(0, 6) for _ in range(6)] if dt2[0] in "iu" else None)
        if rng.random() < 0.3 and dt2 in ("i32", "i64", "f64", "f16"):
            OP("Gemm", "v17", "gemm", [a, b], dt2, alpha=rng.choice([None, 1.0]) if dt2[0] == "i" else rng.choice([None, 0.5]))
        else:
            OP("MatMul", "v17", "matmul", [a, b], dt2)
    elif t == "cumsum_pow":
        which = rng.choice(["cumsum", "pow", "pow_mixed", "where", "clip"])
        if which == "cumsum":
            dt2 = rng.choice(["i32", "i64", "f64", "f32"])
            x = C(dt2, [2, 3])
            OP("CumSum", "v17", "cumsum", [x, C("i64", [], [rng.choice([0, 1, -1])])], dt2, exclusive=rng.choice([0, 1]), reverse=rng.choice([0, 1]))
        elif which == "pow":
            dt2 = rng.choice(["i32", "i64", "f64", "f32"])
            x = C(dt2, [2, 2], [rng.choice([1, 2, 3, 4]) for _ in range(4)] if dt2[0] == "i" else [rng.choice([0.5, 1.5, 2.0, 3.0]) for _ in range(4)])
            y = C(dt2, [2, 2], [rng.choice([0, 1, 2, 3]) for _ in range(4)] if dt2[0] == "i" else [rng.choice([0.5, 2.0, 3.0]) for _ in range(4)])
            OP("Pow", "v17", "pow", [x, y], dt2)
        elif which == "pow_mixed":
            bdt, edt = rng.choice([("i64", "f32"), ("i32", "f32"), ("f32", "i64"), ("f64", "i32"), ("i32", "i64")])
            x = C(bdt, [2, 2], [rng.choice([1, 2, 3, 4]) for _ in range(4)] if bdt[0] == "i" else [rng.choice([0.5, 1.5, 2.0, 3.0]) for _ in range(4)])
            y = C(edt, [2, 2], [rng.choice([1, 2, 3]) for _ in range(4)] if edt[0] == "i" else [rng.choice([0.5, 2.0, 1.5]) for _ in range(4)])
            OP("Pow", "v17", "pow", [x, y], bdt + "^" + edt)
        elif which == "where":
            dt2 = rng.choice(["i32", "f64", "f16", "u8", "str"])
            mk = (lambda: C("str", [2, 2], [rng.choice(["a", "bc", ""]) for _ in range(4)])) if dt2 == "str" else (lambda: C(dt2, [2, 2], [rng.randrange(0, 9) for _ in range(4)] if dt2[0] in "iu" else None))
            OP("Where", "v17", "where", [C("bool", [2, 2]), mk(), mk()], dt2)
        else:
            dt2 = rng.choice(["i32", "i64", "f64", "f16", "u8"])
            x = C(dt2, [2, 3], [rng.randrange(0, 9) for _ in range(6)] if dt2[0] in "iu" else None)
            lo = C(dt2, [], [1] if dt2[0] in "iu" else [0.5])
            hi = C(dt2, [], [5] if dt2[0] in "iu" else [2.5])
            OP("Clip", "v17", "clip", [x, lo, hi], dt2)
    elif t == "quantize":
        which = rng.choice(["q", "dq", "dynq", "mmi"])
        if which == "q":
            x = C("f32", [2, 3], [rng.choice([0.0, 1.0, 2.5, -3.5, 100.0, 0.5, 1.5, 300.0, -200.0]) for _ in range(6)])
            zdt = rng.choice(["u8", "i8"])
            OP("QuantizeLinear", "v17", "quantize_linear", [x, C("f32", [], [rng.choice([0.5, 1.0, 2.0])]), C(zdt, [], [rng.choice([0, 3])])], "f32")
        elif which == "dq":
            zdt = rng.choice(["u8", "i8", "i32"])
            x = C(zdt, [2, 3], [rng.randrange(0, 100) for _ in range(6)])
            args = [x, C("f32", [], [rng.choice([0.5, 0.1, 2.0])])]
            if zdt != "i32":
                args.append(C(zdt, [], [rng.choice([0, 3])]))
            OP("DequantizeLinear", "v17", "dequantize_linear", args, zdt)
        elif which == "dynq":
            x = C("f32", [2, 3])
            OP("DynamicQuantizeLinear", "v17", "dynamic_quantize_linear", [x], "f32", nout=3)
        else:
            a = C("u8", [2, 3], [rng.randrange(0, 200) for _ in range(6)])
            b = C(rng.choice(["u8", "i8"]), [3, 2], [rng.randrange(0, 100) for _ in range(6)])
            OP("MatMulInteger", "v17", "matmul_integer", [a, b], "u8")
    elif t == "pool_f64":
        dt2 = rng.choice(["f64", "f16", "f32"])
        x = C(dt2, [1, 1, 4, 4])
        fn = rng.choice(["global_average_pool", "global_max_pool", "average_pool", "lp_normalization_off", "mean_variance"])
        if fn == "average_pool":
            OP("AveragePool", "v17", "average_pool", [x], dt2, kernel_shape=[2, 2], strides=[2, 2])
        elif fn in ("global_average_pool", "global_max_pool"):
            OP(fn, "v17", fn, [x], dt2)
        else:
            OP("Softmax", "v17", rng.choice(["softmax", "log_softmax"]), [x], dt2, axis=rng.choice([-1, 1, 2]))
    elif t == "cast_chain":
        src, dst = rng.choice([("f64", "f32"), ("f32", "f16"), ("f64", "i32"), ("i64", "i32"), ("f32", "u8"), ("i64", "f16"), ("f16", "f64"),
                               ("i32", "f64"), ("bool", "f16"), ("u8", "i64"), ("f64", "i64"), ("i64", "bool")])
        x = C(src, [2, 3], [rng.choice([0.5, 1.5, 2.5, 3.99, 100.25, 7.0, 0.0]) for _ in range(6)] if src[0] == "f" else None)
        import numpy as _np  # noqa: F401

        OP("Cast", "v17", "cast", [x], src + ">" + dst, to={"f64": "float64", "f32": "float32", "f16": "float16", "i32": "int32", "i64": "int64",
                                                            "u8": "uint8", "bool": "bool"}[dst], np_kwargs=["to"])
    elif t == "random":
        # NON-DETERMINISTIC operators in constant expressions: input-less (RandomUniform / RandomNormal: "all inputs
        # have values" holds vacuously), *Like / Multinomial / Bernoulli on constants, Dropout in training mode.
        # The built model draws a fresh sample on every run: no value may be propagated, and no type derived from one.
        which = rng.choice(["random_uniform", "random_normal", "random_uniform_like", "random_normal_like", "multinomial", "bernoulli", "dropout_train"])
        seed = rng.choice([None, None, 1.0, 7.0])
        shp = rng.choice([[3], [2, 2], [4]])
        if which in ("random_uniform", "random_normal"):
            extra = {"low": 0.9, "high": 0.99} if which == "random_uniform" else {"mean": 5.0, "scale": 2.0}
            if rng.random() < 0.4:
                extra = {}
            OP(which, rng.choice(["v17", "v19", "v21"]), which, [], "none", shape=shp, seed=seed, dtype=rng.choice(["float32", "float64"]), np_kwargs=["dtype"], **extra)
        elif which in ("random_uniform_like", "random_normal_like"):
            OP(which, "v17", which, [C(rng.choice(["f32", "f64"]), shp)], "const", seed=seed)
        elif which == "multinomial":
            OP(which, "v17", which, [C("f32", [2, 3], [0.1, 0.5, 0.4, 0.3, 0.3, 0.4])], "const", sample_size=rng.choice([1, 3]), seed=seed)
        elif which == "bernoulli":
            OP(which, "v17", which, [C(rng.choice(["f32", "f64"]), shp, [rng.choice([0.2, 0.5, 0.8]) for _ in range(int(np.prod(shp)))])], "const", seed=seed)
        else:
            x = C("f32", shp, [rng.choice([1.0, 2.0, 4.0]) for _ in range(int(np.prod(shp)))])
            OP("dropout_train", "v17", "dropout", [x, C("f32", [], [0.5]), C("bool", [], [True])], "const", nout=2, seed=rng.choice([None, 3]))
        first = len(steps) - 1
        nvar = first + steps[-1]["nout"]
        # the sample flows on: scaled, cast to int64, used as a Reshape / Expand target
        ten = C("f32" if steps[first].get("kwargs", {}).get("dtype", "float32") == "float32" and which not in ("multinomial",) else "f32", [], [10.0])
        if which in ("random_uniform", "random_uniform_like") and len(shp) == 1 and steps[first]["kwargs"].get("dtype", "float32") == "float32" \
                and (which == "random_uniform" or steps[first - 1]["dt"] == "f32"):
            nvar += 1  # var index of `ten`
            steps.append({"op": "mul", "args": [first, nvar - 1]})
            steps.append({"op": "cast", "args": [nvar], "to": "i64"})
            steps.append({"op": "const", "how": "value", "dt": "i64", "shape": shp, "data": [1] * shp[0]})
            steps.append({"op": "add", "args": [nvar + 1, nvar + 2]})
            steps.append({"op": "const", "how": "value", "dt": "f32", "shape": [1], "data": [1.5]})
            steps.append({"op": "expand", "args": [nvar + 4, nvar + 3]})
        else:
            steps.append({"op": "identity", "args": [first]})
        return steps
    else:
        raise ValueError(t)
    nout = steps[-1]["nout"]
    first = len(steps) - 1  # var index of the operator's first output == number of const steps before it
    for j in range(nout):
        steps.append({"op": "identity", "args": [first + j]})
    steps.append({"op": "shape", "args": [first]})
    return steps
