"""Hidden state across calls: inference results memoised under a key that omits part of the call."""
import os, re, subprocess, sys
from pathlib import Path
REPO = Path(os.environ.get("SPOX_REPO", "/work/repo-c05"))
ROOT = Path(__file__).resolve().parent.parent
S = "src/spox/_standard.py"
def sh(cmd, **kw): return subprocess.run(cmd, shell=True, capture_output=True, text=True, **kw)
OLD = "    def infer_output_types_onnx(self) -> Dict[str, Type]:"
def memo(keyexpr):
    return ('''    _MEMO: Dict = {}

    def infer_output_types_onnx(self) -> Dict[str, Type]:
        key = %s
        if key not in StandardNode._MEMO:
            StandardNode._MEMO[key] = self._infer_output_types_onnx_uncached()
        return dict(StandardNode._MEMO[key])

    def _infer_output_types_onnx_uncached(self) -> Dict[str, Type]:''' % keyexpr)
BASE = "(type(self), tuple((k, id(v)) for k, v in self.inputs.get_vars().items())"
MUTS = {
 "memo keyed without the output count": memo(BASE + ", repr(sorted((k, repr(v.value) if v is not None else None) for k, v in self.attrs.get_fields().items() if not type(v).__name__ == 'AttrGraph')))"),
 "memo keyed without attributes": memo(BASE + ", len(self.outputs.get_vars()))"),
 "memo keyed by input types only (not Var identity, constants, attributes of kind ints)": memo("(type(self), tuple((k, str(v.type)) for k, v in self.inputs.get_vars().items()), len(self.outputs.get_vars()), repr(sorted((k, repr(v.value)) for k, v in self.attrs.get_fields().items() if v is not None and isinstance(v.value, (int, float, str)))))"),
}
for name, new in MUTS.items():
    if len(sys.argv) > 1 and not any(a in name for a in sys.argv[1:]): continue
    sh(f"git -C {REPO} checkout -- .")
    p = REPO / S; s = p.read_text(); assert s.count(OLD) == 1; p.write_text(s.replace(OLD, new))
    env = dict(os.environ, SPOX_REPO=str(REPO))
    t = sh(f"cd {REPO} && PYTHONPATH={REPO}/src /venv/bin/python -m pytest -q -p no:cacheprovider -x -q tests 2>&1 | grep -E 'passed|failed' | tail -1")
    r = sh(f"cd {ROOT} && ./check C05 quick", env=env)
    viol = re.findall(r"^VIOLATION property=C05 replay=(\S+)(.*)$", r.stdout, re.M)
    keys = re.findall(r"FAILURE (\S+):", r.stdout)
    hk = [k for k in keys if k.startswith("history")]
    rep_m = rep_c = None
    rp = None
    for v, _ in viol:
        if "history" in open(v).read()[:400]: rp = v; break
    rp = rp or (viol[0][0] if viol else None)
    if rp: rep_m = sh(f"cd {ROOT} && ./check C05 --replay {rp}", env=env).returncode
    sh(f"git -C {REPO} checkout -- .")
    if rp: rep_c = sh(f"cd {ROOT} && ./check C05 --replay {rp}", env=env).returncode
    print(name, "| suite:", t.stdout.strip()[:60], "| exit", r.returncode, "| violations", len(viol), "nofail" if "no-failing" in r.stdout else "", "| keys", keys[:5], "| replay", rp, rep_m, rep_c, flush=True)
    if r.returncode == 2: print(r.stdout[-1500:])
sh(f"git -C {REPO} checkout -- .")
