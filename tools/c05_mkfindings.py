"""Write findings/C05-*.json + findings.d/C05.json from the witness table (run once; files are committed)."""
import json, sys
from pathlib import Path
ROOT = Path(__file__).resolve().parent.parent
sys.path.insert(0, str(ROOT))
from harness import core
core.use_repo_on_path()
from harness import lib_c05 as L
from harness.props import c05

ML = "spox.opset.ai.onnx.ml.v3"
def call(mod, op, vars_, args, attrs=None, sub=None, out_count=None):
    c = {"module": mod, "op": op, "vars": [{"ty": t, "const": None} for t in vars_], "args": args,
         "attrs": attrs or {}, "out_count": out_count, "family": "witness"}
    if sub:
        c["sub"] = sub
    return c
T = lambda e, s: {"t": e, "s": s}
W = [
 ("ml.v3.ArrayFeatureExtractor", call(ML, "ArrayFeatureExtractor", [T(10, [4, 3]), T(7, [2])], [0, 1]), "known", None),
 ("ml.v3.Binarizer", call(ML, "Binarizer", [T(4, [])], [0]), "known", None),
 ("ml.v3.CategoryMapper", call(ML, "CategoryMapper", [T(7, None)], [0]), "known", None),
 ("ml.v3.Imputer", call(ML, "Imputer", [T(2, None)], [0]), "known", None),
 ("ml.v3.LinearRegressor", call(ML, "LinearRegressor", [T(12, [4])], [0]), "known", None),
 ("ml.v3.Normalizer", call(ML, "Normalizer", [T(9, ["M", 1, 4])], [0]), "known", None),
 ("ml.v3.OneHotEncoder", call(ML, "OneHotEncoder", [T(7, None)], [0]), "known", None),
 ("ml.v3.Scaler", call(ML, "Scaler", [T(2, [2, 2])], [0], {"scale": [1.0], "offset": [0.0]}), "known", None),
 ("ml.v3.TreeEnsembleClassifier", call(ML, "TreeEnsembleClassifier", [T(7, [3, 3])], [0],
    {"classlabels_int64s": [0, 2, 0], "nodes_hitrates": [1.0, 1.0],
     "nodes_hitrates_as_tensor": {"tensor": {"dtype": 1, "shape": [3], "data": [0.5, 0.0, 0.0]}}}), "known", None),
 ("ml.v3.TreeEnsembleRegressor", call(ML, "TreeEnsembleRegressor", [T(7, None)], [0],
    {"base_values": [0.5], "base_values_as_tensor": {"tensor": {"dtype": 1, "shape": [], "data": [0.0]}}}), "known", None),
 ("ml.v3.ZipMap", call(ML, "ZipMap", [T(1, None)], [0], {"classlabels_strings": ["a", "c", "c"]}), "known", None),
 ("ml.v3.TreeEnsembleClassifier", call(ML, "TreeEnsembleClassifier", [None], [0]), "known", None),
 ("ml.v3.TreeEnsembleClassifier", call(ML, "TreeEnsembleClassifier", [None], [0], {"classlabels_strings": ["a", "b"]}), "known", None),
 ("ml.v3.TreeEnsembleRegressor", call(ML, "TreeEnsembleRegressor", [None], [0]), "known", None),
 ("v17.BatchNormalization", call("spox.opset.ai.onnx.v17", "BatchNormalization",
    [T(1, [2, 3, 4, 4]), T(1, [3]), T(1, [3]), T(1, [3]), T(1, [3])], [0, 1, 2, 3, 4]), "known", None),
 ("v19.Loop", call("spox.opset.ai.onnx.v19", "Loop", [T(9, []), T(1, [2])], [None, 0, [1]],
    sub={"carried": ["same"], "scan": []}, out_count=1), "known", None),
 ("v19.Loop", call("spox.opset.ai.onnx.v19", "Loop", [T(9, [1]), T(1, [2])], [None, 0, [1]],
    sub={"carried": ["same"], "scan": []}, out_count=1), "known", None),
 ("v17.Loop", call("spox.opset.ai.onnx.v17", "Loop", [T(9, [1]), T(1, [2])], [None, 0, [1]],
    sub={"carried": ["same"], "scan": []}, out_count=1), "known", None),
 ("v17.Loop", call("spox.opset.ai.onnx.v17", "Loop", [None, T(1, [2])], [None, None, [0]],
    sub={"carried": [1], "scan": []}, out_count=1), "known", None),
 ("v17.Loop", call("spox.opset.ai.onnx.v17", "Loop", [None, T(1, [None, "K"])], [0, None, [1]],
    sub={"carried": ["same"], "scan": []}, out_count=1), "known", None),
 ("v17.Scan", call("spox.opset.ai.onnx.v17", "Scan", [T(6, []), None, T(6, [3, 2])], [[0, 1, 2]], {"num_scan_inputs": 2},
    sub={"n_state": 1, "scan_outs": [0]}, out_count=2), "known", None),
 ("v17.SequenceMap", call("spox.opset.ai.onnx.v17", "SequenceMap", [{"seq": T(1, [2, 4])}, None], [0, [1]],
    sub={"outs": [0]}, out_count=1), "known", None),
 ("v17.Scan", call("spox.opset.ai.onnx.v17", "Scan", [T(6, [5, 1, 2, 3])], [[0]], {"num_scan_inputs": 1, "scan_input_axes": [1]},
    sub={"n_state": 0, "scan_outs": [0]}, out_count=1), "known", None),
 ("v17.Scan", call("spox.opset.ai.onnx.v17", "Scan", [T(7, ["K", "N", "K"]), T(7, [3, "K", None, "K"])], [[0, 1]],
    {"num_scan_inputs": 1, "scan_input_axes": [2]}, sub={"n_state": 1, "scan_outs": [0]}, out_count=2), "known", None),
 ("v17.Compress", call("spox.opset.ai.onnx.v17", "Compress", [None, T(9, ["K"])], [0, 1]), "fixed: b88bbb9",
  "untyped-input-raises:Compress:TypeError"),
]
ops = {o.key: o for o in L.load_vocabulary()}
entries = []
for op_key, c, status, forced_key in W:
    k, what, info = c05.judge(ops[op_key], c)
    if status == "known":
        assert k is not None, (op_key, c)
    else:
        k = forced_key
        what = "fixed: property=C05 b88bbb9 Compress with an input of unknown type raised TypeError (unwrap_tensor on an untyped Var) instead of returning an untyped output"
    slug = k.replace(":", "-").replace("/", "-")
    rp = f"findings/C05-{slug}.json"
    doc = {"property": "C05", "kind": "input", "seed": 0, "key": k, "what": what,
           "case": {"op_key": op_key, "call": c}, "how_to_run": f"./check C05 --replay {rp}"}
    (ROOT / rp).write_text(json.dumps(doc, indent=1))
    entries.append({"property": "C05", "key": k, "status": status, "what": what[:300], "replay": rp})
    print(status, k)
(ROOT / "findings.d" / "C05.json").write_text(json.dumps({"findings": entries}, indent=1))
