"""C10 mutation table runner.

usage: SPOX_REPO=<scratch worktree of spox> tools/c10_mutants.py [name ...]     (default: all)
       SUITE=1 ... also reports whether the repo's own test-suite notices the mutant.

Each mutant is a textual edit of the scratch worktree (never committed, always undone with
`git checkout -- .`). For every mutant: run `./check C10 quick`, print exit code, VIOLATION lines, the first
BROKEN / FAILURE lines, then replay the first three replay files on the mutant (must fail) and on the clean
tree (must pass). Expected: exit 1 with concrete replays, except the mutants marked EQUIVALENT (exit 0).
"""
import os
import re
import subprocess
import sys
from pathlib import Path

VERIF = str(Path(__file__).resolve().parent.parent)
REPO = os.environ.get("SPOX_REPO", "/work/repo-c10")
assert REPO != "/repo", "never mutate /repo: point SPOX_REPO at a scratch worktree"
R = REPO + "/src/spox/"
OBLIGATION_ONLY = {"S1_new_attr_class", "S2_new_array_function", "S3_new_storing_init", "I7_lazy_tuple", "F4_deref_keeps_ref_name"}  # expected: exit 1, no-failing-input-found
EQUIVALENT = {"B21b_no_flatten", "M12_ravel_K", "M15_future_init_asarray", "M16_lazy_onnx_cache", "D2_raw_correct_large", "K0_arguments_visited_last"}
MUTS = {
 # Appendix B row 20
 "B20a_list_not_frozen": ("_attributes.py", "value=value if isinstance(value, _Ref) else tuple(value), name=name", "value=value, name=name"),
 "B20b_array_not_copied": ("_attributes.py", "        super().__init__(value.copy(), name)", "        super().__init__(value, name)"),
 # row 21
 "B21a_latin1": ("_utils.py", 'np.char.encode(arr, encoding="utf-8")', 'np.char.encode(arr, encoding="latin-1", errors="replace")'),
 "B21b_no_flatten": ("_utils.py", "        ).flatten(),", "        ),"),
 # own
 "M1_uint64_via_int64": ("_utils.py", "    return onnx.helper.make_tensor(", "    if arr.dtype == np.uint64:\n        t = onnx.helper.make_tensor(name=name or \"\", data_type=TensorProto.INT64, dims=arr.shape, vals=arr.astype(np.int64).flatten(), raw=False)\n        t.data_type = TensorProto.UINT64\n        return t\n    return onnx.helper.make_tensor("),
 "M2_bool_as_uint8": ("_utils.py", "    elif dtype == np.dtype(str):", "    elif dtype == np.dtype(bool):\n        return onnx.TensorProto.UINT8\n    elif dtype == np.dtype(str):"),
 "M3_0d_reshaped": ("_utils.py", "        dims=arr.shape,", "        dims=arr.shape or (1,),"),
 "M4_const_dtype_ignored": ("opset/ai/onnx/v17.py", "    return constant(value=np.array(value, dtype))", "    return constant(value=value if isinstance(value, np.ndarray) else np.array(value, dtype))"),
 "M5_float_double_rounding": ("_attributes.py", "        return make_attribute(self._name, self.value)\n\n\nclass AttrInt64", "        return make_attribute(self._name, float(np.float16(self.value)) if abs(self.value) < 6e4 else self.value)\n\n\nclass AttrInt64"),
 "M6_list_reversed": ("_attributes.py", "value=value if isinstance(value, _Ref) else tuple(value), name=name", "value=value if isinstance(value, _Ref) else tuple(reversed(list(value))), name=name"),
 "M7_asarray": ("_attributes.py", "        super().__init__(value.copy(), name)", "        super().__init__(np.asarray(value), name)"),
 "M8_variadic_not_frozen": ("_fields.py", "                value = tuple(value)\n", "                value = value if isinstance(value, list) else tuple(value)\n"),
 "M9_initializer_view": ("_graph.py", "        _Initializer.Attributes(value=AttrTensor(value=arr, name=\"dummy\")),", "        _Initializer.Attributes(value=(lambda a: (setattr(a, '_value', arr), a)[1])(AttrTensor(value=arr, name=\"dummy\"))),"),
 "M10_no_tensor_guard": ("_attributes.py", "        if not isinstance(value, (np.ndarray, np.generic, _Ref)):\n            raise TypeError(\n                f\"Unable to instantiate `{type(self).__name__}` with value of type `{type(value).__name__}`.\"\n            )\n", ""),
 "M11_bigendian_view": ("_utils.py", "    cast_to_bytes = False\n", "    cast_to_bytes = False\n    if arr.dtype.byteorder == '>':\n        arr = arr.view(arr.dtype.newbyteorder('='))\n"),
 "M12_ravel_K": ("_utils.py", "        ).flatten(),", "        ).flatten(order='K'),"),
 "M13_f16_as_value": ("_utils.py", "    return onnx.helper.make_tensor(", "    if arr.dtype == np.float16 and arr.size and np.isnan(arr).any():\n        arr = np.where(np.isnan(arr), np.float16('nan'), arr)\n    return onnx.helper.make_tensor("),
 "M14_int64s_via_array": ("_attributes.py", "class AttrInt64s(_AttrIterable[int]):\n    _attribute_proto_type = AttributeProto.INTS\n", "class AttrInt64s(_AttrIterable[int]):\n    _attribute_proto_type = AttributeProto.INTS\n\n    def _to_onnx_deref(self) -> AttributeProto:\n        return make_attribute(self._name, [int(np.float64(v)) if isinstance(v, int) else v for v in self.value], attr_type=self._attribute_proto_type)\n"),
 "M15_future_init_asarray": ("_future.py", "    return _initializer(np.array(value, dtype))", "    return _initializer(np.asarray(value, dtype))"),
 "M16_lazy_onnx_cache": ("_attributes.py", "        self._cached_onnx = None\n\n        self._validate()", "        self._cached_onnx = None\n\n        self._validate()\n        self._cached_onnx = None"),
 "M17_wrongkind_accept_float_for_int": ("_attributes.py", "class AttrInt64(Attr[int]):\n    _attribute_proto_type = AttributeProto.INT\n\n    def _to_onnx_deref(self) -> AttributeProto:\n        return make_attribute(self._name, self.value)", "class AttrInt64(Attr[int]):\n    _attribute_proto_type = AttributeProto.INT\n\n    def _to_onnx_deref(self) -> AttributeProto:\n        return make_attribute(self._name, int(self.value) if isinstance(self.value, float) else self.value)"),
 "N1_const_float32_default": ("opset/ai/onnx/v17.py", "    return constant(value=np.array(value, dtype))", "    return constant(value=np.array(value, np.float32 if dtype is None and isinstance(value, float) else dtype))"),
 "N2_value_ints_int32": ("opset/ai/onnx/v17.py", "            value = np.array(list(raw), dtype=np.int64).reshape(-1)", "            value = np.array(list(raw), dtype=np.int32).reshape(-1)"),
 "N3_future_init_uint64_as_int64": ("_future.py", "    return _initializer(np.array(value, dtype))", "    arr = np.array(value, dtype)\n    return _initializer(arr.astype(np.int64) if arr.dtype == np.uint64 else arr)"),
 "D1_raw_tobytes_large": ("_utils.py", "    cast_to_bytes = False\n", "    if arr.dtype.type not in [np.str_, np.object_] and arr.size >= 1024:\n        return onnx.helper.make_tensor(name=name or \"\", data_type=dtype_to_tensor_type(arr.dtype), dims=arr.shape, vals=arr.tobytes(), raw=True)\n    cast_to_bytes = False\n"),
 "D5_raw_tobytes_50000": ("_utils.py", "    cast_to_bytes = False\n", "    if arr.dtype.type not in [np.str_, np.object_] and arr.size >= 50000:\n        return onnx.helper.make_tensor(name=name or \"\", data_type=dtype_to_tensor_type(arr.dtype), dims=arr.shape, vals=arr.tobytes(), raw=True)\n    cast_to_bytes = False\n"),
 "D2_raw_correct_large": ("_utils.py", "    cast_to_bytes = False\n", "    if arr.dtype.type not in [np.str_, np.object_] and arr.size >= 1024:\n        le = arr.astype(arr.dtype.newbyteorder('<')) if arr.dtype.byteorder == '>' else arr\n        return onnx.helper.make_tensor(name=name or \"\", data_type=dtype_to_tensor_type(arr.dtype), dims=arr.shape, vals=le.tobytes(), raw=True)\n    cast_to_bytes = False\n"),
 "D3_bool_packed_large": ("_utils.py", "    cast_to_bytes = False\n", "    if arr.dtype == np.bool_ and arr.size >= 1024:\n        t = onnx.helper.make_tensor(name=name or \"\", data_type=TensorProto.BOOL, dims=arr.shape, vals=arr.flatten(), raw=False)\n        del t.int32_data[:]\n        t.int32_data.extend(np.packbits(arr.flatten()).astype(np.int32))\n        return t\n    cast_to_bytes = False\n"),
 "D4_str_latin1_large": ("_utils.py", 'np.char.encode(arr, encoding="utf-8") if cast_to_bytes else arr', 'np.char.encode(arr, encoding="utf-8" if arr.size < 1024 else "latin-1", errors="replace") if cast_to_bytes else arr'),
 "M18_no_copy_for_readonly": ("_attributes.py", "        super().__init__(value.copy(), name)", "        super().__init__(value if isinstance(value, np.ndarray) and not value.flags.writeable else value.copy(), name)"),
 # refactoring + bug: the harness must not crash (exit 2) and must still find the failing input
 "R1_rename_value_and_no_copy": [("SED", r"\b_value\b", "_val", ["_attributes.py"]), ("_attributes.py", "        super().__init__(value.copy(), name)", "        super().__init__(value, name)")],
 "R2_rename_from_array_and_latin1": [("SED", r"\bfrom_array\b", "to_tensor_proto", "ALL"), ("_utils.py", 'encoding="utf-8"', 'encoding="latin-1", errors="replace"')],
 # round 6: one-shot iterables on list attributes / ways of handing a value over
 "I1_iterable_prepass": ("_attributes.py", "    def __init__(self, value: Union[Iterable[S], _Ref[Tuple[S, ...]]], name: str):\n        super().__init__(", "    def __init__(self, value: Union[Iterable[S], _Ref[Tuple[S, ...]]], name: str):\n        if not isinstance(value, _Ref):\n            for v in value:\n                if isinstance(v, (list, tuple, dict)):\n                    raise TypeError(f\"Unable to instantiate `{type(self).__name__}` from nested items.\")\n        super().__init__("),
 "I2_iterable_first_probe": ("_attributes.py", "    def __init__(self, value: Union[Iterable[S], _Ref[Tuple[S, ...]]], name: str):\n        super().__init__(", "    def __init__(self, value: Union[Iterable[S], _Ref[Tuple[S, ...]]], name: str):\n        if not isinstance(value, _Ref) and isinstance(next(iter(value), None), dict):\n            raise TypeError(\"dict items\")\n        super().__init__("),
 "I3_ctor_prepass_kernel_shape": ("opset/ai/onnx/v17.py", "            kernel_shape=AttrInt64s(kernel_shape, name=\"kernel_shape\"),\n            pads=AttrInt64s.maybe(pads, name=\"pads\"),\n            storage_order", "            kernel_shape=AttrInt64s(kernel_shape if all(k > 0 for k in kernel_shape) else [], name=\"kernel_shape\"),\n            pads=AttrInt64s.maybe(pads, name=\"pads\"),\n            storage_order"),
 "I4_maybe_prepass": ("_attributes.py", "        return cls(value if isinstance(value, _Ref) else tuple(value), name)", "        if not isinstance(value, _Ref) and len(list(value)) < 0:\n            return None\n        return cls(value if isinstance(value, _Ref) else tuple(value), name)"),
 "F5_maybe_forgets_ref": ("_attributes.py", "        return cls(value if isinstance(value, _Ref) else tuple(value), name)", "        return cls(tuple(value), name)"),
 "I5_ml_ctor_sorted_once": ("opset/ai/onnx/ml/v3.py", "            coefficients=AttrFloat32s(coefficients, name=\"coefficients\"),\n            intercepts=AttrFloat32s.maybe(intercepts, name=\"intercepts\"),\n            multi_class", "            coefficients=AttrFloat32s(coefficients if isinstance(coefficients, (list, tuple)) else list(coefficients)[1:], name=\"coefficients\"),\n            intercepts=AttrFloat32s.maybe(intercepts, name=\"intercepts\"),\n            multi_class"),
 "I6_float_numpy_as_int": ("_attributes.py", "        if isinstance(self.value, int):\n            return make_attribute(self._name, float(self.value))", "        if isinstance(self.value, (int, np.number)):\n            return make_attribute(self._name, float(int(self.value)))"),
 "I7_lazy_tuple": ("_attributes.py", "value=value if isinstance(value, _Ref) else tuple(value), name=name", "value=value if isinstance(value, (_Ref, tuple, range)) else tuple(value) if not hasattr(value, 'keys') and not hasattr(value, 'mapping') else value, name=name"),
 "I8_set_sorted": ("_attributes.py", "value=value if isinstance(value, _Ref) else tuple(value), name=name", "value=value if isinstance(value, _Ref) else tuple(value) if isinstance(value, (list, tuple)) else tuple(sorted(value)), name=name"),
 # round 6b: argument defaults of rank 0; default-valued attributes on version-adapted nodes
 "A1_adapter_drops_default_attrs": ("_adapt.py", "    source_model = onnx.helper.make_model(", "    _sch = onnx.defs.get_schema(proto.op_type, source_version, \"\")\n    for _a in list(proto.attribute):\n        _d = _sch.attributes.get(_a.name)\n        if _d is not None and _d.default_value.type == _a.type and _d.default_value.type in (1, 2, 3) and (_d.default_value.i, _d.default_value.f, _d.default_value.s) == (_a.i, _a.f, _a.s):\n            proto.attribute.remove(_a)\n    source_model = onnx.helper.make_model("),
 "A2_argdefault_ascontiguous": ("_graph.py", "        elif isinstance(info, np.ndarray):\n            ty = Tensor(info.dtype, info.shape)", "        elif isinstance(info, np.ndarray):\n            info = np.ascontiguousarray(info)\n            ty = Tensor(info.dtype, info.shape)"),
 "A3_argdefault_type_atleast1d": ("_graph.py", "            ty = Tensor(info.dtype, info.shape)\n            result[name] = Argument(", "            ty = Tensor(info.dtype, info.shape or (1,))\n            result[name] = Argument("),
 "A4_adapter_drops_zero_ints": ("_adapt.py", "    source_model = onnx.helper.make_model(", "    for _a in list(proto.attribute):\n        if _a.type == 2 and _a.i == 0:\n            proto.attribute.remove(_a)\n    source_model = onnx.helper.make_model("),
 # round 6b: attribute references, the reverse dtype table, dtype spellings
 "F1_ref_names_swapped": ("_attributes.py", "            name=self._name, ref_attr_name=self._outer_name, type=parent_type", "            name=self._outer_name, ref_attr_name=self._name, type=parent_type"),
 "F2_string_reads_back_object": ("_utils.py", "    if ttype == onnx.TensorProto.STRING:\n        return np.dtype(str)  # Spox uses the str datatype for strings, not object\n", ""),
 "F3_no_alias_normalisation": ("_utils.py", "        dtype = np.dtype(np.dtype(dtype_like).type)", "        dtype = np.dtype(dtype_like)"),
 "F4_deref_keeps_ref_name": ("_attributes.py", "            return type(self)(self.value, self._name)", "            return type(self)(self.value, self._value._name)"),
 "T1_type_attr_drops_shape": ("_attributes.py", "                dtype_to_tensor_type(value.dtype),\n                value.shape,", "                dtype_to_tensor_type(value.dtype),\n                value.shape if value.shape else None,"),
 "T2_type_attr_seq_of_seq": ("_attributes.py", "            type_proto = make_sequence_type_proto(value.elem_type._to_onnx())", "            type_proto = make_optional_type_proto(value.elem_type._to_onnx())"),
 # round 8: the caller's list kept by reference for variadic inputs (the class C01 closed; C10's last clause owns it)
 "V1_variadic_list_by_reference": ("_fields.py", "                value = tuple(value)\n                setattr(self, field.name, value)", "                value = value if isinstance(value, list) else tuple(value)\n                setattr(self, field.name, value)"),
 "V2_variadic_no_tuple_at_all": ("_fields.py", "                value = tuple(value)\n                setattr(self, field.name, value)", "                value = value if hasattr(value, '__len__') else tuple(value)"),
 # round 10: the initializer table (dict by Var -> dict by name -> from_array(arr, name))
 "K1_equal_initializers_shared": ("_graph.py", "        initializer_tensors = [\n            from_array(arr, name)\n            for name, arr in self._get_initializers_by_name().items()\n        ]\n",
   "        _seen: list = []\n        initializer_tensors = []\n        for name, arr in self._get_initializers_by_name().items():\n            if any(a.dtype == arr.dtype and a.shape == arr.shape and a.tobytes() == arr.tobytes() for a in _seen):\n                continue  # 'share' equal constants\n            _seen.append(arr)\n            initializer_tensors.append(from_array(arr, name))\n"),
 "K2_names_sorted_values_not": ("_graph.py", "            for name, arr in self._get_initializers_by_name().items()\n        ]\n",
   "            for name, arr in zip(sorted(self._get_initializers_by_name()), self._get_initializers_by_name().values())\n        ]\n"),
 "K0_arguments_visited_last": [("_build.py", "        for arg in self.arguments_of[graph]:\n            node = arg._op\n            node.update_metadata(opset_req, initializers, functions)\n", "        for arg in self.arguments_of[graph]:\n            node = arg._op\n"),
   ("_build.py", "        opset_req |= subgraph_opset_req\n", "        for arg in self.arguments_of[graph]:\n            arg._op.update_metadata(opset_req, initializers, functions)\n        opset_req |= subgraph_opset_req\n")],
 # new capture sites without a row: generated_capture_complete / generated_classes_complete must break
 "S1_new_attr_class": ("APPEND", "_attributes.py", "\n\nclass AttrInt64Matrix(Attr[list]):\n    _attribute_proto_type = AttributeProto.INTS\n\n    def _to_onnx_deref(self) -> AttributeProto:\n        return make_attribute(self._name, [x for r in self.value for x in r], attr_type=AttributeProto.INTS)\n"),
 "S2_new_array_function": ("APPEND", "_graph.py", "\n\ndef initializers(arrs: List[np.ndarray]) -> Tuple[Var, ...]:\n    return tuple(initializer(a) for a in arrs)\n"),
 "S3_new_storing_init": ("APPEND", "_fields.py", "\n\nclass Bundle:\n    def __init__(self, items: Sequence[Var]):\n        self.items = items\n"),
}
def sh(cmd, **kw):
    return subprocess.run(cmd, shell=True, capture_output=True, text=True, **kw)
def apply(name):
    spec = MUTS[name]
    edits = spec if isinstance(spec, list) else [spec]
    for e in edits:
        if e[0] == "SED":  # ("SED", regex, replacement, [files]) - a rename across files
            _, rx, rep, files = e
            if files == "ALL":
                files = [str(q.relative_to(R)) for q in Path(R).rglob("*.py") if re.search(rx, q.read_text())]
            for f in files:
                p = R + f
                text = open(p).read()
                open(p, "w").write(re.sub(rx, rep, text))
            continue
        if e[0] == "APPEND":  # ("APPEND", file, text)
            p = R + e[1]
            open(p, "a").write(e[2])
            continue
        f, old, new = e
        p = R + f
        s = open(p).read()
        assert s.count(old) >= 1, f"pattern not found for {name} in {f}"
        open(p, "w").write(s.replace(old, new, 1))


def run(name):
    try:
        apply(name)
    except BaseException:
        sh(f"git -C {REPO} checkout -- .")
        raise
    env = dict(os.environ, SPOX_REPO=REPO, VERIF_SEED=os.environ.get("VERIF_SEED", "0"))
    try:
        r = sh(f"cd {VERIF} && ./check C10 quick", env=env)
        out = r.stdout + r.stderr
        viol = re.findall(r"VIOLATION property=C10 replay=(\S+)( no-failing-input-found)?", out)
        broken = re.findall(r"BROKEN (\w+): ([^\n]{0,110})", out)
        fails = re.findall(r"FAILURE ([^\n]{0,150})", out)
        concrete = any(not nf for _, nf in viol)
        want = "exit 0" if name in EQUIVALENT else ("exit 1 (obligation)" if name in OBLIGATION_ONLY else "exit 1 + concrete replay")
        got_ok = (r.returncode == 0) if name in EQUIVALENT else (r.returncode == 1 and (concrete or name in OBLIGATION_ONLY))
        print(f"== {name}: exit {r.returncode}; {len(viol)} VIOLATION lines; broken={len(broken)} failures={len(fails)}; expected {want}: {'OK' if got_ok else 'UNEXPECTED'}")
        for b in broken[:3]: print("   BROKEN", b)
        for x in fails[:4]: print("   FAILURE", x)
        if r.returncode == 2: print(out[-1500:])
        rep_mut = []
        for path, nf in viol[:3]:
            if nf: rep_mut.append("n/a(obligation)"); continue
            rr = sh(f"cd {VERIF} && ./check C10 --replay {path}", env=env)
            rep_mut.append(rr.returncode)
    finally:
        sh(f"git -C {REPO} checkout -- .")
    rep_clean = []
    for path, nf in viol[:3]:
        if nf: rep_clean.append("n/a"); continue
        rr = sh(f"cd {VERIF} && ./check C10 --replay {path}", env=env)
        rep_clean.append(rr.returncode)
    print(f"   replay on mutant: {rep_mut}  on clean: {rep_clean}")
    # does the repo's own suite notice?
    if os.environ.get("SUITE", "0") not in ("", "0"):
        apply(name)
        try:
            t = sh(f"cd {REPO} && PYTHONPATH={REPO}/src /venv/bin/python -m pytest -q -p no:cacheprovider -x tests >/dev/null 2>&1")
            print("   suite:", "passes" if t.returncode == 0 else "FAILS")
        finally:
            sh(f"git -C {REPO} checkout -- .")
if __name__ == "__main__":
    names = sys.argv[1:] or list(MUTS)
    for n in names: run(n)
    # the last ./check ran on a mutant: Generated/*.lean and evidence/C10.json are the mutant's. Restore them from the
    # clean tree so that nothing mutated can be committed by accident.
    r = sh(f"cd {VERIF} && ./check C10 quick", env=dict(os.environ, SPOX_REPO=REPO, VERIF_SEED="0"))
    print(f"== clean tree after the table: exit {r.returncode} (Generated and evidence restored)")
