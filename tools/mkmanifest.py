#!/usr/bin/env python3
"""Assemble /verif/MANIFEST.json from manifest.d/Cxx.json (one file per claimed property)."""
import json
import subprocess
from pathlib import Path

V = Path(__file__).resolve().parent.parent
ids = [json.loads(l)["id"] for l in (V / "properties.jsonl").read_text().splitlines() if l.strip()]
checks, na = [], []
for pid in ids:
    f = V / "manifest.d" / f"{pid}.json"
    if f.exists():
        d = json.loads(f.read_text())
        if "not_applicable" in d:
            na.append({"property_id": pid, "reason": d["not_applicable"]})
            continue
        c = {
            "property_id": pid,
            "quick_cmd": f"./check {pid} quick",
            "thorough_cmd": f"./check {pid} thorough",
            "evidence_file": f"evidence/{pid}.json",
            "replay_cmd_template": f"./check {pid} --replay {{path}}",
            "engine": "lean-spoxmodel",
            "level_claimed": {"category": "proof", "text": d["level_text"], "design_ref": d.get("design_ref", f"DESIGN.md §3 {pid}")},
            "level_note": d["level_note"],
            "technique": d["technique"],
        }
        checks.append(c)
    elif (V / "manifest.d" / f"{pid}.json.pending").exists():
        na.append({"property_id": pid, "reason": "check built (model, theorems, harness are in the tree) but currently being re-tied to the latest accepted fix: commits in /repo; not claimed until it is quiet on the unchanged tree again (see DESIGN.md status)"})
    else:
        na.append({"property_id": pid, "reason": "no check registered yet: the Lean model and its tie to the code for this property are not built in this state of /verif (see DESIGN.md status table)"})
fix_commits = subprocess.run(["git", "-C", "/repo", "log", "--format=%h %s", "76a2470..HEAD"], capture_output=True, text=True).stdout.splitlines()
man = {
    "version": 1,
    "setup_cmd": "./setup.sh",
    "hooks": {
        "guard": "QUANTCO_SPOX_VERIF",
        "enable": "no hooks: nothing in /repo is instrumented; the harness observes spox from outside (in-process imports from /repo/src), so there is nothing to enable",
        "baseline_off_cmd": "cd /repo && /venv/bin/python -m pytest -ra -q -p no:cacheprovider --timeout=900 --continue-on-collection-errors",
        "source_commits": [],
        "add_only": True,
    },
    "engines": [
        {
            "name": "lean-spoxmodel",
            "path": "lean/",
            "serves_properties": [c["property_id"] for c in checks],
            "kind_free_text": "Lean 4 library SpoxModel (models, generated tables, theorems, axiom audit) + native line-protocol driver `spoxmodel`; Python translator (translator/) and correspondence/oracle harness (harness/) run by ./check",
        }
    ],
    "checks": checks,
    "not_applicable": na,
    "notes": "All checks: ./check <id> <quick|thorough>; exit 0 held / 1 violation / 2 infrastructure. Unguarded fix: commits in /repo (genuine defects, see known_findings.json): " + "; ".join(fix_commits),
}
(V / "MANIFEST.json").write_text(json.dumps(man, indent=1) + "\n")
allf = []
for p in sorted((V / "findings.d").glob("*.json")):
    allf.extend(json.loads(p.read_text()).get("findings", []))
(V / "known_findings.json").write_text(json.dumps({"_comment": "generated union of findings.d/*.json by tools/mkmanifest.py; status 'known' entries are matched by (property,key) and printed as KNOWN-FINDING; 'fixed: <commit>' entries suppress nothing", "findings": allf}, indent=1) + "\n")
print(f"{len(checks)} checks, {len(na)} not_applicable")
