#!/usr/bin/env python3
"""After cherry-picking agents' fix: commits into /repo main, rewrite `fixed: <scratch sha>` in findings.d/*.json
to the sha of the commit with the same subject on /repo main."""
import json, re, subprocess
from pathlib import Path
V = Path(__file__).resolve().parent.parent
def git(*a): return subprocess.run(["git", "-C", "/repo", *a], capture_output=True, text=True).stdout
main = {l.split(" ", 1)[1]: l.split(" ", 1)[0] for l in git("log", "--format=%h %s", "76a2470..main").splitlines()}
for p in sorted((V / "findings.d").glob("*.json")):
    d = json.loads(p.read_text()); ch = False
    for f in d.get("findings", []):
        m = re.match(r"fixed:\s*([0-9a-f]{6,40})", f.get("status", ""))
        if not m: continue
        sha = m.group(1)
        subj = git("log", "-1", "--format=%s", sha).strip()
        if not subj: print(p.name, f["key"], "unknown sha", sha); continue
        new = main.get(subj)
        if not new: print(p.name, f["key"], "NOT ON MAIN:", subj); continue
        if not new.startswith(sha[:7]) and not sha.startswith(new):
            f["status"] = f["status"].replace(sha, new); ch = True
    if ch: p.write_text(json.dumps(d, indent=1) + "\n"); print("updated", p.name)
