#!/usr/bin/env python3
"""Apply hand-written mutations of spox (one at a time) to the scratch repo, run the C03/C12 checks,
replay the reported file on the mutant and on the clean tree, and print a table.

usage: SPOX_REPO=/work/repo-c03c12 tools/mutants_c03c12.py [name ...]
Mutations are never committed; the working tree is restored with `git checkout -- .` after each.
"""
import os
import re
import subprocess
import sys
from pathlib import Path

V = Path(__file__).resolve().parent.parent
REPO = Path(os.environ["SPOX_REPO"])
assert REPO != Path("/repo")

# name: (checks, [(file, old, new)])
M = {
    "B7-inputs-from-set": (["C03", "C12"], [("src/spox/_public.py",
        "graph = graph.with_arguments(*inputs.values())",
        "graph = graph.with_arguments(*set(inputs.values()))")]),
    "B7b-inputs-sorted-by-name": (["C03"], [("src/spox/_public.py",
        "graph = graph.with_arguments(*inputs.values())",
        "graph = graph.with_arguments(*(inputs[k] for k in sorted(inputs)))")]),
    "outputs-sorted": (["C03"], [("src/spox/_public.py",
        "graph = results(**outputs)",
        "graph = results(**dict(sorted(outputs.items())))")]),
    "input-type-from-wrong-var": (["C03"], [("src/spox/_graph.py",
        """            for name, var in self.get_arguments().items()
        ]""",
        """            for name, var in zip(self.get_arguments(), [*self.get_arguments().values()][1:] + [*self.get_arguments().values()][:1])
        ]""")]),
    "keyerror-check-dropped": (["C03"], [("src/spox/_public.py",
        "if any(inp.name not in inputs for inp in model_proto.graph.input):",
        "if False and any(inp.name not in inputs for inp in model_proto.graph.input):")]),
    "fix-a-reverted": (["C03", "C12"], [("src/spox/_public.py",
        "    if drop_unused_inputs:\n        # The used",
        "    if False and drop_unused_inputs:\n        # The used")]),
    "nested-args-not-collected": (["C03"], [("src/spox/_build.py",
        "                all_arguments |= all_arguments_sub\n",
        "                pass\n")]),
    "argument-check-dropped": (["C03"], [("src/spox/_public.py",
        "if not all(isinstance(var._op, Argument) for var in inputs.values()):",
        "if False:")]),
    "drop-keeps-first-input": (["C03"], [("src/spox/_public.py",
        "ordered = [used[name] for name in inputs if name in used]",
        "ordered = [used[name] for name in sorted(inputs, key=lambda n: n not in used) if name in used]"
        )]),
    "dropped-order-by-name": (["C03"], [("src/spox/_public.py",
        "ordered = [used[name] for name in inputs if name in used]",
        "ordered = [used[name] for name in sorted(inputs) if name in used]")]),
    "symbolic-dims-stripped-when-many-inputs": (["C03"], [("src/spox/_public.py",
        "    return model_proto\n",
        "    if len(model_proto.graph.input) > 3:\n        for _i in model_proto.graph.input:\n            for _d in _i.type.tensor_type.shape.dim:\n                _d.ClearField('dim_param')\n    return model_proto\n")]),
    "zero-dim-treated-as-unknown": (["C03"], [("src/spox/_shape.py",
        "        if isinstance(value, int):\n            return Constant(value)\n        elif isinstance(value, str):\n            return Unknown(value)\n        elif value is None:",
        "        if isinstance(value, int) and value:\n            return Constant(value)\n        elif isinstance(value, str):\n            return Unknown(value)\n        elif not value:")]),
    "repeated-output-var-named-once": (["C03"], [("src/spox/_build.py",
        "        for key, var in zip(request_results, vars):\n            if set_names:\n                var._rename(key)",
        "        by_var = dict(zip(request_results.values(), vars))\n        for key, req in request_results.items():\n            if set_names:\n                by_var[req]._rename(key)")]),
    "results-gains-prefix-parameter": (["C03"], [("src/spox/_graph.py",
        "def results(**kwargs: Var) -> Graph:",
        "def results(*vars: Var, prefix=\"out\", **kwargs: Var) -> Graph:"),
        ("src/spox/_graph.py", "    return Graph(kwargs)\n", "    return Graph({**{f\"{prefix}{i}\": v for i, v in enumerate(vars)}, **kwargs})\n")]),
    # ---- C12
    # ---- refactorings of internals the harness looks at, combined with a real fault
    "refactor-manager-renamed-no-finally": (["C12"], [
        ("src/spox/_public.py", "def _temporary_renames(**kwargs: Var):", "def _with_input_names(**kwargs: Var):"),
        ("src/spox/_public.py", "    with _temporary_renames(**inputs):", "    with _with_input_names(**inputs):"),
        ("src/spox/_public.py", "        yield\n    finally:\n        for arg, name in pre.items():", "        yield\n    except KeyError:\n        raise\n    else:\n        for arg, name in pre.items():")]),
    "refactor-rename-method-inlined-no-finally": (["C12", "C03"], [
        ("src/spox/_public.py", "            pre.setdefault(arg, arg._name)\n            arg._rename(name)", "            pre.setdefault(arg, arg._name)\n            arg._name = name"),
        ("src/spox/_public.py", "        yield\n    finally:\n        for arg, name in pre.items():\n            arg._rename(name)", "        yield\n    except KeyError:\n        raise\n    else:\n        for arg, name in pre.items():\n            arg._name = name"),
        ("src/spox/_var.py", "    def _rename(self, name: Optional[str]):", "    def _set_name(self, name: Optional[str]):"),
        ("src/spox/_build.py", "                var._rename(key)", "                var._set_name(key)"),
        ("src/spox/_graph.py", "        var._rename(None)", "        var._set_name(None)"),
        ("src/spox/_internal_op.py", "            self.outputs.arg._rename(self.attrs.name.value)", "            self.outputs.arg._set_name(self.attrs.name.value)")]),
    "build-prunes-callers-dict": (["C12"], [("src/spox/_public.py",
        "        del model_proto.graph.input[:]\n",
        "        for _n in [n for n in inputs if n not in used]:\n            del inputs[_n]\n        del model_proto.graph.input[:]\n")]),
    "adapt-inline-keeps-converted-model": (["C12"], [("src/spox/_adapt.py",
        "        finally:\n            node.model = base_model\n", "        finally:\n            pass\n")]),
    "opset-import-order-from-set": (["C12"], [("src/spox/_schemas.py",
        "    grouping = itertools.groupby(sorted(opset_req), key=lambda x: x[0])\n    return {domain: max(v for _, v in group) for domain, group in grouping}",
        "    out: Dict[str, int] = {}\n    for domain, v in opset_req:\n        out[domain] = max(v, out.get(domain, 0))\n    return out")]),
    "function-order-by-address": (["C12"], [("src/spox/_graph.py",
        "            functions=list(function_protos.values()),",
        "            functions=sorted(function_protos.values(), key=id),")]),
    "sequence-input-elem-dims-dropped": (["C03"], [("src/spox/_public.py",
        "    return model_proto\n",
        "    for _i in model_proto.graph.input:\n        if _i.type.HasField('sequence_type'):\n            _i.type.sequence_type.elem_type.tensor_type.ClearField('shape')\n    return model_proto\n")]),
    "fix-c-reverted-with-arguments-shares-cache": (["C12"], [("src/spox/_graph.py",
        "        return replace(self, _arguments=args, _build_result=_build.Cached())",
        "        return replace(self, _arguments=args)")]),
    "with-opset-resets-nothing-but-builder-reads-name": (["C12"], [("src/spox/_build.py",
        "        if not graph.requested_results:",
        "        if not graph.requested_results or graph._name == '?':")]),
    "inline-writes-type-on-untyped-argument": (["C12"], [("src/spox/_inline.py",
        "        for i, var in zip(self.graph.input, self.inputs.inputs):\n            if var.type is not None and not (",
        "        for i, var in zip(self.graph.input, self.inputs.inputs):\n            if var.type is None:\n                var.type = Type._from_onnx(i.type)\n            if var.type is not None and not (")]),
    "inline-memoises-prepared-model-by-id": (["C12"], [("src/spox/_public.py",
        "    model = _copy_model(model)\n",
        "    _orig = model\n    _hit = _PREPARED.get(id(_orig))\n    if _hit is not None and _hit[0] is _orig and _hit[1] == _orig.ByteSize():\n        model = _copy_model(_hit[2])\n    else:\n        model = _copy_model(_orig)\n        _PREPARED[id(_orig)] = (_orig, _orig.ByteSize(), _copy_model(_orig))\n"),
        ("src/spox/_public.py", "def _copy_model(", "_PREPARED: Dict = {}\n\n\ndef _copy_model(")]),
    "empty-name-rejected-and-setup-before-try": (["C12", "C03"], [("src/spox/_var.py",
        "        self._name = name\n",
        "        if name == \"\":\n            raise ValueError(\"Var names must not be empty.\")\n        self._name = name\n"),
        ("src/spox/_public.py",
        "    try:\n        for name, arg in kwargs.items():\n            # Only the first occurrence holds the original name (a Var may be passed under several keys)\n            pre.setdefault(arg, arg._name)\n            arg._rename(name)\n        yield\n",
        "    for name, arg in kwargs.items():\n        # Only the first occurrence holds the original name (a Var may be passed under several keys)\n        pre.setdefault(arg, arg._name)\n        arg._rename(name)\n    try:\n        yield\n")]),
    "builder-opset-req-class-level-set": (["C12"], [("src/spox/_build.py",
        "        self.model_opset_req = set(self.main._extra_opset_req or ()).union(\n            *(node.opset_req for graph in self.graphs for node in self.scope_own[graph])\n        )",
        "        self.model_opset_req |= set(self.main._extra_opset_req or ()).union(\n            *(node.opset_req for graph in self.graphs for node in self.scope_own[graph])\n        )"),
        ("src/spox/_build.py", "    # Graphs needed in the build\n", "    model_opset_req: Set[Tuple[str, int]] = set()\n    # Graphs needed in the build\n")]),
    "renames-restore-to-none": (["C12"], [("src/spox/_public.py",
        "        for arg, name in pre.items():\n            arg._rename(name)",
        "        for arg, name in pre.items():\n            arg._rename(None)")]),
    "B8-renames-no-finally": (["C12", "C03"], [("src/spox/_public.py",
        """    try:
        for name, arg in kwargs.items():
            # Only the first occurrence holds the original name (a Var may be passed under several keys)
            pre.setdefault(arg, arg._name)
            arg._rename(name)
        yield
    finally:
        for arg, name in pre.items():
            arg._rename(name)
""",
        """    for name, arg in kwargs.items():
        # Only the first occurrence holds the original name (a Var may be passed under several keys)
        pre.setdefault(arg, arg._name)
        arg._rename(name)
    yield
    for arg, name in pre.items():
        arg._rename(name)
""")]),
    "renames-restore-in-else-only": (["C12", "C03"], [("src/spox/_public.py",
        """        yield
    finally:
        for arg, name in pre.items():
            arg._rename(name)
""",
        """        yield
    except KeyError:
        raise
    else:
        for arg, name in pre.items():
            arg._rename(name)
""")]),
    "fix-b-reverted": (["C12"], [("src/spox/_public.py",
        "pre.setdefault(arg, arg._name)", "pre[arg] = arg._name")]),
    "B9-copy-model-dropped": (["C12"], [("src/spox/_public.py",
        "    model = _copy_model(model)\n", "")]),
    "inline-renames-graph-in-place": (["C12"], [("src/spox/_public.py",
        "    in_names = [i.name for i in model.graph.input]\n",
        "    model.graph.name = model.graph.name.replace(' ', '_')\n    in_names = [i.name for i in model.graph.input]\n")]),
    "inline-strips-dims-before-copy": (["C12"], [("src/spox/_public.py",
        "    model = _copy_model(model)\n", "    original, model = model, _copy_model(model)\n"),
        ("src/spox/_public.py",
        "    for info in itertools.chain(\n        model.graph.input, model.graph.output, model.graph.value_info\n    ):",
        "    for info in itertools.chain(\n        original.graph.input, model.graph.input, model.graph.output, model.graph.value_info\n    ):")]),
    "id-keyed-build-cache": (["C12", "C03"], [("src/spox/_public.py",
        "    with _temporary_renames(**inputs):\n        graph = results(**outputs)",
        "    _key = (tuple(inputs), tuple(id(v) for v in outputs.values()), tuple(outputs), drop_unused_inputs)\n"
        "    if _key in _BUILD_CACHE:\n        return _copy_model(_BUILD_CACHE[_key])\n"
        "    with _temporary_renames(**inputs):\n        graph = results(**outputs)"),
        ("src/spox/_public.py", "    return model_proto\n", "    _BUILD_CACHE[_key] = model_proto\n    return _copy_model(model_proto)\n"),
        ("src/spox/_public.py", "def _copy_model(", "_BUILD_CACHE: Dict = {}\n\n\ndef _copy_model(")]),
    "name-counters-global": (["C12"], [("src/spox/_scope.py",
        "            parent.base_name_counters if parent is not None else dict()",
        "            parent.base_name_counters if parent is not None else _COUNTERS"),
        ("src/spox/_scope.py", "class ScopeError(Exception):", "_COUNTERS: Dict[str, int] = {}\n\n\nclass ScopeError(Exception):")]),
    "intro-renames-requested-var": (["C12"], [("src/spox/_build.py",
        "        for key, var in zip(request_results, vars):\n            if set_names:\n                var._rename(key)",
        "        for key, var, req in zip(request_results, vars, request_results.values()):\n            if set_names:\n                var._rename(key)\n                if req._name is None and not isinstance(req._op, Argument):\n                    req._rename(key + '_src')")]),
    "shared-build-result-cache": (["C12", "C03"], [("src/spox/_graph.py",
        "        default_factory=_build.Cached\n",
        "        default_factory=lambda _c=_build.Cached(): _c\n")]),
    # ---- round 6: inputs read only as control-flow operands / only deep inside bodies
    "cf-operand-arguments-not-discovered": (["C03"], [("src/spox/_build.py",
        """            [self.source_of[graph]],
            lambda nd: (a._op for a in nd.dependencies),
            collect_arguments,""",
        """            [self.source_of[graph]],
            lambda nd: (a._op for a in nd.dependencies if not (nd.subgraphs and isinstance(a._op, Argument))),
            collect_arguments,""")]),
    "drop-keeps-only-inputs-read-at-depth-le-1": (["C03"], [("src/spox/_public.py",
        "        used = {info.name: info for info in model_proto.graph.input}\n",
        "        _seen = {n for nd in model_proto.graph.node for n in nd.input} | {n for nd in model_proto.graph.node for a in nd.attribute if a.HasField('g') for sn in a.g.node for n in sn.input} | {o.name for o in model_proto.graph.output}\n"
        "        used = {info.name: info for info in model_proto.graph.input if info.name in _seen}\n")]),
    "scan-inputs-not-followed": (["C03"], [("src/spox/_build.py",
        """            [self.source_of[graph]],
            lambda nd: (a._op for a in nd.dependencies),
            collect_arguments,""",
        """            [self.source_of[graph]],
            lambda nd: (a._op for a in (list(nd.dependencies)[:1] if nd.op_type.identifier == "Scan" else nd.dependencies)),
            collect_arguments,""")]),
    # ---- round 6 (C12): remnants of an earlier build of the same objects under other names / companions
    "inline-node-caches-its-protos": (["C12"], [("src/spox/_inline.py",
        """        inner_renames: Dict[str, str] = {}
        inner_node_renames: Dict[str, str] = {}
""",
        """        _key = (scope.node[self], tuple(sorted((i.domain, i.version) for i in self.model.opset_import)))
        _cache = self.__dict__.setdefault("_to_onnx_cache", {})
        if _key in _cache:
            return [onnx.NodeProto.FromString(b) for b in _cache[_key]]
        inner_renames: Dict[str, str] = {}
        inner_node_renames: Dict[str, str] = {}
"""), ("src/spox/_inline.py",
        """                    )
                )
        return nodes
""",
        """                    )
                )
        _cache[_key] = [n.SerializeToString() for n in nodes]
        return nodes
""")]),
    "inline-weakkey-cache-by-node-name-opsets": (["C12"], [("src/spox/_inline.py",
        """class _Inline(_InternalNode):
""",
        """import weakref

_INLINE_PROTOS = weakref.WeakKeyDictionary()


class _Inline(_InternalNode):
"""), ("src/spox/_inline.py",
        """        inner_renames: Dict[str, str] = {}
        inner_node_renames: Dict[str, str] = {}
""",
        """        _key = (scope.node[self], tuple(sorted((i.domain, i.version) for i in self.model.opset_import)))
        _cache = _INLINE_PROTOS.setdefault(self, {})
        if _key in _cache:
            return [onnx.NodeProto.FromString(b) for b in _cache[_key]]
        inner_renames: Dict[str, str] = {}
        inner_node_renames: Dict[str, str] = {}
"""), ("src/spox/_inline.py",
        """                    )
                )
        return nodes
""",
        """                    )
                )
        _cache[_key] = [n.SerializeToString() for n in nodes]
        return nodes
""")]),
    "node-proto-cached-on-node": (["C12", "C03"], [("src/spox/_node.py",
        """        assert self.op_type.identifier
        input_names = [""",
        """        assert self.op_type.identifier
        if not list(self.subgraphs) and getattr(self, "_proto_cache", None) is not None and self._proto_cache[0] == scope.node[self]:
            return [onnx.NodeProto.FromString(self._proto_cache[1])]
        input_names = ["""), ("src/spox/_node.py",
        """                node_proto.attribute.append(attr_proto)

        return [node_proto]""",
        """                node_proto.attribute.append(attr_proto)

        if not list(self.subgraphs):
            self.__dict__["_proto_cache"] = (scope.node[self], node_proto.SerializeToString())
        return [node_proto]""")]),
    # ---- round 6: the statements of build itself (order of the checks, option handling)
    "empty-outputs-check-first": (["C03"], [("src/spox/_public.py",
        """    if not all(isinstance(var, Var) for var in inputs.values()):
        seen_types = {type(obj) for obj in inputs.values()}""",
        """    if not outputs:
        raise ValueError("Build outputs must not be empty for the graph to be valid.")
    if not all(isinstance(var, Var) for var in inputs.values()):
        seen_types = {type(obj) for obj in inputs.values()}""")]),
    "with-arguments-also-when-dropping": (["C03", "C12"], [("src/spox/_public.py",
        "        if not drop_unused_inputs:\n            graph = graph.with_arguments(*inputs.values())",
        "        if not drop_unused_inputs or len(inputs) == 1:\n            graph = graph.with_arguments(*inputs.values())")]),
    # ---- round 7
    "unk-dims-stripped-in-tensor-constructor": (["C03"], [("src/spox/_type_system.py",
        "        rich_shape = Shape.from_simple(shape)\n",
        "        if shape is not None:\n            shape = tuple(None if isinstance(d, str) and d.startswith('unk__') else d for d in shape)\n        rich_shape = Shape.from_simple(shape)\n")]),
    "dfs-recursive-reference-version": (["C03"], [("src/spox/_traverse.py",
        """    postorder: List[V] = []
    visited: Set[V] = set()
    stack: Set[V] = set()
""",
        """    postorder: List[V] = []
    visited: Set[V] = set()
    stack: Set[V] = set()

    def _dfs(u: V):
        if u in visited:
            return
        visited.add(u)
        for v in adj(u):
            _dfs(v)
        postorder.append(u)
        if post_callback is not None:
            post_callback(u)

    for s in sources:
        _dfs(s)
    return postorder
""")]),
    "long-names-cut-and-hash-suffixed": (["C12"], [("src/spox/_scope.py",
        """    def maybe_enum(self, base: str) -> str:
        \"\"\"Attempt to use ``base`` as a name, or return the result of ``self.enum`` for it otherwise.\"\"\"
""",
        """    def maybe_enum(self, base: str) -> str:
        \"\"\"Attempt to use ``base`` as a name, or return the result of ``self.enum`` for it otherwise.\"\"\"
        if len(base) > 80:
            base = base[:64] + "_" + format(hash(base) & 0xFFFFFFFF, "08x")
""")]),
    "intros-fast-path-returns-arguments": (["C12", "C03"], [("src/spox/_internal_op.py",
        """    return _Introduce(
        None, _Introduce.Inputs(args), out_variadic=len(args)
    ).outputs.outputs
""",
        """    if args and isinstance(args[0]._op, _Introduce) and list(args[0]._op.outputs.outputs) == list(args):
        return args
    return _Introduce(
        None, _Introduce.Inputs(args), out_variadic=len(args)
    ).outputs.outputs
""")]),
    # ---- round 10
    "keyerror-when-no-input-survives": (["C03"], [("src/spox/_public.py",
        "    if drop_unused_inputs:\n        # The used arguments were found by traversal",
        "    if drop_unused_inputs and inputs and not model_proto.graph.input:\n"
        "        raise KeyError(\"None of the given inputs is used by the outputs.\")\n"
        "    if drop_unused_inputs:\n        # The used arguments were found by traversal")]),
    "rename-ignores-none": (["C03", "C12"], [("src/spox/_var.py",
        "    def _rename(self, name: Optional[str]):\n",
        "    def _rename(self, name: Optional[str]):\n        if name is None:\n            return  # names are strings\n")]),
    "relist-skipped-when-defaults-present": (["C03", "C12"], [("src/spox/_public.py",
        "    if drop_unused_inputs:\n        # The used arguments were found by traversal",
        "    if drop_unused_inputs and not model_proto.graph.initializer:\n        # The used arguments were found by traversal")]),
    "inline-sparse-preamble-from-set": (["C12"], [("src/spox/_public.py",
        """    preamble.extend(
        onnx.helper.make_node("Constant", [], [i.values.name], sparse_value=i)
        for i in model.graph.sparse_initializer
        if i.values.name not in input_names
    )""",
        """    sparse_defaults = {i.values.name: i for i in model.graph.sparse_initializer}
    preamble.extend(
        onnx.helper.make_node("Constant", [], [name], sparse_value=sparse_defaults[name])
        for name in sparse_defaults.keys() - input_names
    )""")]),
}


def sh(cmd, **kw):
    return subprocess.run(cmd, shell=True, capture_output=True, text=True, **kw)


def restore():
    sh(f"git -C {REPO} checkout -- .")


def main():
    names = sys.argv[1:] or list(M)
    rows = []
    for name in names:
        checks, edits = M[name]
        restore()
        ok = True
        for rel, old, new in edits:
            p = REPO / rel
            s = p.read_text()
            if s.count(old) != 1:
                print(f"!! {name}: pattern not found exactly once in {rel} ({s.count(old)})")
                ok = False
                break
            p.write_text(s.replace(old, new))
        if not ok:
            restore()
            continue
        for pid in checks:
            r = sh(f"cd {V} && ./check {pid} quick")
            lines = [ln for ln in r.stdout.splitlines() if ln.startswith(("VIOLATION", "KNOWN-FINDING"))]
            fails = [ln.split("] ", 1)[1][:110] for ln in r.stdout.splitlines() if "] FAILURE " in ln][:3]
            broken = [ln.split("] ", 1)[1][:90] for ln in r.stdout.splitlines() if "] BROKEN " in ln][:3]
            replays = [re.search(r"replay=(\S+)", ln).group(1) for ln in lines if "replay=" in ln]
            rep_mut = rep_clean = None
            if replays and "no-failing-input-found" not in lines[0]:
                rep_mut = sh(f"cd {V} && ./check {pid} --replay {replays[0]}").returncode
                sh(f"git -C {REPO} stash -q")
                rep_clean = sh(f"cd {V} && ./check {pid} --replay {replays[0]}").returncode
                sh(f"git -C {REPO} stash pop -q")
            rows.append((name, pid, r.returncode, len(lines), fails, broken, rep_mut, rep_clean))
            print(f"{name:34s} {pid} exit={r.returncode} violations={len(lines)} replay(mutant)={rep_mut} replay(clean)={rep_clean}")
            for f in fails:
                print("      ", f)
            for b in broken:
                print("      ", b)
            sys.stdout.flush()
        restore()
    restore()


if __name__ == "__main__":
    main()
