"""Round-6 known-finding witnesses of C05: hand-made minimal calls; each is judged on the tree and must
yield its key, then the replay file and the findings.d entry are (re)written.
usage: SPOX_REPO=/work/repo-c05 /venv/bin/python tools/c05_mkfindings_r6.py"""
import os, sys
ROOT = os.path.dirname(os.path.dirname(os.path.abspath(__file__)))
import json
sys.path.insert(0, ROOT)
from harness import core
core.use_repo_on_path()
from harness import lib_c05 as L
from harness.props import c05
ops = {o.key: o for o in L.load_vocabulary()}
ML = "spox.opset.ai.onnx.ml.v3"
def call(op, vars_, args, attrs):
    return {"module": ML, "op": op, "vars": [{"ty": t, "const": None} for t in vars_], "args": args, "attrs": attrs, "out_count": None, "family": "witness"}
W = {
 "patched-types-untyped:ArrayFeatureExtractor": call("ArrayFeatureExtractor", [{"t": 1, "s": None}, {"t": 7, "s": [2]}], [0, 1], {}),
 "patched-types-untyped:CategoryMapper": call("CategoryMapper", [{"t": 7, "s": None}], [0], {"cats_int64s": [0, 1], "cats_strings": ["a", "b"]}),
 "patched-types-untyped:Imputer": call("Imputer", [{"t": 1, "s": None}], [0], {"imputed_value_floats": [0.0]}),
 "patched-types-untyped:LinearRegressor": call("LinearRegressor", [{"t": 1, "s": None}], [0], {}),
 "patched-types-untyped:OneHotEncoder": call("OneHotEncoder", [{"t": 7, "s": None}], [0], {"cats_int64s": [0, 1]}),
 "patched-types-contradicts:Normalizer": call("Normalizer", [{"t": 11, "s": ["N", 5]}], [0], {}),
 "patched-types-contradicts:TreeEnsembleClassifier": call("TreeEnsembleClassifier", [{"t": 1, "s": ["N", 5]}], [0], {"classlabels_int64s": [1, 2], "class_ids": [1, 2, 3]}),
 "patched-types-weaker:TreeEnsembleClassifier": call("TreeEnsembleClassifier", [{"t": 1, "s": ["N", 5]}], [0], {"classlabels_int64s": [1, 2]}),
}
NOTE = {
 "untyped": "the hand-written ml inference returns no type at all when the input's rank is unknown (`fully_typed` gate), although the input is typed and ONNX infers at least the element type",
 "contradicts:Normalizer": "the hand-written inference reports the input's element type; ONNX (and the operator) produce tensor(float). Pinned by tests/type_inference/test_normalizer.py (also C06 Normalizer:Y:dtype:output-is-float)",
 "contradicts:TreeEnsembleClassifier": "the hand-written inference takes the second dimension of Z from len(class_ids) (one entry per leaf weight); ONNX: the number of class labels. Pinned by tests/type_inference/test_tree_ensemble_classifier.py",
 "weaker:TreeEnsembleClassifier": "without class_ids the second dimension of Z is reported unknown; ONNX: the number of class labels",
}
fd = json.load(open(ROOT + '/findings.d/C05.json'))
have = {f['key'] for f in fd['findings']}
for key, c in W.items():
    op = ops["ml.v3." + c["op"]]
    k, what, info = c05.judge(op, c)
    print(key, '->', k, '|', what[:160])
    assert k == key, (key, k)
    fn = "findings/C05-" + key.replace(":", "-") + ".json"
    doc = {"property": "C05", "kind": "input", "seed": 0, "key": key, "what": what, "case": {"op_key": op.key, "call": c},
           "how_to_run": f"./check C05 --replay {fn}"}
    open(ROOT + '/' + fn, 'w').write(json.dumps(doc, indent=1) + "\n")
    kind = key.split(":")[0].split("-")[-1]
    note = NOTE.get(kind + ":" + c["op"]) or NOTE[kind]
    if key not in have:
        fd['findings'].append({"property": "C05", "key": key, "status": "known", "what": what + " -- " + note, "replay": fn})
open(ROOT + '/findings.d/C05.json', 'w').write(json.dumps(fd, indent=1, ensure_ascii=False) + "\n")

# ---- a caller's dimension named unk__*
key = "types-differ:user-dim-named-unk__"
c = {"module": "spox.opset.ai.onnx.v17", "op": "Identity", "vars": [{"ty": {"t": 1, "s": ["unk__0", 2]}, "const": None}], "args": [0], "attrs": {}, "out_count": None, "family": "witness"}
op = ops["v17.Identity"]
k, what, info = c05.judge(op, c)
print(k, what)
assert k == key
fn = "findings/C05-types-differ-user-dim-named-unk__.json"
doc = {"property": "C05", "kind": "input", "seed": 0, "key": key, "what": what, "case": {"op_key": op.key, "call": c}, "how_to_run": f"./check C05 --replay {fn}"}
open(ROOT + '/' + fn, 'w').write(json.dumps(doc, indent=1) + "\n")
fd = json.load(open(ROOT + '/findings.d/C05.json'))
if not any(f['key'] == key for f in fd['findings']):
    fd['findings'].append({"property": "C05", "key": key, "status": "known", "replay": fn,
        "what": what + " -- `_strip_dim_symbol` drops every dimension parameter whose name starts with `unk__` (the prefix ONNX gives the dimensions it invents); a dimension the CALLER named `unk__0` in an input type is not invented, ONNX keeps it, the constructor reports it as unknown (identity(x: float32[unk__0][2]) -> float32[?][2]). Not generated at random (the name is contrived); a repair would have to strip only names that do not occur in the inputs, which changes the model's `stripUnk` and the statement of eager_agrees - left as a known finding."})
open(ROOT + '/findings.d/C05.json', 'w').write(json.dumps(fd, indent=1, ensure_ascii=False) + "\n")
