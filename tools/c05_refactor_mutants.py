"""'Harmless-looking refactoring that also breaks the property' mutants: internals the harness reads
are renamed across the whole package, and one behavioural change is slipped in. Expect exit 1."""
import os, re, subprocess, sys
from pathlib import Path
REPO = Path(os.environ.get("SPOX_REPO", "/work/repo-c05"))
ROOT = Path(__file__).resolve().parent.parent
def sh(cmd, **kw): return subprocess.run(cmd, shell=True, capture_output=True, text=True, **kw)
def rename_all(old, new):
    for p in (REPO / "src/spox").rglob("*.py"):
        s = p.read_text()
        if old in s:
            p.write_text(re.sub(r"\b" + re.escape(old) + r"\b", new, s))
def edit(file, old, new):
    p = REPO / file; s = p.read_text(); assert s.count(old) == 1, (file, old, s.count(old)); p.write_text(s.replace(old, new))
MUTS = {
 "R1 rename Node.inference/to_singleton_onnx_model/_OPERATORS + strict_mode off": lambda: (
    rename_all("inference", "run_inference_step"), rename_all("to_singleton_onnx_model", "_one_node_model"),
    rename_all("_OPERATORS", "_NODE_CLASSES"),
    edit("src/spox/_standard.py", "strict_mode=True", "strict_mode=False")),
 "R2 rename get_vars/get_fields + InferenceError swallowed": lambda: (
    rename_all("get_vars", "vars_by_key"), rename_all("get_fields", "fields_by_name"),
    edit("src/spox/_standard.py", '            raise type(e)(\n                f"{str(e)} -- for {self.schema.name}: {self.signature}"\n            ) from e', "            return {}")),
 "R3 rename StandardNode/Inputs/op_type + unk__ kept": lambda: (
    rename_all("StandardNode", "StandardOp"), rename_all("op_type", "operator_id"), rename_all("_get_field_type", "_kind_of"),
    edit("src/spox/_standard.py", 'lambda x: x.startswith("unk__") and x not in given', "lambda x: False")),
 "R4 rename value_prop_backend/_value_prop module symbols + initializers not passed": lambda: (
    rename_all("value_prop_backend", "value_propagation_backend"), rename_all("ValuePropBackend", "PropBackend"),
    edit("src/spox/_standard.py", "            if var._value and isinstance(var._value.value, np.ndarray)\n        ]", "            if False\n        ]")),
}
for name, f in MUTS.items():
    if len(sys.argv) > 1 and not any(a in name for a in sys.argv[1:]): continue
    sh(f"git -C {REPO} checkout -- .")
    f()
    imp = sh(f"cd {REPO} && PYTHONPATH={REPO}/src /venv/bin/python -c 'import spox.opset.ai.onnx.v17, spox.opset.ai.onnx.ml.v3'")
    env = dict(os.environ, SPOX_REPO=str(REPO))
    r = sh(f"cd {ROOT} && ./check C05 quick", env=env)
    viol = re.findall(r"^VIOLATION property=C05 replay=(\S+)(.*)$", r.stdout, re.M)
    keys = re.findall(r"FAILURE (\S+):", r.stdout)
    brok = re.findall(r"BROKEN (\w+): ([^\n]{0,70})", r.stdout)
    print(name, "| import ok:", imp.returncode == 0, "| exit", r.returncode, "| violations", len(viol), "| keys", keys[:3], "| broken", brok[:4], flush=True)
    if r.returncode == 2: print(r.stdout[-1500:], r.stderr[-1500:])
sh(f"git -C {REPO} checkout -- .")
