#!/bin/bash
# Intake of round-7 seeded changes: /tmp/seed7-out/<Cxx>/{1,2} -> seeded/<Cxx>-{m,n} (validated by tools/seeded.py import).
cd /verif || exit 2
for id in "$@"; do
  for k in 1 2; do
    src=/tmp/seed7-out/$id/$k
    [ -f "$src/patch.diff" ] || { echo "$id/$k: no patch"; continue; }
    name=$id-$( [ $k = 1 ] && echo o || echo p )
    mkdir -p /tmp/mut-out/$name; cp "$src"/patch.diff "$src"/demo.py /tmp/mut-out/$name/ 2>/dev/null; cp "$src"/notes.md /tmp/mut-out/$name/ 2>/dev/null
    python3 tools/seeded.py import "$name" "$id" "see notes.md" "see notes.md" 2>&1 | tail -1
    rm -rf /tmp/mut-out/$name
  done
done
