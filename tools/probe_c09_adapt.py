"""probe one mutant of _adapt.py: (a) the two behavioural correspondences, (b) a model-free oracle on three small programs"""
import sys, random, json, os, warnings
sys.path.insert(0, os.path.dirname(os.path.dirname(os.path.abspath(__file__))))
from harness import core
core.use_repo_on_path()
import numpy as np, onnx, onnxruntime as ort
import spox, spox.opset.ai.onnx.v17 as op17, spox.opset.ai.onnx.v21 as op21
from spox import argument, Tensor, build, inline
assert os.environ["SPOX_REPO"] in spox.__file__, spox.__file__
from harness import lib_c09_qualify as Q
class CK:
    rng = random.Random(0)
    def broken(self, *a): print("  BROKEN", a[1], str(a[2])[:160])
ck = CK(); drv = core.Driver(core.LEAN / ".lake" / "build" / "bin" / "spoxmodel")
mm = []; ev = Q.check_qualify(ck, drv, mm, 400); print("  qualify correspondence mismatches:", ev.get("mismatches"), "of", ev.get("cases"))
if mm: print("   e.g.", mm[0][1][:300])
mm = []; ev = Q.check_inits(ck, drv, mm, 300); print("  inits correspondence mismatches:", ev.get("mismatches"), "of", ev.get("cases"))
if mm: print("   e.g.", mm[0][1][:300])
warnings.simplefilter("ignore")
def oracle(name, mk, ref):
    xv = np.arange(6, dtype=np.float32).reshape(2, 3)
    try:
        x = argument(Tensor(np.float32, (2, 3)))
        m = build({"x": x}, mk(x))
    except Exception as e:
        print(f"  ORACLE {name}: build raises {type(e).__name__}: {str(e).splitlines()[0][:140]}"); return
    try:
        onnx.checker.check_model(m, full_check=True)
    except Exception as e:
        print(f"  ORACLE {name}: checker rejects: {str(e).splitlines()[0][:140]}"); return
    try:
        got = ort.InferenceSession(m.SerializeToString(), providers=["CPUExecutionProvider"]).run(None, {"x": xv})
    except Exception as e:
        print(f"  ORACLE {name}: onnxruntime rejects: {str(e).splitlines()[0][:140]}"); return
    want = ref(xv)
    ok = all(np.allclose(g, w) for g, w in zip(got, want))
    print(f"  ORACLE {name}: {'ok' if ok else 'results differ'}")
oracle("one-converted-node", lambda x: {"a": op17.reduce_mean(x, axes=[1]), "i": op21.identity(x)}, lambda v: [v.mean(1, keepdims=True), v])
oracle("two-converted-nodes", lambda x: {"a": op17.reduce_mean(x, axes=[1]), "b": op17.reduce_l2(x, axes=[0]), "i": op21.identity(x)},
       lambda v: [v.mean(1, keepdims=True), np.sqrt((v * v).sum(0, keepdims=True)), v])
from onnx import helper as h, TensorProto as TP
pad = h.make_model(h.make_graph([h.make_node("Pad", ["a"], ["b"], pads=[0, 0, 0, 1], mode="constant")], "g",
      [h.make_tensor_value_info("a", TP.FLOAT, [2, 3])], [h.make_tensor_value_info("b", TP.FLOAT, [2, 4])]),
      opset_imports=[h.make_operatorsetid("", 10)], ir_version=8)
oracle("inlined-pad10", lambda x: {"r": inline(pad)(x)["b"], "i": op21.identity(x)}, lambda v: [np.pad(v, ((0, 0), (0, 1))), v])
