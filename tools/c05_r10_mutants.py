"""Round 10: the membership comparison / PropValue.check / attach loop (Model/Subtype.lean)."""
import os, re, subprocess, sys
from pathlib import Path
REPO = Path(os.environ.get("SPOX_REPO", "/work/repo-c05"))
ROOT = Path(__file__).resolve().parent.parent
N, S, T, V = "src/spox/_node.py", "src/spox/_shape.py", "src/spox/_type_system.py", "src/spox/_value_prop.py"
def sh(cmd, **kw): return subprocess.run(cmd, shell=True, capture_output=True, text=True, **kw)
MUTS = {
 "Unknown.__le__: a named dimension is only below another unknown (a value of concrete shape no longer fits float32[N])":
   [(S, "    def __le__(self, other: Natural) -> bool:\n        if not isinstance(other, Natural):\n            return NotImplemented\n        return True\n",
        "    def __le__(self, other: Natural) -> bool:\n        if not isinstance(other, Natural):\n            return NotImplemented\n        return not self.label or isinstance(other, Unknown)\n")],
 "Shape.__le__: the rank comparison is skipped when one side has rank 0 (truthiness of the rank)":
   [(S, "        elif self.rank != other.rank:\n            return False\n",
        "        elif self.rank and other.rank and self.rank != other.rank:\n            return False\n")],
 "two sites: Node.inference offers values to untyped outputs too, PropValue.check waves a missing type through":
   [(N, "            if var.type is not None and var._value is None and key in out_values:\n",
        "            if var._value is None and key in out_values:\n"),
    (V, "    def check(self) -> bool:\n        if isinstance(self.type, Tensor):\n",
        "    def check(self) -> bool:\n        if self.type is None:\n            return True\n        if isinstance(self.type, Tensor):\n")],
 "Tensor._subtype: an unknown shape on the other side also waives the element type":
   [(T, "        return (\n            issubclass(self._elem_type, other._elem_type)\n            and self._shape <= other._shape\n        )\n",
        "        return other._shape.dims is None or (\n            issubclass(self._elem_type, other._elem_type)\n            and self._shape <= other._shape\n        )\n")],
}
for name, edits in MUTS.items():
    if len(sys.argv) > 1 and not any(a in name for a in sys.argv[1:]): continue
    sh(f"git -C {REPO} checkout -- .")
    for file, old, new in edits:
        p = REPO / file; s = p.read_text(); assert s.count(old) == 1, (name, s.count(old)); p.write_text(s.replace(old, new))
    env = dict(os.environ, SPOX_REPO=str(REPO))
    t = sh(f"cd {REPO} && PYTHONPATH={REPO}/src /venv/bin/python -m pytest -p no:cacheprovider -x -q tests 2>&1 | grep -E 'passed|failed' | tail -1")
    r = sh(f"cd {ROOT} && ./check C05 quick", env=env)
    viol = re.findall(r"^VIOLATION property=C05 (.*)$", r.stdout, re.M)
    broken = sorted(set(re.findall(r"BROKEN[^\n]*?correspondence[^\n]{0,90}", r.stdout)))[:4]
    sh(f"git -C {REPO} checkout -- .")
    print(name, "| suite:", t.stdout.strip()[:70], "| exit", r.returncode, "| violations", viol[:3], "| broken", broken, flush=True)
sh(f"git -C {REPO} checkout -- .")
