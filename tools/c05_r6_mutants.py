"""Round-6 mutants for C05: inference that uses propagated VALUES (Loop trip count, If condition),
rank-0 `()` vs unknown `None` and zero-size dims (truthiness), ambient type-warning level, a
supplement that contradicts ONNX, symbolic dimension names.  usage: c05_r6_mutants.py [substring ...]"""
import os, re, subprocess, sys
from pathlib import Path
REPO = Path(os.environ.get("SPOX_REPO", "/work/repo-c05"))
ROOT = Path(__file__).resolve().parent.parent
U = "src/spox/_utils.py"
A = "src/spox/_attributes.py"
N, T, S, SH, V17, ML = ("src/spox/_node.py", "src/spox/_type_system.py", "src/spox/_standard.py", "src/spox/_shape.py",
                        "src/spox/opset/ai/onnx/v17.py", "src/spox/opset/ai/onnx/ml/v3.py")
def sh(cmd, **kw): return subprocess.run(cmd, shell=True, capture_output=True, text=True, **kw)
MUTS = {
 "Loop: first dimension of the scan outputs taken from a propagated constant trip count":
   [(V17, "                output_types[name] = common(res, arg)  # type: ignore\n\n        return output_types\n",
          "                output_types[name] = common(res, arg)  # type: ignore\n\n"
          "        m = self.inputs.M\n"
          "        if m is not None and m._value is not None:\n"
          "            k = int(np.asarray(m._value.value).reshape(-1)[0])\n"
          "            for name in list(self.outputs.get_vars())[n:]:\n"
          "                t = output_types.get(name)\n"
          "                if isinstance(t, Tensor) and t.shape:\n"
          "                    output_types[name] = Tensor(t.dtype, (k,) + tuple(t.shape[1:]))\n"
          "        return output_types\n")],
 "If: a propagated constant condition selects the taken branch's types":
   [(V17, "    class Outputs(BaseOutputs):\n        outputs: Sequence[Var]\n\n    op_type = OpType(\"If\", \"\", 16)\n",
          "    class Outputs(BaseOutputs):\n        outputs: Sequence[Var]\n\n"
          "    def infer_output_types(self):\n"
          "        out = super().infer_output_types()\n"
          "        c = self.inputs.cond\n"
          "        if c._value is not None:\n"
          "            br = self.attrs.then_branch if bool(np.asarray(c._value.value).reshape(-1)[0]) else self.attrs.else_branch\n"
          "            for name, v in zip(self.outputs.get_vars(), br.value.requested_results.values()):\n"
          "                out[name] = v.type\n"
          "        return out\n\n"
          "    op_type = OpType(\"If\", \"\", 16)\n")],
 "Type._from_onnx: a rank-0 shape is read back as unknown (truthiness of the dim list)":
   [(T, "                if proto.tensor_type.HasField(\"shape\")\n", "                if proto.tensor_type.HasField(\"shape\") and proto.tensor_type.shape.dim\n")],
 "Tensor._to_onnx: a rank-0 operand is sent with unknown shape (`shape or None`)":
   [(T, "            dtype_to_tensor_type(self._elem_type), self.shape\n        )\n", "            dtype_to_tensor_type(self._elem_type), self.shape or None\n        )\n")],
 "Natural.simple_from_onnx: a zero-size dimension is read back as unknown (`if dim_value:`)":
   [(SH, "        if proto.HasField(\"dim_value\"):\n            return int(proto.dim_value)\n", "        if proto.HasField(\"dim_value\") and proto.dim_value:\n            return int(proto.dim_value)\n")],
 "Natural.simple_to_onnx: a zero-size dimension is sent as unknown (`if not value:`)":
   [(SH, "        if isinstance(value, int):\n            return onnx.TensorShapeProto.Dimension(dim_value=value)\n",
         "        if not value:\n            return onnx.TensorShapeProto.Dimension()\n        if isinstance(value, int):\n            return onnx.TensorShapeProto.Dimension(dim_value=value)\n")],
 "type-warning level NONE switches type inference off":
   [(N, "        out_types = self.infer_output_types() if infer_types else {}\n",
        "        out_types = self.infer_output_types() if infer_types and _TYPE_WARNING_LEVEL > TypeWarningLevel.NONE else {}\n")],
 "type-warning level OUTPUTS: an incomplete output type raises instead of warning":
   [(N, "            if value_type is not None and msg:\n                warnings.warn(\n", "            if value_type is not None and msg:\n                raise TypeError(msg)\n                warnings.warn(\n")],
 "Compress supplement reports the condition's element type":
   [(V17, "        return {\"output\": Tensor(inp.dtype, tuple(shape))}\n", "        return {\"output\": Tensor(cond.dtype, tuple(shape))}\n")],
 "Scaler supplement reports the input's element type":
   [(ML, "        return {\"Y\": Tensor(np.float32, t.shape)}\n\n    op_type = OpType(\"Scaler\"", "        return {\"Y\": Tensor(t.dtype, t.shape)}\n\n    op_type = OpType(\"Scaler\"")],
 "Compress supplement forgets the vector shape again (fix 2f0b661 reverted)":
   [(V17, "        if inp.shape is None and self.attrs.axis is not None:\n", "        if not inp.shape:\n")],
 "Tensor._to_onnx: a zero-size dimension is sent as unknown (`d or None`)":
   [(T, "            dtype_to_tensor_type(self._elem_type), self.shape\n        )\n", "            dtype_to_tensor_type(self._elem_type), None if self.shape is None else tuple(d or None for d in self.shape)\n        )\n")],
 "element types: bfloat16 read back from ONNX as float16":
   [(U, "    return onnx.helper.tensor_dtype_to_np_dtype(ttype)\n", "    if ttype == onnx.TensorProto.BFLOAT16:\n        return np.dtype(np.float16)\n    return onnx.helper.tensor_dtype_to_np_dtype(ttype)\n")],
 "element types: a complex128 operand is declared complex64":
   [(U, "    try:\n        return onnx.helper.np_dtype_to_tensor_dtype(dtype)\n", "    if dtype == np.dtype(np.complex128):\n        return onnx.TensorProto.COMPLEX64\n    try:\n        return onnx.helper.np_dtype_to_tensor_dtype(dtype)\n")],
 "attribute spellings: a list attribute keeps the caller's iterable (a one-shot generator is empty when the node is written)":
   [(A, "            value=value if isinstance(value, _Ref) else tuple(value), name=name\n", "            value=value, name=name\n"),
    (A, "        return cls(tuple(value), name) if value is not None else None\n", "        return cls(value, name) if value is not None else None\n")],
 "attribute spellings: AttrInt64 insists on a Python int (numpy integers rejected at the call)":
   [(A, "class AttrInt64(Attr[int]):\n    _attribute_proto_type = AttributeProto.INT\n",
        "class AttrInt64(Attr[int]):\n    _attribute_proto_type = AttributeProto.INT\n\n    def _validate(self):\n        if not isinstance(self._value, (int, _Ref)):\n            raise self._get_pretty_type_exception()\n        super()._validate()\n")],
 "unk_ (one underscore) prefix stripped: a user's symbolic dimension unk_1 is dropped":
   [(S, "lambda x: x.startswith(\"unk__\") and x not in given", "lambda x: x.startswith(\"unk_\") and x not in given")],
 "fix f580c1e reverted: the caller's own unk__* dimension names are stripped again":
   [(S, "lambda x: x.startswith(\"unk__\") and x not in given", "lambda x: x.startswith(\"unk__\")")],
 "given names taken from the first input only":
   [(S, "            for var in self.inputs.get_vars().values()\n            for name in _dim_symbols(var.unwrap_type())", "            for var in list(self.inputs.get_vars().values())[:1]\n            for name in _dim_symbols(var.unwrap_type())")],
}
for name, edits in MUTS.items():
    if len(sys.argv) > 1 and not any(a in name for a in sys.argv[1:]): continue
    sh(f"git -C {REPO} checkout -- .")
    for file, old, new in edits:
        p = REPO / file; s = p.read_text(); assert s.count(old) == 1, (name, s.count(old)); p.write_text(s.replace(old, new))
    env = dict(os.environ, SPOX_REPO=str(REPO))
    t = sh(f"cd {REPO} && PYTHONPATH={REPO}/src /venv/bin/python -m pytest -p no:cacheprovider -x -q tests 2>&1 | grep -E 'passed|failed' | tail -1")
    r = sh(f"cd {ROOT} && ./check C05 quick", env=env)
    viol = re.findall(r"^VIOLATION property=C05 replay=(\S+)(.*)$", r.stdout, re.M)
    keys = re.findall(r"FAILURE (\S+):", r.stdout)
    res = [sh(f"cd {ROOT} && ./check C05 --replay {rp}", env=env).returncode for rp, _ in viol[:3]]
    sh(f"git -C {REPO} checkout -- .")
    resc = [sh(f"cd {ROOT} && ./check C05 --replay {rp}", env=env).returncode for rp, _ in viol[:3]]
    print("MUTANT", name, "| suite:", t.stdout.strip()[:70], "| exit", r.returncode, "| violations", len(viol), "nofail" if "no-failing" in r.stdout else "",
          "| keys", sorted(set(keys))[:8], "| replay mutant", res, "clean", resc, flush=True)
    if viol: print(open(viol[0][0]).read()[:700].replace("\n", " "), flush=True)
sh(f"git -C {REPO} checkout -- .")
