#!/bin/bash
# Run every registered check's quick command on the unchanged tree with several seeds; report exit codes and wall time.
cd "$(dirname "$(readlink -f "$0")")/.."
seeds="${SEEDS:-0 1 2}"
ids=$(python3 -c "import json;print(' '.join(c['property_id'] for c in json.load(open('MANIFEST.json'))['checks']))")
for id in ${IDS:-$ids}; do
  for s in $seeds; do
    t0=$(date +%s)
    out=$(VERIF_SEED=$s ./check $id ${TIER:-quick} 2>&1); rc=$?
    t1=$(date +%s)
    nv=$(echo "$out" | grep -c '^VIOLATION')
    nk=$(echo "$out" | grep -c '^KNOWN-FINDING')
    echo "$id seed=$s exit=$rc violations=$nv known=$nk wall=$((t1-t0))s"
    if [ $rc -ne 0 ]; then echo "$out" | tail -15; fi
  done
done
