"""Hidden state carried by a shared Var across calls of DIFFERENT operators."""
import os, re, subprocess, sys
from pathlib import Path
REPO = Path(os.environ.get("SPOX_REPO", "/work/repo-c05"))
ROOT = Path(__file__).resolve().parent.parent
S = "src/spox/_standard.py"
def sh(cmd, **kw): return subprocess.run(cmd, shell=True, capture_output=True, text=True, **kw)
OLD = "            from_array(var._value.value, key)\n"
MUTS = {
 "initializer proto cached on the PropValue (keeps the first consumer's operand name)":
   [(S, OLD, "            _cached_init(var._value, key)\n"),
    (S, "class StandardNode(Node):", "def _cached_init(pv, key):\n    try:\n        return pv._init_proto\n    except AttributeError:\n        object.__setattr__(pv, '_init_proto', from_array(pv.value, key))\n        return pv._init_proto\n\n\nclass StandardNode(Node):")],
 "value-info proto cached on the Var (keeps the first consumer's operand name)":
   [(S, "            var.unwrap_type()._to_onnx_value_info(key)\n            for key, var in self.inputs.get_vars().items()\n        ]",
        "            _cached_info(var, key)\n            for key, var in self.inputs.get_vars().items()\n        ]"),
    (S, "class StandardNode(Node):", "def _cached_info(var, key):\n    if not hasattr(var, '_info_proto'):\n        var._info_proto = var.unwrap_type()._to_onnx_value_info(key)\n    return var._info_proto\n\n\nclass StandardNode(Node):")],
}
for name, edits in MUTS.items():
    if len(sys.argv) > 1 and not any(a in name for a in sys.argv[1:]): continue
    sh(f"git -C {REPO} checkout -- .")
    for file, old, new in edits:
        p = REPO / file; s = p.read_text(); assert s.count(old) == 1, (name, old); p.write_text(s.replace(old, new))
    env = dict(os.environ, SPOX_REPO=str(REPO))
    t = sh(f"cd {REPO} && PYTHONPATH={REPO}/src /venv/bin/python -m pytest -p no:cacheprovider -x -q tests 2>&1 | grep -E 'passed|failed' | tail -1")
    r = sh(f"cd {ROOT} && ./check C05 quick", env=env)
    viol = re.findall(r"^VIOLATION property=C05 replay=(\S+)(.*)$", r.stdout, re.M)
    keys = re.findall(r"FAILURE (\S+):", r.stdout)
    res = []
    for rp, _ in viol[:3]:
        res.append(sh(f"cd {ROOT} && ./check C05 --replay {rp}", env=env).returncode)
    sh(f"git -C {REPO} checkout -- .")
    resc = [sh(f"cd {ROOT} && ./check C05 --replay {rp}", env=env).returncode for rp, _ in viol[:3]]
    print(name, "| suite:", t.stdout.strip()[:70], "| exit", r.returncode, "| violations", len(viol), "nofail" if "no-failing" in r.stdout else "", "| keys", keys[:6], "| replay mutant", res, "clean", resc, flush=True)
    if r.returncode == 2: print(r.stdout[-1500:])
sh(f"git -C {REPO} checkout -- .")
