#!/venv/bin/python
"""Round-10 mutants of C08 (several Inline nodes in one build). Usage: tools/c08_r10_mutants.py <name>|all
Applies the mutant to $SPOX_REPO (must be the scratch tree), runs `./check C08 quick` (seed 0, no escalation),
replays every VIOLATION on the mutant and on the clean tree, always restores the tree."""
import os
import re
import subprocess
import sys

REPO = os.environ.get("SPOX_REPO", "/work/repo-c08")
HERE = os.path.dirname(os.path.dirname(os.path.abspath(__file__)))
F = "src/spox/_inline.py"

MUTANTS = {
    # two cooperating sites: the memo table of the renaming survives on a module-level cache keyed by the (shared) private
    # model, so the SECOND Inline node of one callable (and every later build) reuses the first node's `Inline_0__*` names
    "s1_rename_memo_per_model": [(
        "        inner_renames: Dict[str, str] = {}\n",
        "        inner_renames: Dict[str, str] = _RENAMES.setdefault(id(self.model), {})\n"),
        ("class _Inline(_InternalNode):", "_RENAMES: Dict[int, Dict[str, str]] = {}\n\n\nclass _Inline(_InternalNode):")],
    # multi-step: the outer argument names are remembered per model at the first emission; a later node of the same
    # callable fed with OTHER arguments (chained, twice) silently reads the first node's arguments
    "s7_arg_names_per_model": [(
        "            if name in input_names:\n                return scope.var[self.inputs.inputs[input_names[name]]]\n",
        "            if name in input_names:\n                args = _ARGS.setdefault((id(self.model), id(scope)), [scope.var[v] for v in self.inputs.inputs])\n                return args[input_names[name]]\n"),
        ("class _Inline(_InternalNode):", "_ARGS: Dict[tuple, List[str]] = {}\n\n\nclass _Inline(_InternalNode):")],
    # dropped check, unusual input: a prefixed name that is already visible is silently reused instead of raising
    "s6_reserve_idempotent": [(
        "            return space.reserve(space.maybe_enum(f\"{scope.node[self]}__{name}\"))\n",
        "            cand = space.maybe_enum(f\"{scope.node[self]}__{name}\")\n            return cand if cand in space else space.reserve(cand)\n")],
}


def sh(cmd, **kw):
    return subprocess.run(cmd, shell=True, text=True, capture_output=True, **kw)


def run(name):
    path = os.path.join(REPO, F)
    sh(f"git -C {REPO} checkout -- .")
    src = open(path).read()
    for old, new in MUTANTS[name]:
        assert old in src, (name, old)
        src = src.replace(old, new, 1)
    open(path, "w").write(src)
    env = dict(os.environ, SPOX_REPO=REPO, VERIF_SEED="0", C08_NO_ESCALATE="1")
    try:
        r = sh("./check C08 quick", cwd=HERE, env=env)
        out = r.stdout + r.stderr
        reps = re.findall(r"VIOLATION property=C08 replay=(\S+)", out)
        import json
        keys = [json.load(open(p)).get("key") for p in reps] + re.findall(r"VIOLATION property=C08 (?!replay=)(.*)", out)
        broken = sorted(set(m[:70] for m in re.findall(r"BROKEN \w+: (C08 [^:\n|{\[]*)", out)))
        on_mut = [sh(f"./check C08 --replay {p}", cwd=HERE, env=env).returncode for p in reps]
    finally:
        sh(f"git -C {REPO} checkout -- .")
    on_clean = [sh(f"./check C08 --replay {p}", cwd=HERE, env=env).returncode for p in reps]
    print(f"| {name} | exit {r.returncode} | {len(reps)} replays; mutant {on_mut} / clean {on_clean} | {keys[:5]} | {broken[:6]} |", flush=True)
    open(os.path.join(HERE, ".work", f"c08_r10_{name}.log"), "w").write(out)


if __name__ == "__main__":
    os.makedirs(os.path.join(HERE, ".work"), exist_ok=True)
    for n in (list(MUTANTS) if sys.argv[1] == "all" else sys.argv[1:]):
        run(n)
