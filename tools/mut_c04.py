#!/usr/bin/env python3
"""Mutation table for C04: apply each change to the scratch spox tree ($SPOX_REPO), run
`./check C04 quick`, replay the first replay file on the mutant and on the clean tree, undo.

usage: SPOX_REPO=/work/repo-c04 python3 tools/mut_c04.py [name ...]
"""
import os
import re
import subprocess
import sys
from pathlib import Path

V = Path(__file__).resolve().parent.parent
REPO = Path(os.environ["SPOX_REPO"])
assert REPO != Path("/repo")

B = "src/spox/_build.py"
T = "src/spox/_traverse.py"

MUTS = [
    ("B1-dfs-no-subgraph-edges", B,
     """            lambda nd: itertools.chain(
                (arr._op for arr in nd.dependencies),
                (self.source_of[sub] for sub in nd.subgraphs),
            ),""",
     """            lambda nd: (arr._op for arr in nd.dependencies),"""),
    ("B2-parent-once-instead-of-lca", B,
     """            self.scope_tree.scope_of[node] = self.scope_tree.lca(
                graph, self.scope_tree.scope_of[node]
            )""",
     """            if self.scope_tree.scope_of[node] is not graph:
                self.scope_tree.scope_of[node] = self.scope_tree.parent(
                    self.scope_tree.scope_of[node]
                )"""),
    ("B6-already-claimed-check-off", B,
     """        if set(self.arguments_of[graph]) & claimed_arguments:""",
     """        if False and set(self.arguments_of[graph]) & claimed_arguments:"""),
    ("M4-lca-returns-parent", B,
     """                vis_a, vis_b = vis_b, vis_a
            return a""",
     """                vis_a, vis_b = vis_b, vis_a
            return self.parent(a)"""),
    ("M5-lca-walk-stops-early", B,
     """            while a not in vis_b:""",
     """            while a not in vis_b and len(vis_a) + len(vis_b) < 5:"""),
    ("M6-dfs-visited-bug", T,
     """        if w in visited:
            return
        visited.add(w)""",
     """        if w in visited and w in stack:
            return
        visited.add(w)"""),
    ("M7-leak-check-dropped", B,
     """        leaked = claimed_arguments & used_arguments""",
     """        leaked = set()"""),
    ("M8-relaxation-bottom-up", B,
     """        for graph in self.graph_topo:
            self.update_scope_tree(graph)""",
     """        for graph in reversed(self.graph_topo):
            self.update_scope_tree(graph)"""),
    ("M9-no-relaxation-first-use", B,
     """            self.scope_tree.scope_of[node] = self.scope_tree.lca(
                graph, self.scope_tree.scope_of[node]
            )""",
     """            pass"""),
    ("M10-graph-topo-not-reversed", B,
     """        self.graph_topo.reverse()
""",
     """"""),
    ("M11-multiple-owner-check-off", B,
     """                if self.scope_tree.subgraph_owner[subgraph] != nd:""",
     """                if False and self.scope_tree.subgraph_owner[subgraph] != nd:"""),
    ("M12-hoist-everything-to-lca-with-main", B,
     """            self.scope_tree.scope_of.setdefault(node, graph)""",
     """            self.scope_tree.scope_of.setdefault(node, self.main)"""),
    ("M13-nested-claims-not-propagated", B,
     """                claimed_arguments |= claimed_arguments_sub""",
     """                claimed_arguments |= set(self.arguments_of[subgraph])"""),
    ("M14-lca-one-sided-walk", B,
     """                a = self.parent(a)
                a, b = b, a
                vis_a, vis_b = vis_b, vis_a""",
     """                a = self.parent(a)
                if a is self.parent(a):
                    a, b = b, a
                    vis_a, vis_b = vis_b, vis_a"""),
    ("M15-force-false-duplicates-allowed", B,
     """            scope.update(
                node, prefix
            )  # Throws a ScopeError if we attempt to redeclare a node""",
     """            scope.update(node, prefix, force=False)"""),
]


# a refactoring mutant: `graph_topo` is gone (replaced by a `nested_in` dict) and update_scope_tree runs
# level by level over the discovery-time nesting instead of the reversed discovery post-order
MULTI = {
    "R1-refactor-nested-in-level-order": [
        (B, """        self.graph_topo = list()
""", """        self.nested_in = {}
"""),
        (B, """    graph_topo: List["Graph"]
""", """    nested_in: Dict["Graph", "Graph"]
"""),
        (B, """        self.graph_topo.reverse()
""", """"""),
        (B, """        for graph in self.graph_topo:
            self.update_scope_tree(graph)""", """        level = {self.main: 0}

        def level_of(g):
            if g not in level:
                level[g] = level_of(self.nested_in[g]) + 1
            return level[g]

        for graph in sorted([self.main] + list(self.nested_in), key=level_of):
            self.update_scope_tree(graph)"""),
        (B, """                all_arguments_sub, claimed_arguments_sub = self.discover(subgraph)""",
         """                self.nested_in.setdefault(subgraph, graph)
                all_arguments_sub, claimed_arguments_sub = self.discover(subgraph)"""),
        (B, """        self.graph_topo.append(graph)
""", """"""),
    ],
}

# loop-invariant hoisting after the (correct) scoping: for a Loop with a constant trip count >= 1 and no
# cond, body-only operator applications whose operands are all defined outside the body move out
MULTI["H1-loop-invariant-hoisting"] = [
    (B, """            self.scope_own[graph] = sorted(
                graph_scope_set[graph], key=lambda nd: topo_index[nd]
            )
""", """            self.scope_own[graph] = sorted(
                graph_scope_set[graph], key=lambda nd: topo_index[nd]
            )
        for graph in sorted(self.graphs, key=lambda g: -len(self.scope_own[g])):
            owner = self.scope_tree.subgraph_owner.get(graph)
            if owner is None or owner.op_type.identifier != "Loop":
                continue
            M = getattr(owner.inputs, "M", None)
            if M is None or M._value is None or getattr(owner.inputs, "cond", None) is not None:
                continue
            try:
                if int(np.asarray(M._value.value).reshape(-1)[0]) < 1:
                    continue
            except Exception:
                continue
            outer = self.scope_tree.scope_of[owner]
            moved = True
            while moved:
                moved = False
                for nd in list(self.scope_own[graph]):
                    deps = [v._op for v in nd.dependencies]
                    if not deps or isinstance(nd, Argument) or nd is self.source_of[graph]:
                        continue
                    if next(iter(nd.subgraphs), None) is not None:
                        continue
                    if all(self.scope_tree.scope_of[d] is not graph for d in deps):
                        self.scope_own[graph].remove(nd)
                        at = self.scope_own[outer].index(owner)
                        self.scope_own[outer].insert(at, nd)
                        self.scope_tree.scope_of[nd] = outer
                        moved = True
"""),
]

# the compiled body proto is cached on the owning node's AttrGraph, keyed by subgraph name + model
# opset requirements; on a hit compile_graph is skipped (stale body on a second build)
MULTI["H2-body-proto-cache"] = [
    (B, """            subgraph_name = scope.node[subgraph_of] + f"_{key}"
            subgraph = subgraph.with_name(subgraph_name).with_opset(""",
     """            subgraph_name = scope.node[subgraph_of] + f"_{key}"
            attr = getattr(subgraph_of.attrs, key)
            ckey = (subgraph_name, tuple(sorted(self.model_opset_req)))
            cached = getattr(attr, "_cached_onnx", None)
            if cached is not None and cached[0] == ckey:
                subgraph_opset_req |= cached[2]
                return cached[1]
            subgraph = subgraph.with_name(subgraph_name).with_opset("""),
    (B, """            subgraph_functions.extend(subgraph._get_build_result().functions)
            return subgraph.to_onnx()""",
     """            subgraph_functions.extend(subgraph._get_build_result().functions)
            proto = subgraph.to_onnx()
            object.__setattr__(attr, "_cached_onnx", (ckey, proto, set(subgraph._get_build_result().opset_req)))
            return proto"""),
]

V17 = "src/spox/opset/ai/onnx/v17.py"
# const() caches the Var for plain Python scalars process-wide: N applications become one node
MULTI["G1-const-python-scalar-cache"] = [
    (V17, """    return constant(value=np.array(value, dtype))
""", """    if dtype is None and type(value) in (bool, int, float, str):
        key = (type(value), value)
        if key not in _CONST_CACHE:
            _CONST_CACHE[key] = constant(value=np.array(value, dtype))
        return _CONST_CACHE[key]
    return constant(value=np.array(value, dtype))


_CONST_CACHE: dict = {}
"""),
]
# the builder special-cases an operator kind: input-less random generators are pinned to the main graph
MULTI["G2-random-generators-pinned-to-main"] = [
    (B, """            for subgraph in nd.subgraphs:
                all_arguments_sub, claimed_arguments_sub = self.discover(subgraph)""",
     """            if nd.op_type.domain == "" and nd.op_type.identifier in ("RandomNormal", "RandomUniform"):
                self.scope_tree.scope_of[nd] = self.main
            for subgraph in nd.subgraphs:
                all_arguments_sub, claimed_arguments_sub = self.discover(subgraph)"""),
]

# ---- round 6: classes bordering on C04 that other checks were hit by
# "loop-invariant hoisting" gone wrong: after the correct scoping, a body-only application none of whose
# DIRECT operands is a formal of the Loop body moves out of the body - also when it depends on a formal
# through another body-local value
MULTI["A1-hoist-values-depending-on-formals"] = [
    (B, """            self.scope_own[graph] = sorted(
                graph_scope_set[graph], key=lambda nd: topo_index[nd]
            )
""", """            self.scope_own[graph] = sorted(
                graph_scope_set[graph], key=lambda nd: topo_index[nd]
            )
        for graph in sorted(self.graphs, key=lambda g: -len(self.scope_own[g])):
            owner = self.scope_tree.subgraph_owner.get(graph)
            if owner is None or owner.op_type.identifier != "Loop":
                continue
            outer = self.scope_tree.scope_of[owner]
            formals = {a._op for a in self.arguments_of[graph]}
            for nd in list(self.scope_own[graph]):
                deps = [v._op for v in nd.dependencies]
                if not deps or isinstance(nd, Argument) or nd is self.source_of[graph]:
                    continue
                if next(iter(nd.subgraphs), None) is not None:
                    continue
                if all(d not in formals for d in deps) and any(self.scope_tree.scope_of[d] is graph for d in deps):
                    self.scope_own[graph].remove(nd)
                    at = self.scope_own[outer].index(owner)
                    self.scope_own[outer].insert(at, nd)
                    self.scope_tree.scope_of[nd] = outer
"""),
]
# work-list instead of discovery order: update_scope_tree runs over a LIFO work-list fed with the bodies
# found while a graph is traversed, not over the reversed discovery post-order
MULTI["W1-scope-relaxation-over-a-work-list"] = [
    (B, """        for graph in self.graph_topo:
            self.update_scope_tree(graph)""", """        work, done = [self.main], set()
        while work:
            graph = work.pop()
            if graph in done:
                continue
            done.add(graph)
            self.update_scope_tree(graph)
            iterative_dfs(
                [self.source_of[graph]],
                lambda nd: (a._op for a in nd.dependencies),
                lambda nd: work.extend(nd.subgraphs),
            )"""),
]
# arguments found by traversal are propagated upward one level only: with no requested argument list
# (drop_unused_inputs=True) a model input read only at depth >= 2 is never found
MULTI["D1-found-arguments-propagate-one-level"] = [
    (B, """                all_arguments |= all_arguments_sub
""", """                all_arguments |= getattr(self, "_used_in", {}).get(subgraph, set())
"""),
    (B, """        self.graph_topo.append(graph)

        # Now we resolve which arguments we should get.""", """        self.graph_topo.append(graph)
        if not hasattr(self, "_used_in"):
            self._used_in = {}
        self._used_in[graph] = set(used_arguments)

        # Now we resolve which arguments we should get."""),
]
AD = "src/spox/_adapt.py"
# module-level cache of adapted NodeProtos keyed by (node name, op type, target version): a later
# build - of the same or of ANOTHER program in the process - gets a stale proto
MULTI["C1-adapted-proto-cache-keyed-by-node-name"] = [
    (AD, """    adapted = adapt_node(
        node,
        proto,
        source_version,
        target_version,
        var_names,
    )
    return adapted""", """    ckey = (node_names[node], proto.op_type, target_version)
    if ckey in _ADAPTED:
        return _ADAPTED[ckey]
    adapted = adapt_node(
        node,
        proto,
        source_version,
        target_version,
        var_names,
    )
    if adapted is not None:
        _ADAPTED[ckey] = adapted
    return adapted


_ADAPTED: dict = {}"""),
]

# ---- round 7
GR = "src/spox/_graph.py"
# subgraph() memoises the traced body Graph per (callback object, argument types): one callable handed to
# several body slots yields ONE shared Graph
MULTI["S1-subgraph-memoised-per-callable"] = [
    (GR, """    ins = enum_arguments(*types)
    for var in ins:
        var._rename(None)
    if not callable(fun):
        raise TypeError("Subgraph callback must be callable.")
    outs = fun(*ins)""", """    if not callable(fun):
        raise TypeError("Subgraph callback must be callable.")
    try:
        hit = _SUBGRAPH_MEMO.get(fun, {}).get(types)
    except TypeError:
        hit = None
    if hit is not None:
        return hit
    ins = enum_arguments(*types)
    for var in ins:
        var._rename(None)
    outs = fun(*ins)"""),
    (GR, """    return enum_results(*outs).with_arguments(*ins)._with_constructor(fun)
""", """    built = enum_results(*outs).with_arguments(*ins)._with_constructor(fun)
    try:
        _SUBGRAPH_MEMO.setdefault(fun, {})[types] = built
    except TypeError:
        pass
    return built


import weakref  # noqa: E402

_SUBGRAPH_MEMO: "weakref.WeakKeyDictionary" = weakref.WeakKeyDictionary()
"""),
]
# user-level _Introduce nodes (intro / unsafe_cast / unsafe_reshape) are pinned to the first graph reaching them
MULTI["I1-introduce-nodes-not-lifted"] = [
    (B, """            self.scope_tree.scope_of.setdefault(node, graph)
""", """            self.scope_tree.scope_of.setdefault(node, graph)
            if type(node).__name__ == "_Introduce":
                return
"""),
]

# round 10 ---------------------------------------------------------------------------------------
# K1: `iterative_dfs` runs the callback when a vertex is ENTERED (the returned post-order is unchanged):
#     collect_arguments / satisfy_constraints run in pre-order
MULTI["K1-dfs-callback-on-entry"] = [
    (T, """        recursion.append((w, iter(adj(w))))
""", """        recursion.append((w, iter(adj(w))))
        if post_callback is not None:
            post_callback(w)
"""),
    (T, """                if post_callback is not None:
                    post_callback(u)
                postorder.append(u)""", """                postorder.append(u)"""),
]
# K2: two cooperating sites: the owner table takes the LAST holder (no multiple-owner error) and the
#     compile walk tolerates a second introduction -> a shared Graph object is emitted under every holder
MULTI["K2-last-owner-wins-and-force-false"] = [
    (B, """                if subgraph not in self.scope_tree.subgraph_owner:
                    self.scope_tree.subgraph_owner[subgraph] = nd
                if self.scope_tree.subgraph_owner[subgraph] != nd:
                    raise BuildError(
                        "Subgraph has multiple owners (the Graph instance was reused)."
                    )""", """                self.scope_tree.subgraph_owner[subgraph] = nd"""),
    (B, """            scope.update(
                node, prefix
            )  # Throws a ScopeError if we attempt to redeclare a node""",
     """            scope.update(node, prefix, force=False)"""),
]
# K3: cycles are no longer refused by default (the Builder never passes raise_on_cycle)
MULTI["K3-dfs-cycles-tolerated"] = [
    (T, """    raise_on_cycle: bool = True,""", """    raise_on_cycle: bool = False,"""),
]


def sh(cmd, **kw):
    return subprocess.run(cmd, shell=True, capture_output=True, text=True, cwd=V, **kw)


def main():
    want = sys.argv[1:]
    rows = []
    allm = [(name, [(f, old, new)]) for name, f, old, new in MUTS] + list(MULTI.items())
    for name, edits in allm:
        if want and name not in want:
            continue
        for f, old, new in edits:
            p = REPO / f
            src = p.read_text()
            assert src.count(old) == 1, (name, old, src.count(old))
            p.write_text(src.replace(old, new))
        try:
            r = sh("./check C04 quick", timeout=900)
            out = r.stdout + r.stderr
            viol = re.findall(r"^VIOLATION .*$", out, re.M)
            fails = re.findall(r"FAILURE ([^:]+(?::[a-z-]+)?):", out)
            broken = sorted(set(re.findall(r"BROKEN correspondence: ([^{]+?) \{", out)))
            replay = None
            rep_mut = rep_clean = None
            for v in viol:
                m = re.search(r"replay=(\S+)", v)
                if m and "no-failing-input-found" not in v:
                    replay = m.group(1)
                    break
            if replay is None and viol:
                replay = re.search(r"replay=(\S+)", viol[0]).group(1)
            if replay:
                rep_mut = sh(f"./check C04 --replay {replay}", timeout=1500).returncode
        finally:
            subprocess.run(["git", "-C", str(REPO), "checkout", "--", "."], check=True)
        if replay:
            rep_clean = sh(f"./check C04 --replay {replay}", timeout=1500).returncode
        rows.append((name, r.returncode, sorted(set(fails)), broken, len(viol), rep_mut, rep_clean))
        print(rows[-1], flush=True)
    print()
    print("| mutation | exit | oracle failure keys | broken correspondence | replay on mutant / clean |")
    print("|---|---|---|---|---|")
    for name, rc, fails, broken, nv, rm, rc2 in rows:
        print(f"| {name} | {rc} | {', '.join(fails) or '-'} | {'; '.join(b.replace('Builder model vs real Builder: ', '') for b in broken) or '-'} | {rm} / {rc2} |")


if __name__ == "__main__":
    main()
