"""C09 mutation table: apply one change at a time to a spox working tree, run `./check C09 quick`,
replay the reported files on the mutant and on the clean tree, undo (`git checkout -- .`).

  SPOX_REPO=/work/repo-c09 /venv/bin/python tools/mut_c09.py [names...]     (never run against /repo)

Prints one block per mutation; the table in design.d/C09.md is this output, condensed.
"""
import subprocess, sys, os, re, json
REPO = os.environ.get("SPOX_REPO", "/work/repo-c09")
VERIF = os.path.dirname(os.path.dirname(os.path.abspath(__file__)))
assert os.path.realpath(REPO) != "/repo", "mutations are never applied to /repo"
MUTS = {
 "M1-min-opset-13": ("src/spox/_internal_op.py", "INTERNAL_MIN_OPSET = 14", "INTERNAL_MIN_OPSET = 13"),
 "M2-policy-min": ("src/spox/_schemas.py", "return {domain: max(v for _, v in group) for domain, group in grouping}", "return {domain: min(v for _, v in group) for domain, group in grouping}"),
 "M3-no-fold": ("src/spox/_schemas.py", '    opset_req = {(k if k != "ai.onnx" else "", v) for k, v in opset_req}\n', ''),
 "M4-bodies-not-merged": ("src/spox/_build.py", "        opset_req |= subgraph_opset_req\n", ""),
 "M5-function-body-ignored": ("src/spox/_function.py", "        return node_opset_req | self.func_graph._get_build_result().opset_req", "        return node_opset_req"),
 "M6-inline-imports-ignored": ("src/spox/_inline.py", "        return {(imp.domain, imp.version) for imp in self.model.opset_import} | {", "        return set() | {"),
 "M7-same-schema-by-name": ("src/spox/_adapt.py", "            version_mismatch = source_schema != target_schema", "            version_mismatch = source_schema.name != target_schema.name"),
 "M8-nondefault-first": ("src/spox/_schemas.py", "return {domain: max(v for _, v in group) for domain, group in grouping}", "return {domain: (max if domain == '' else min)(v for _, v in group) for domain, group in grouping}"),
 "M9-revert-fresh-name-fix": ("src/spox/_adapt.py", 'f"{proto.name}__{name}" if name in introduced else name for name in names', 'name for name in names'),
 "M10-revert-inline-source-fix": ("src/spox/_adapt.py", "            for imp in node.model.opset_import\n", "            for imp in list(node.model.opset_import) + [onnx.helper.make_operatorsetid('', 14)]\n"),
 "M11-functions-without-model-opsets": ("src/spox/_graph.py", "proto = fun.to_onnx_function(extra_opset_req=opset_req)", "proto = fun.to_onnx_function()"),
 "M12-skip-subgraph-check-removed": ("src/spox/_adapt.py", "    if any(isinstance(attr, AttrGraph) for attr in node.attrs.get_fields().values()):\n        return None\n", ""),
 "M13-adapt-only-upgrades-by-one": ("src/spox/_adapt.py", "        target_version,\n        var_names,\n    )\n    return adapted", "        min(target_version, source_version + 1),\n        var_names,\n    )\n    return adapted"),
 "M14-inline-floor-dropped": ("src/spox/_inline.py", '''            ("", INTERNAL_MIN_OPSET)\n''', '''            ("", 1)\n'''),
 "M15-introduce-no-floor": ("src/spox/_internal_op.py", '        return {("", INTERNAL_MIN_OPSET)}', '        return set()'),
 "M16-target-from-max-plus": ("src/spox/_adapt.py", "    target_version = opsets[domain]\n", "    target_version = max(opsets.values())\n"),
 "M17-body-gets-own-plus-one": ("src/spox/_graph.py", "                self.get_opsets(),\n", "                {k: (v if k else max(v, 15)) for k, v in self.get_opsets().items()},\n"),
 "M18-function-imports-dropped-domain": ("src/spox/_function.py", "                for domain, version in graph.get_opsets().items()\n", "                for domain, version in graph.get_opsets().items() if domain in ('', self.op_type.domain)\n"),
 "M19-inline-hasdefault-always": ("src/spox/_adapt.py", "    if not seen_domains & {\"\", \"ai.onnx\"}:\n        return protos\n", ""),
 "M20-convert-twice-cache": ("src/spox/_adapt.py", "    if source_version == target_version:\n        return None\n", "    if source_version >= target_version - 0 and source_version >= 19:\n        return None\n"),
 "M21-revert-body-opsets-fix": ("src/spox/_build.py", ".with_opset(\n                *self.model_opset_req\n            )", ""),
 "M22-with-opset-shares-build-cache": ("src/spox/_graph.py", "self, _extra_opset_req=extra_opset_req, _build_result=_build.Cached()", "self, _extra_opset_req=extra_opset_req"),
 "M23-model-req-misses-extra": ("src/spox/_build.py", "set(self.main._extra_opset_req or ()).union(", "set().union("),
 "H3-model-req-from-main-graph-only": ("src/spox/_build.py", "*(node.opset_req for graph in self.graphs for node in self.scope_own[graph])", "*(node.opset_req for node in self.scope_own[self.main])"),
 "I1-inline-kept-when-other-domain-differs": ("src/spox/_adapt.py", '    target_version = target_opsets[""]\n', """    target_version = target_opsets[""]
    for imp in node.model.opset_import:
        if imp.domain not in ("", "ai.onnx") and target_opsets.get(imp.domain, imp.version) != imp.version:
            warnings.warn(RuntimeWarning(f"Node adapters are only supported for the default domain, but {imp.domain!r} is at {target_opsets[imp.domain]} versus requested {imp.version} of {node_name}."))
            return protos
"""),
 "I2-inline-converter-initializers-fix-reverted": ("src/spox/_adapt.py", "        _initializers_to_constants(target_model.graph)\n", ""),
 "O1-optional-identity-requirement-dropped": ("src/spox/_internal_op.py", "            return {(\"\", IDENTITY_OPTIONAL_MIN_OPSET)}\n        return {(\"\", INTERNAL_MIN_OPSET)}", "            return {(\"\", INTERNAL_MIN_OPSET)}\n        return {(\"\", INTERNAL_MIN_OPSET)}"),
 "O2-floor-only-when-optional": ("src/spox/_internal_op.py", "            return {(\"\", IDENTITY_OPTIONAL_MIN_OPSET)}\n        return {(\"\", INTERNAL_MIN_OPSET)}", "            return {(\"\", IDENTITY_OPTIONAL_MIN_OPSET)}\n        return set()"),
 "O3-optional-constant-15": ("src/spox/_internal_op.py", "IDENTITY_OPTIONAL_MIN_OPSET = 16", "IDENTITY_OPTIONAL_MIN_OPSET = 15"),
 "Q1-qualify-renames-the-results-too": ("src/spox/_adapt.py", "    known = set(proto.input) | set(proto.output)\n", "    known = set(proto.input)\n"),
 "Q2-qualify-renames-definitions-only": ("src/spox/_adapt.py", "        for names in (nd.input, nd.output):\n", "        for names in (nd.output,):\n"),
 "Q3-qualify-renames-the-empty-name": ("src/spox/_adapt.py", "name for nd in target_nodes for name in nd.output if name and name not in known", "name for nd in target_nodes for name in nd.output if name not in known"),
 "Q4-constants-after-the-nodes": ("src/spox/_adapt.py", "    nodes = constants + list(graph.node)\n", "    nodes = list(graph.node) + constants\n"),
 "Q5-input-defaults-become-constants-too": ("src/spox/_adapt.py", "        if init.name not in input_names\n", "        if True\n"),
 "G1-functions-get-default-domain-opsets-only": ("src/spox/_graph.py", "proto = fun.to_onnx_function(extra_opset_req=opset_req)", "proto = fun.to_onnx_function(extra_opset_req=[(d, v) for d, v in opset_req if d == ''])"),
}
# several edits at once: (name, [(file, old, new), ...])
MULTI = {
 "F1-converter-names-deduplicated-process-wide": [
    ("src/spox/_adapt.py", "def adapt_node(\n", """def _qualified(prefix: str, name: str, taken: set = set()) -> str:
    cand = f"{prefix}__{name}"
    k = 0
    while cand in taken:
        cand = f"{prefix}__{name}_{k}"
        k += 1
    taken.add(cand)
    return cand


def adapt_node(
"""),
    ("src/spox/_adapt.py", """    for nd in target_nodes:
        for names in (nd.input, nd.output):""", """    _ren = {name: _qualified(proto.name, name) for name in sorted(introduced)}
    for nd in target_nodes:
        for names in (nd.input, nd.output):"""),
    ("src/spox/_adapt.py", 'f"{proto.name}__{name}" if name in introduced else name for name in names', '_ren.get(name, name) for name in names'),
 ],
 "F2-converter-names-numbered-by-global-counter": [
    ("src/spox/_adapt.py", "def adapt_node(\n", "import itertools as _it\n_FRESH = _it.count()\n\n\ndef adapt_node(\n"),
    ("src/spox/_adapt.py", """    for nd in target_nodes:
        for names in (nd.input, nd.output):""", """    _ren = {name: f"{proto.name}__{name}_{next(_FRESH)}" for name in sorted(introduced)}
    for nd in target_nodes:
        for names in (nd.input, nd.output):"""),
    ("src/spox/_adapt.py", 'f"{proto.name}__{name}" if name in introduced else name for name in names', '_ren.get(name, name) for name in names'),
 ],
 "K1-adapted-protos-remembered-across-builds": [
    ("src/spox/_graph.py", "@dataclass(frozen=True, eq=False)\nclass Graph:", "import weakref\n_ADAPTED: 'weakref.WeakKeyDictionary' = weakref.WeakKeyDictionary()\n\n\n@dataclass(frozen=True, eq=False)\nclass Graph:"),
    ("src/spox/_graph.py", """            best_effort = adapt_best_effort(
                node,
                list(protos),
                self.get_opsets(),
                self._get_build_result().scope.var.name_of,
                self._get_build_result().scope.node.name_of,
            )
""", """            _key = (self._get_build_result().scope.node.name_of[node], tuple(sorted(self.get_opsets().items())))
            _memo = _ADAPTED.setdefault(node, {})
            if _key not in _memo:
                _memo[_key] = adapt_best_effort(
                    node,
                    list(protos),
                    self.get_opsets(),
                    self._get_build_result().scope.var.name_of,
                    self._get_build_result().scope.node.name_of,
                )
            best_effort = _memo[_key]
"""),
 ],
 "K2-adapted-protos-remembered-per-node-only": [
    ("src/spox/_graph.py", "@dataclass(frozen=True, eq=False)\nclass Graph:", "import weakref\n_ADAPTED: 'weakref.WeakKeyDictionary' = weakref.WeakKeyDictionary()\n\n\n@dataclass(frozen=True, eq=False)\nclass Graph:"),
    ("src/spox/_graph.py", """            best_effort = adapt_best_effort(
                node,
                list(protos),
                self.get_opsets(),
                self._get_build_result().scope.var.name_of,
                self._get_build_result().scope.node.name_of,
            )
""", """            _key = tuple(sorted(self.get_opsets().items()))
            _memo = _ADAPTED.setdefault(node, {})
            if _key not in _memo:
                _memo[_key] = adapt_best_effort(
                    node,
                    list(protos),
                    self.get_opsets(),
                    self._get_build_result().scope.var.name_of,
                    self._get_build_result().scope.node.name_of,
                )
            best_effort = _memo[_key]
"""),
 ],
 "E1-policy-groups-by-raw-domain": [
    ("src/spox/_schemas.py", '    opset_req = {(k if k != "ai.onnx" else "", v) for k, v in opset_req}\n', ''),
    ("src/spox/_schemas.py", "return {domain: max(v for _, v in group) for domain, group in grouping}", "return {(domain if domain != 'ai.onnx' else ''): max(v for _, v in group) for domain, group in grouping}"),
 ],
 "H1-function-body-req-moved-to-update-metadata": [
    ("src/spox/_function.py", "        return node_opset_req | self.func_graph._get_build_result().opset_req", "        return node_opset_req"),
    ("src/spox/_function.py", "        super().update_metadata(opset_req, initializers, functions)\n        functions.append(self)", "        super().update_metadata(opset_req, initializers, functions)\n        opset_req.update(self.func_graph._get_build_result().opset_req)\n        functions.append(self)"),
 ],
 "H2-same-schema-by-signature": [
    ("src/spox/_adapt.py", "            version_mismatch = source_schema != target_schema", """            def _sig(s):
                return (
                    [(p.name, p.option, p.type_str) for p in s.inputs],
                    [(p.name, p.option, p.type_str) for p in s.outputs],
                    sorted((n, a.type, a.required) for n, a in s.attributes.items()),
                    sorted((c.type_param_str, tuple(c.allowed_type_strs)) for c in s.type_constraints),
                )
            version_mismatch = _sig(source_schema) != _sig(target_schema)"""),
 ],
 "R1-rename-internals-and-policy-min": [
    ("src/spox/_adapt.py", "def adapt_node(", "def _adapt_single("),
    ("src/spox/_adapt.py", "    adapted = adapt_node(", "    adapted = _adapt_single("),
    ("src/spox/_schemas.py", "return {domain: max(v for _, v in group) for domain, group in grouping}", "return {domain: min(v for _, v in group) for domain, group in grouping}"),
 ],
 "R2-rename-compile-graph-and-drop-body-merge": [
    ("src/spox/_build.py", "compile_graph", "_compile"),
    ("src/spox/_build.py", "        opset_req |= subgraph_opset_req\n", ""),
 ],
}
def sh(cmd, **kw):
    return subprocess.run(cmd, shell=True, capture_output=True, text=True, **kw)
def main(names):
    env = dict(os.environ, SPOX_REPO=REPO)
    for name in names:
        edits = MULTI[name] if name in MULTI else [MUTS[name]]
        ok = True
        for f, old, new in edits:
            p = os.path.join(REPO, f)
            s = open(p).read()
            if old not in s:
                print(name, "PATTERN NOT FOUND", f, repr(old[:50])); ok = False; break
            open(p, "w").write(s.replace(old, new) if name.startswith("R2") and old == "compile_graph" else s.replace(old, new, 1))
        if not ok:
            sh(f"git -C {REPO} checkout -- ."); continue
        try:
            r = sh("./check C09 quick", env=env, cwd=VERIF)
            out = r.stdout + r.stderr
            viol = re.findall(r"VIOLATION property=C09 replay=(\S+)( no-failing-input-found)?", out)
            broken = re.findall(r"BROKEN (\w+): ([^\n]{0,110})", out)
            fails = re.findall(r"FAILURE ([^\n]{0,150})", out)
            print(f"== {name}: exit {r.returncode}; violations {len(viol)}; broken {len(broken)}")
            for b in broken[:3]: print("   BROKEN", b[0], b[1])
            for x in fails[:3]: print("   FAILURE", x)
            rep_mut = []
            for path, nf in viol[:2]:
                if nf: rep_mut.append((path, "obligation")); continue
                rr = sh(f"./check C09 --replay {path}", env=env, cwd=VERIF)
                rep_mut.append((path, rr.returncode))
        finally:
            sh(f"git -C {REPO} checkout -- .")
        for path, rc in rep_mut:
            if rc == "obligation": print("   replay: obligation-level"); continue
            rr = sh(f"./check C09 --replay {path}", env=env, cwd=VERIF)
            print(f"   replay {os.path.basename(path)}: mutant exit {rc}, clean exit {rr.returncode}")
    sh("/venv/bin/python -m translator.opset_facts", env=env, cwd=VERIF)
if __name__ == "__main__":
    main(sys.argv[1:] or (list(MUTS) + list(MULTI)))
