"""Apply each C05 mutation to the scratch repo, run the check, replay, revert. Prints a table."""
import json, os, re, subprocess, sys
from pathlib import Path
REPO = Path(os.environ.get("SPOX_REPO", "/work/repo-c05"))
ROOT = Path(__file__).resolve().parent.parent
S = "src/spox/_standard.py"; N = "src/spox/_node.py"; F = "src/spox/_fields.py"; V17 = "src/spox/opset/ai/onnx/v17.py"
MUTS = [
 ("B14a optional input shifted: omitted inner optionals dropped from the input list", N,
  'input_names = [scope.var[var] if var is not None else "" for var in self.inputs]',
  'input_names = [scope.var[var] for var in self.inputs if var is not None]'),
 ("B14b clip constructor passes max in the min slot", V17,
  "            min=min,\n            max=max,\n        ),\n    ).outputs.output\n\n\ndef compress(",
  "            min=max,\n            max=min,\n        ),\n    ).outputs.output\n\n\ndef compress("),
 ("strict_mode off", S, "check_type=True, strict_mode=True, data_prop=True", "check_type=True, strict_mode=False, data_prop=True"),
 ("check_type off", S, "check_type=True, strict_mode=True, data_prop=True", "check_type=False, strict_mode=True, data_prop=True"),
 ("data_prop off", S, "check_type=True, strict_mode=True, data_prop=True", "check_type=True, strict_mode=True, data_prop=False"),
 ("InferenceError swallowed into untyped outputs", S,
  '            raise type(e)(\n                f"{str(e)} -- for {self.schema.name}: {self.signature}"\n            ) from e',
  '            return {}'),
 ("reused Var renamed by every slot (guard dropped)", S,
  "        for key, var in self.inputs.get_vars().items():\n            if var not in scope.var:\n                scope.var[var] = key",
  "        for key, var in self.inputs.get_vars().items():\n            scope.var[var] = key"),
 ("value infos keyed by the Var's scope name (extra key of a reused Var typed under the first name only once)", S,
  "            var.unwrap_type()._to_onnx_value_info(key)\n            for key, var in self.inputs.get_vars().items()",
  "            var.unwrap_type()._to_onnx_value_info(key)\n            for key, var in list(self.inputs.get_vars().items())[:1] + [(k, self.inputs.get_vars()[list(self.inputs.get_vars())[0]]) for k in list(self.inputs.get_vars())[1:]]"),
 ("results mapped by position over sorted field names", S,
  "            info.name: Type._from_onnx(info.type)\n            for info in typed_model.graph.output",
  "            key: Type._from_onnx(info.type)\n            for key, info in zip(sorted(self.outputs.get_vars()), typed_model.graph.output)"),
 ("unk__ dims kept as symbolic", S, 'lambda x: x.startswith("unk__") and x not in given', 'lambda x: False'),
 ("only unk__0 stripped (exact match instead of prefix)", S, 'lambda x: x.startswith("unk__") and x not in given', 'lambda x: x == "unk__0" and x not in given'),
 ("initializer values not passed", S, "            if var._value and isinstance(var._value.value, np.ndarray)\n        ]", "            if False\n        ]"),
 ("opset import of the wrong version (+1)", S, "self.op_type.domain, self.op_type.version\n", "self.op_type.domain, self.op_type.version + 1\n"),
 ("opset import of the wrong version (-1)", S, "self.op_type.domain, self.op_type.version\n", "self.op_type.domain, max(1, self.op_type.version - 1)\n"),
 ("no trailing trimming of omitted optionals", N, "        while len(input_names) > self.min_input and not input_names[-1]:\n            input_names.pop()\n", ""),
 ("trimming ignores min_input", N, "while len(input_names) > self.min_input and not input_names[-1]:", "while input_names and not input_names[-1]:"),
 ("falsy attributes (0, 0.0, '') dropped from the node", N, "            if attr is not None:\n                if isinstance(attr, AttrGraph):", "            if attr is not None and (isinstance(attr, AttrGraph) or not isinstance(attr.value, (int, float)) or attr.value):\n                if isinstance(attr, AttrGraph):"),
 ("untyped short-circuit uses all() instead of any()", S, "if any(var.type is None for var in self.inputs.get_vars().values()):\n            return {}\n\n        model, _", "if all(var.type is None for var in self.inputs.get_vars().values()):\n            return {}\n\n        model, _"),
 ("variadic keys enumerated from 1", F, 'yield from ((f"{key}_{i}", v) for i, v in enumerate(value))', 'yield from ((f"{key}_{i}", v) for i, v in enumerate(value, 1))'),
 ("optional kind check dropped", F, "                if value is not None and not isinstance(value, Var):", "                if False:"),
 ("empty result types not dropped (Type._from_onnx on every output)", S, "            if info.type != onnx.TypeProto()\n", ""),
 ("existing output types overwritten only when inference gives one (types filled also when already set) - inverted guard", N, "            if var.type is None:  # If no existing type from init_output_vars", "            if var.type is not None:  # If no existing type from init_output_vars"),
 ("constructor: reduce_sum default keepdims 1 -> 0 (Python default differs from the schema default)", V17,
  "    keepdims: int = 1,\n    noop_with_empty_axes: int = 0,\n) -> Var:\n    r\"\"\"\n    Computes the sum of the input tensor's elements along the provided axes.",
  "    keepdims: int = 0,\n    noop_with_empty_axes: int = 0,\n) -> Var:\n    r\"\"\"\n    Computes the sum of the input tensor's elements along the provided axes."),
 ("Var types: symbolic dims dropped from value infos (Tensor._to_onnx)", "src/spox/_type_system.py",
  "            dtype_to_tensor_type(self._elem_type), self.shape\n",
  "            dtype_to_tensor_type(self._elem_type), None if self.shape is None else [d if isinstance(d, int) else None for d in self.shape]\n"),
 ("constructor: concat ignores its axis argument", V17, '            axis=AttrInt64(axis, name="axis"),\n        ),\n        _Concat.Inputs(', '            axis=AttrInt64(0, name="axis"),\n        ),\n        _Concat.Inputs('),
 ("dummy subgraph: every body output typed like the first one", S,
  "        value_infos.append(arr.unwrap_type()._to_onnx_value_info(outer))\n        out = f\"__dummy_output{i}\"\n        outputs.append(arr.unwrap_type()._to_onnx_value_info(out))",
  "        arr = list(graph.requested_results.values())[0]\n        value_infos.append(arr.unwrap_type()._to_onnx_value_info(outer))\n        out = f\"__dummy_output{i}\"\n        outputs.append(arr.unwrap_type()._to_onnx_value_info(out))"),
 ("new override: Abs gets its own infer_output_types (returns the input type without asking ONNX)", V17,
  "    op_type = OpType(\"Abs\", \"\", 13)\n", "    def infer_output_types(self):\n        return {\"Y\": self.inputs.X.type} if self.inputs.X.type is not None else {}\n\n    op_type = OpType(\"Abs\", \"\", 13)\n"),
 ("Compress fix reverted", V17, "        if self.inputs.input.type is None or self.inputs.condition.type is None:\n            return {}\n", ""),
 ("Compress no longer asks ONNX", V17, "        self.infer_output_types_onnx()\n        if self.inputs.input.type is None", "        if self.inputs.input.type is None"),
]
def sh(cmd, **kw):
    return subprocess.run(cmd, shell=True, capture_output=True, text=True, **kw)
def main():
    only = sys.argv[1:] 
    rows = []
    for i, (name, file, old, new) in enumerate(MUTS):
        if only and str(i) not in only: continue
        sh(f"git -C {REPO} checkout -- .")
        p = REPO / file
        s = p.read_text()
        if s.count(old) != 1:
            rows.append((i, name, f"PATTERN x{s.count(old)}")); print(rows[-1]); continue
        s2 = s.replace(old, new)
        if "np_any" in new:
            s2 = s2.replace("import onnx\n", "import onnx\n\ndef np_any(v):\n    try:\n        import numpy as _np\n        return _np.any(_np.asarray(v) != 0) if not isinstance(v, (str, bytes)) else bool(v)\n    except Exception:\n        return True\n", 1)
        p.write_text(s2)
        env = dict(os.environ, SPOX_REPO=str(REPO))
        r = sh(f"cd {ROOT} && ./check C05 quick", env=env)
        viol = re.findall(r"^VIOLATION property=C05 replay=(\S+)(.*)$", r.stdout, re.M)
        keys = re.findall(r"FAILURE (\S+):", r.stdout)
        broken = len(re.findall(r"BROKEN", r.stdout))
        rep_mut = rep_clean = None
        if viol:
            rp = viol[0][0]
            rep_mut = sh(f"cd {ROOT} && ./check C05 --replay {rp}", env=env).returncode
        sh(f"git -C {REPO} checkout -- .")
        if viol:
            rep_clean = sh(f"cd {ROOT} && ./check C05 --replay {rp}", env=env).returncode
        rows.append((i, name, f"exit={r.returncode} violations={len(viol)} nofail={'no-failing' in r.stdout} keys={keys[:4]} broken={broken} replay(mutant)={rep_mut} replay(clean)={rep_clean}"))
        print(rows[-1], flush=True)
    sh(f"git -C {REPO} checkout -- .")
main()
