#!/usr/bin/env python3
"""Mutation testing of the C01 check (FRAMEWORK.md rule 2).

Applies each realistic breaking change below to the scratch spox tree ($SPOX_REPO, never committed),
runs `./check C01 quick`, replays the reported file on the mutant and — after `git checkout -- .` —
on the clean tree, and prints one table row per mutant.

    SPOX_REPO=/work/repo-c01 python3 tools/mutants_c01.py [name ...] [--suite]

`--suite` additionally runs the repository's own test-suite on every mutant (slow) to show which
mutants it lets through.
"""
import os
import re
import subprocess
import sys
from pathlib import Path

V = Path(__file__).resolve().parent.parent
REPO = Path(os.environ.get("SPOX_REPO", "/work/repo-c01"))
assert REPO != Path("/repo"), "never mutate /repo"

# name -> (file, old, new, description)
MUTANTS = {
    "B1-dfs-ignores-subgraph-edges": (
        "src/spox/_build.py",
        """                (self.source_of[sub] for sub in nd.subgraphs),
""",
        """                (),
""",
        "Appendix B row 1: DFS in resolve_scopes no longer follows subgraph edges",
    ),
    "B4-name-counters-per-graph": (
        "src/spox/_build.py",
        """        nodes: Dict[Node, Tuple[onnx.NodeProto, ...]] = {}
        # A bunch of model metadata we're collecting
""",
        """        nodes: Dict[Node, Tuple[onnx.NodeProto, ...]] = {}
        if prefix:
            scope.node.base_name_counters = {}
            scope.var.base_name_counters = {}
            prefix = ""
        # A bunch of model metadata we're collecting
""",
        "Appendix B row 4: name counters made per graph (fresh counters, no prefix, for every body)",
    ),
    "M1-inner-optional-input-dropped": (
        "src/spox/_node.py",
        """        input_names = [scope.var[var] if var is not None else "" for var in self.inputs]
""",
        """        input_names = [scope.var[var] for var in self.inputs if var is not None]
""",
        "omitted inner optional input dropped instead of emitted as \"\" (Clip(x, None, hi) becomes Clip(x, hi))",
    ),
    "M2-two-outputs-swapped": (
        "src/spox/_node.py",
        """        while len(input_names) > self.min_input and not input_names[-1]:
""",
        """        if len(output_names) == 2 and self.op_type.identifier == "Split":
            output_names.reverse()
        while len(input_names) > self.min_input and not input_names[-1]:
""",
        "outputs of a two-output Split emitted in reverse order",
    ),
    "M3-body-result-wrong-index": (
        "src/spox/_internal_op.py",
        """                    [scope.var[self.inputs.inputs[i]]],
""",
        """                    [scope.var[self.inputs.inputs[i if i < 2 else len(self.inputs.inputs) + 1 - i]]],
""",
        "graph results wired to the wrong value from the third result on (results 2.. reversed)",
    ),
    "M4-first-use-scope-no-lca": (
        "src/spox/_build.py",
        """            self.scope_tree.scope_of[node] = self.scope_tree.lca(
                graph, self.scope_tree.scope_of[node]
            )
""",
        """            pass
""",
        "closure value stays in the scope of its first use (no LCA relaxation)",
    ),
    "M5-graph-topo-not-reversed": (
        "src/spox/_build.py",
        """        self.graph_topo.reverse()
""",
        """        pass
""",
        "scope tree relaxed children-first (graph_topo not reversed)",
    ),
    "M6-scope-order-by-creation": (
        "src/spox/_build.py",
        """            self.scope_own[graph] = sorted(
                graph_scope_set[graph], key=lambda nd: topo_index[nd]
            )
""",
        """            self.scope_own[graph] = sorted(
                graph_scope_set[graph],
                key=lambda nd: topo_index[nd] - (2.5 if any(True for _ in nd.subgraphs) else 0),
            )
""",
        "nodes owning bodies are moved two places earlier in their scope's order",
    ),
    "M7-lca-stops-at-first-common-depth": (
        "src/spox/_build.py",
        """            vis_a, vis_b = {a}, {b}
            while a not in vis_b:
""",
        """            vis_a, vis_b = {a}, {b}
            if self.parent(a) is b or self.parent(b) is a:
                return a if self.parent(b) is a else b
            while a not in vis_b:
                if self.parent(a) is a:
                    return b
""",
        "lca returns the other graph when one walker reaches the root (wrong for cousins below main)",
    ),
    "M8-subgraph-initializers-dropped": (
        "src/spox/_graph.py",
        """        initializer_tensors = [
            from_array(arr, name)
            for name, arr in self._get_initializers_by_name().items()
        ]
""",
        """        initializer_tensors = [
            from_array(arr, name)
            for name, arr in self._get_initializers_by_name().items()
            if not self._name or "_" not in self._name
        ]
""",
        "initializers that ended up in a body are not written into the body GraphProto",
    ),
    "M9-then-else-swapped-when-closing-over-same-value": (
        "src/spox/_node.py",
        """                    subgraph = build_subgraph(self, key, attr.value)
""",
        """                    subgraph = build_subgraph(self, key, attr.value)
                    if key == "then_branch" and len(subgraph.node) > 3:
                        for other in node_proto.attribute:
                            if other.name == "else_branch" and len(other.g.output) == len(subgraph.output):
                                other.g.name, subgraph.name = subgraph.name, other.g.name
                                tmp = onnx.GraphProto()
                                tmp.CopyFrom(other.g)
                                other.g.CopyFrom(subgraph)
                                subgraph = tmp
""",
        "then/else bodies exchanged when the then body has more than three nodes",
    ),
    # --- round 4 of held-out classes
    "G1-loop-invariant-hoisting": (
        "src/spox/_build.py",
        """        graph_scope_set: Dict[Any, Set[Node]] = {ctx: set() for ctx in self.graphs}
        for node, owner in self.scope_tree.scope_of.items():
""",
        """        changed = True
        while changed:  # hoist loop invariants out of iterated bodies
            changed = False
            for node, g in list(self.scope_tree.scope_of.items()):
                owner = self.scope_tree.subgraph_owner.get(g)
                if owner is None or owner.op_type.identifier not in ("Loop", "Scan", "SequenceMap"):
                    continue
                if isinstance(node, Argument) or node is self.source_of[g] or list(node.subgraphs):
                    continue
                if all(
                    self.scope_tree.scope_of.get(d._op) is not g
                    or (isinstance(d._op, Argument) and d not in self.arguments_of[g])
                    for d in node.dependencies
                ):
                    self.scope_tree.scope_of[node] = self.scope_tree.parent(g)
                    changed = True
        graph_scope_set: Dict[Any, Set[Node]] = {ctx: set() for ctx in self.graphs}
        for node, owner in self.scope_tree.scope_of.items():
""",
        "loop-invariant hoisting: a node in a Loop/Scan body none of whose inputs is defined in that body moves to the enclosing scope (evaluated once, unconditionally)",
    ),
    "H1-nodeproto-memo-without-input-names": (
        [
            ("src/spox/_node.py",
             """        node_proto = onnx.helper.make_node(
            self.op_type.identifier,
            input_names,
""",
             """        _memo = Node.__dict__.get("_MEMO")
        if _memo is None:
            _memo = {}
            Node._MEMO = _memo
        _key = (id(self), scope.node[self], tuple(output_names))
        if _key in _memo and not any(isinstance(a, AttrGraph) for a in self.attrs.get_fields().values()):
            return [_memo[_key][1]]
        node_proto = onnx.helper.make_node(
            self.op_type.identifier,
            input_names,
"""),
            ("src/spox/_node.py",
             """        return [node_proto]
""",
             """        _memo[_key] = (self, node_proto)
        return [node_proto]
"""),
        ],
        "NodeProto memo in Node.to_onnx keyed by node name + output names (not the input names): a later build of the same Node object with differently named inputs reuses the old wiring",
    ),
    # --- round 3 of held-out classes
    "E1-process-wide-pool-of-serialised-attributes": (
        "src/spox/_attributes.py",
        """        if self._cached_onnx is None:
            self._cached_onnx = self._to_onnx_deref()
        return self._cached_onnx
""",
        """        if self._cached_onnx is None:
            try:
                key = (type(self), self._name, self._value)
                hash(key)
            except TypeError:
                key = None
            pool = Attr.__dict__.get("_POOL")
            if pool is None:
                pool = {}
                Attr._POOL = pool
            if key is not None and key in pool:
                self._cached_onnx = pool[key]
            else:
                self._cached_onnx = self._to_onnx_deref()
                if key is not None:
                    pool[key] = self._cached_onnx
        return self._cached_onnx
""",
        "process-wide pool of serialised AttributeProtos keyed by (class, name, value): ==-equal values (0.0 / -0.0, np.float32(2) / np.int64(2)) share the first one's serialisation",
    ),
    "F1-recursive-dfs": (
        "src/spox/_traverse.py",
        """    postorder: List[V] = []
    visited: Set[V] = set()
    stack: Set[V] = set()
""",
        """    postorder: List[V] = []
    visited: Set[V] = set()
    stack: Set[V] = set()

    def _dfs(u):
        if u in stack and raise_on_cycle:
            raise RuntimeError("The graph contains a cycle. Was the structure tampered with?")
        if u in visited:
            return
        visited.add(u)
        stack.add(u)
        for v in adj(u):
            _dfs(v)
        if post_callback is not None:
            post_callback(u)
        postorder.append(u)
        stack.remove(u)

    for s in sources:
        _dfs(s)
    return postorder
""",
        "iterative_dfs rewritten recursively: same post-order, one Python frame per operator on the longest dependency path",
    ),
    # --- round 2 of held-out classes
    "Q1-scopes-relaxed-from-a-fifo-worklist": (
        [
            ("src/spox/_build.py",
             """        for graph in self.graph_topo:
            self.update_scope_tree(graph)
""",
             """        queue, seen = [self.main], {self.main}
        while queue:
            for sub in self.update_scope_tree(queue.pop(0)):
                if sub not in seen:
                    seen.add(sub)
                    queue.append(sub)
"""),
            ("src/spox/_build.py",
             """        def satisfy_constraints(node):
            # By default, a node is bound to the scope it is found in.
            self.scope_tree.scope_of.setdefault(node, graph)
""",
             """        fresh: list = []

        def satisfy_constraints(node):
            # By default, a node is bound to the scope it is found in.
            if node not in self.scope_tree.scope_of:
                fresh.extend(node.subgraphs)
            self.scope_tree.scope_of.setdefault(node, graph)
"""),
            ("src/spox/_build.py",
             """            lambda nd: (a._op for a in nd.dependencies),
            satisfy_constraints,
        )

    def resolve_scopes""",
             """            lambda nd: (a._op for a in nd.dependencies),
            satisfy_constraints,
        )
        return fresh

    def resolve_scopes"""),
        ],
        "graph_topo replaced by a FIFO work-list over scopes; a body may be processed before its owner node got its final scope",
    ),
    "Q2-subgraph-requirements-in-instance-attributes": (
        [
            ("src/spox/_build.py",
             """        subgraph_opset_req = set()  # Keeps track of all opset imports in subgraphs
        # Keeps track of all functions used in subgraphs
        subgraph_functions: List[_function.Function] = []
""",
             """        self._sub_opset_req = subgraph_opset_req = set()
        self._sub_functions = subgraph_functions = []
"""),
            ("src/spox/_build.py",
             """            subgraph_opset_req |= subgraph._get_build_result().opset_req
            subgraph_functions.extend(subgraph._get_build_result().functions)
""",
             """            self._sub_opset_req |= subgraph._get_build_result().opset_req
            self._sub_functions.extend(subgraph._get_build_result().functions)
"""),
            ("src/spox/_build.py",
             """        opset_req |= subgraph_opset_req
        functions.extend(subgraph_functions)
""",
             """        opset_req |= self._sub_opset_req
        functions.extend(self._sub_functions)
"""),
        ],
        "per-call accumulators of build_subgraph became instance attributes reset by every (re-entrant) compile_graph: only the last-compiled body's requirements reach the model",
    ),
    # --- the two classes of the held-out mutants that the first version of the check missed
    "C1a-lca-cousins-at-different-depth-go-to-root": (
        "src/spox/_build.py",
        """            vis_a, vis_b = {a}, {b}
            while a not in vis_b:
""",
        """            def chain(g):
                out = [g]
                while self.parent(out[-1]) is not out[-1]:
                    out.append(self.parent(out[-1]))
                return out

            ca, cb = chain(a), chain(b)
            if a in cb:
                return a
            if b in ca:
                return b
            while a is not b:  # walks both up in lockstep: right only for cousins of equal depth
                a, b = self.parent(a), self.parent(b)
            return a
            vis_a, vis_b = {a}, {b}
            while a not in vis_b:
""",
        "lca handles ancestors and equal-depth cousins, sends cousins of different depth to the root",
    ),
    "C1b-no-relaxation-when-met-from-a-shallower-graph": (
        "src/spox/_build.py",
        """            self.scope_tree.scope_of[node] = self.scope_tree.lca(
                graph, self.scope_tree.scope_of[node]
            )
""",
        """            def depth(g):
                d = 0
                while self.scope_tree.parent(g) is not g:
                    g, d = self.scope_tree.parent(g), d + 1
                return d

            cur = self.scope_tree.scope_of[node]
            if depth(graph) >= depth(cur) or self.scope_tree.lca(graph, cur) is graph:
                self.scope_tree.scope_of[node] = self.scope_tree.lca(graph, cur)
""",
        "a value first placed in a deeper graph is not relaxed when met again from a shallower cousin",
    ),
    "C1c-parent-of-a-scope-memoised": (
        "src/spox/_build.py",
        """            return (
                self.scope_of[self.subgraph_owner[graph]]
                if graph in self.subgraph_owner
                else graph
            )
""",
        """            if not hasattr(self, "_memo"):
                self._memo = {}
            if graph not in self._memo:
                self._memo[graph] = (
                    self.scope_of[self.subgraph_owner[graph]]
                    if graph in self.subgraph_owner
                    else graph
                )
            return self._memo[graph]
""",
        "ScopeTree.parent memoised: stale once the owner of a body is relaxed to an outer scope later (order-sensitive)",
    ),
    "C2-tensors-kept-and-serialised-in-memory-order": (
        [
            ("src/spox/_attributes.py", "        super().__init__(value.copy(), name)\n\n    def _to_onnx_deref(self) -> AttributeProto:\n        return make_attribute(self._name, from_array(self.value))",
             "        super().__init__(value.copy(order=\"K\"), name)\n\n    def _to_onnx_deref(self) -> AttributeProto:\n        return make_attribute(self._name, from_array(self.value))"),
            ("src/spox/_utils.py", "        ).flatten(),\n", "        ).flatten(order=\"K\"),\n"),
        ],
        "tensor attributes keep the source's memory layout and are flattened in memory order (transposed / Fortran sources are permuted)",
    ),
    "C2b-raw-bytes-of-the-buffer": (
        [
            ("src/spox/_attributes.py", "        super().__init__(value.copy(), name)\n\n    def _to_onnx_deref(self) -> AttributeProto:\n        return make_attribute(self._name, from_array(self.value))",
             "        super().__init__(value.copy(order=\"A\"), name)\n\n    def _to_onnx_deref(self) -> AttributeProto:\n        return make_attribute(self._name, from_array(self.value))"),
            ("src/spox/_utils.py", "        ).flatten(),\n", "        ).ravel(order=\"A\"),\n"),
        ],
        "copy(order='A') + ravel(order='A'): Fortran-contiguous sources are written column-major",
    ),
    # --- subtler ones (aimed at passing the repository's own suite)
    "S1-hoist-one-scope-too-far": (
        "src/spox/_build.py",
        """            self.scope_tree.scope_of[node] = self.scope_tree.lca(
                graph, self.scope_tree.scope_of[node]
            )
""",
        """            cur = self.scope_tree.scope_of[node]
            self.scope_tree.scope_of[node] = (
                cur if cur is graph else self.scope_tree.lca(graph, self.scope_tree.parent(cur))
            )
""",
        "relaxation goes through the parent of the current scope (a value re-met from a deeper scope is hoisted one scope too far)",
    ),
    "S2-results-miswired-from-5th": (
        "src/spox/_internal_op.py",
        """                    [scope.var[self.inputs.inputs[i]]],
""",
        """                    [scope.var[self.inputs.inputs[i if i < 3 else len(self.inputs.inputs) + 2 - i]]],
""",
        "graph results wired to the wrong value from the 4th result on",
    ),
    "S3-three-output-split-last-two-swapped": (
        "src/spox/_node.py",
        """        while len(input_names) > self.min_input and not input_names[-1]:
""",
        """        if len(output_names) == 3 and self.op_type.identifier == "Split":
            output_names[1], output_names[2] = output_names[2], output_names[1]
        while len(input_names) > self.min_input and not input_names[-1]:
""",
        "last two outputs of a three-output Split exchanged",
    ),
    "S4-input-names-assigned-in-sorted-order": (
        "src/spox/_public.py",
        """        for name, arg in kwargs.items():
            pre[arg] = arg._name
""",
        """        for name, arg in zip(sorted(kwargs), kwargs.values()):
            pre[arg] = arg._name
""",
        "_temporary_renames pairs the sorted input names with the arguments in dict order",
    ),
    "S5-result-names-assigned-in-sorted-order": (
        "src/spox/_build.py",
        """        for key, var in zip(request_results, vars):
""",
        """        for key, var in zip(sorted(request_results), vars):
""",
        "main results renamed with the sorted output names",
    ),
    "S6-deep-body-initializers-dropped": (
        "src/spox/_graph.py",
        """        initializer_tensors = [
            from_array(arr, name)
            for name, arr in self._get_initializers_by_name().items()
        ]
""",
        """        initializer_tensors = [
            from_array(arr, name)
            for name, arr in self._get_initializers_by_name().items()
            if not self._name or self._name.count("__") < 1
        ]
""",
        "initializers that ended up in a body nested two levels deep are not written out",
    ),
    "S7-subgraph-edges-followed-before-inputs-only-for-first-body": (
        "src/spox/_build.py",
        """                (self.source_of[sub] for sub in nd.subgraphs),
""",
        """                (self.source_of[sub] for sub in list(nd.subgraphs)[:1] if len(list(nd.dependencies)) < 3),
""",
        "DFS in resolve_scopes follows only the first body, and no body of nodes with >= 3 inputs",
    ),
    # --- refactorings of the internals the harness observes, combined with a real breakage
    "R1-build_main-renamed+optional-dropped": (
        [
            ("src/spox/_build.py", "    def build_main(self) -> BuildResult:", "    def run_build(self) -> BuildResult:"),
            ("src/spox/_graph.py", "_build.Builder(self).build_main()", "_build.Builder(self).run_build()"),
            ("src/spox/_node.py",
             """        input_names = [scope.var[var] if var is not None else "" for var in self.inputs]
""",
             """        input_names = [scope.var[var] for var in self.inputs if var is not None]
"""),
        ],
        "Builder.build_main renamed to run_build (harness hook gone) AND inner optional inputs dropped",
    ),
    "R2-name_of-renamed+results-miswired": (
        [
            ("src/spox/_scope.py", "name_of", "names"),
            ("src/spox/_graph.py", "name_of", "names"),
            ("src/spox/_internal_op.py",
             """                    [scope.var[self.inputs.inputs[i]]],
""",
             """                    [scope.var[self.inputs.inputs[i if i < 2 else len(self.inputs.inputs) + 1 - i]]],
"""),
        ],
        "ScopeSpace.name_of renamed to names everywhere (witness unreadable) AND results 2.. reversed",
    ),
    "R3-build_main-renamed-only": (
        [
            ("src/spox/_build.py", "    def build_main(self) -> BuildResult:", "    def run_build(self) -> BuildResult:"),
            ("src/spox/_graph.py", "_build.Builder(self).build_main()", "_build.Builder(self).run_build()"),
        ],
        "harmless refactoring only: Builder.build_main renamed (expected: no-failing-input-found, exit 1, never exit 2)",
    ),
}


def sh(cmd, **kw):
    return subprocess.run(cmd, shell=True, capture_output=True, text=True, **kw)


def clean():
    sh(f"git -C {REPO} checkout -- .")


def main():
    names = [a for a in sys.argv[1:] if not a.startswith("--")] or list(MUTANTS)
    suite = "--suite" in sys.argv
    env = dict(os.environ, SPOX_REPO=str(REPO))
    rows = []
    for name in names:
        spec = MUTANTS[name]
        parts = spec[0] if isinstance(spec[0], list) else [spec[:3]]
        clean()
        applies = True
        for f, old, new in parts:
            p = REPO / f
            src = p.read_text()
            if old not in src:
                applies = False
                break
            p.write_text(src.replace(old, new))
        if not applies:
            clean()
            rows.append((name, "PATCH DOES NOT APPLY", "", "", ""))
            continue
        try:
            r = sh(f"cd {V} && ./check C01 quick", env=env)
            out = r.stdout + r.stderr
            viol = re.findall(r"^VIOLATION property=C01 replay=(\S+)(.*)$", out, re.M)
            keys = re.findall(r"FAILURE (\S+):", out)
            broken = sorted(set(re.findall(r"BROKEN (\w+): ([^\n]{0,60})", out)))
            rep_mut = rep_clean = "-"
            replay = None
            for path, rest in viol:
                if "no-failing-input-found" not in rest:
                    replay = path
                    break
            if replay:
                rep_mut = sh(f"cd {V} && ./check C01 --replay {replay}", env=env).returncode
            st = ""
            if suite:
                t = sh(f"cd {REPO} && PYTHONPATH={REPO}/src /venv/bin/python -m pytest -q -p no:cacheprovider -x -q tests 2>&1 | tail -1")
                st = t.stdout.strip()[-60:]
        finally:
            clean()
        if replay:
            rep_clean = sh(f"cd {V} && ./check C01 --replay {replay}", env=env).returncode
        rows.append((name, f"exit {r.returncode}", ",".join(sorted(set(keys))) or ("no-failing-input-found" if viol else "-"),
                     f"replay mutant={rep_mut} clean={rep_clean}", f"broken={len(broken)} {st}"))
        print(rows[-1], flush=True)
    print()
    for row in rows:
        print("| " + " | ".join(str(c) for c in row) + " |")


if __name__ == "__main__":
    main()
