"""Value propagation leaking into the reported types."""
import os, re, subprocess, sys
from pathlib import Path
REPO = Path(os.environ.get("SPOX_REPO", "/work/repo-c05"))
ROOT = Path(__file__).resolve().parent.parent
N = "src/spox/_node.py"
def sh(cmd, **kw): return subprocess.run(cmd, shell=True, capture_output=True, text=True, **kw)
MUTS = {
 "a propagated value pins every dimension of the output type (unknown dims / rank rewritten)":
   [(N, "                if prop.check():\n                    var._value = prop\n",
        "                if prop.check():\n                    var._value = prop\n                    _t = var.type\n                    if hasattr(_t, 'shape') and hasattr(prop.value, 'shape') and (_t.shape is None or any(not isinstance(d, int) for d in _t.shape)):\n                        var.type = type(_t)(_t.dtype, tuple(prop.value.shape))\n")],
 "a propagated value fixes the rank of an output whose inferred rank is unknown (onnxruntime backend only)":
   [(N, "                if prop.check():\n                    var._value = prop\n",
        "                if prop.check():\n                    var._value = prop\n                    from . import _value_prop as _vp\n                    _t = var.type\n                    if _vp._VALUE_PROP_BACKEND == _vp.ValuePropBackend.ONNXRUNTIME and hasattr(_t, 'shape') and hasattr(prop.value, 'shape') and (_t.shape is None or None in _t.shape):\n                        var.type = type(_t)(_t.dtype, tuple(prop.value.shape))\n")],
}
for name, edits in MUTS.items():
    if len(sys.argv) > 1 and not any(a in name for a in sys.argv[1:]): continue
    sh(f"git -C {REPO} checkout -- .")
    for file, old, new in edits:
        p = REPO / file; s = p.read_text(); assert s.count(old) == 1, (name, s.count(old)); p.write_text(s.replace(old, new))
    env = dict(os.environ, SPOX_REPO=str(REPO))
    t = sh(f"cd {REPO} && PYTHONPATH={REPO}/src /venv/bin/python -m pytest -p no:cacheprovider -x -q tests 2>&1 | grep -E 'passed|failed' | tail -1")
    r = sh(f"cd {ROOT} && ./check C05 quick", env=env)
    viol = re.findall(r"^VIOLATION property=C05 replay=(\S+)(.*)$", r.stdout, re.M)
    keys = re.findall(r"FAILURE (\S+):", r.stdout)
    res = [sh(f"cd {ROOT} && ./check C05 --replay {rp}", env=env).returncode for rp, _ in viol[:3]]
    sh(f"git -C {REPO} checkout -- .")
    resc = [sh(f"cd {ROOT} && ./check C05 --replay {rp}", env=env).returncode for rp, _ in viol[:3]]
    print(name, "| suite:", t.stdout.strip()[:70], "| exit", r.returncode, "| violations", len(viol), "nofail" if "no-failing" in r.stdout else "", "| keys", keys[:6], "| replay mutant", res, "clean", resc, flush=True)
    if viol: print(open(viol[0][0]).read()[:900])
sh(f"git -C {REPO} checkout -- .")
