#!/bin/bash
# Lead-side helper: merge an agent's framework branch (dev-<G>) into /verif main and cherry-pick its
# `fix:` commits (branch scratch-<G> of /repo) into /repo. Generated files (MANIFEST.json,
# known_findings.json, DESIGN.md) are always re-assembled, never merged.
#   tools/merge_agent.sh <G>
set -u
G="$1"
cd /verif || exit 2
git checkout -q -- evidence lean/SpoxModel/Generated 2>/dev/null   # rewritten by every run; never block a merge
if [ -n "$(git status --porcelain)" ]; then git add -A; git commit -qm "wip before merging dev-$G"; fi
git merge --no-edit -X theirs "dev-$G" 2>&1 | tail -3
# conflicts in generated files: take ours, regenerate below
for f in MANIFEST.json known_findings.json DESIGN.md; do
  if git status --porcelain | grep -q "^UU $f\|^AA $f"; then git checkout --ours "$f"; git add "$f"; fi
done
if git status --porcelain | grep -q '^\(UU\|AA\|DU\|UD\)'; then echo "UNRESOLVED CONFLICTS:"; git status --porcelain | grep '^\(UU\|AA\|DU\|UD\)'; exit 1; fi
git commit --no-edit -q 2>/dev/null
# fixes
for sha in $(git -C /repo log --reverse --format=%h "main..scratch-$G"); do
  msg=$(git -C /repo log -1 --format=%s "$sha")
  if git -C /repo log --format=%s 76a2470..main | grep -qxF "$msg"; then continue; fi   # already on main
  case "$msg" in
    fix:*) echo "cherry-pick $sha $msg"; git -C /repo cherry-pick "$sha" >/dev/null 2>&1 || { echo "  CHERRY-PICK CONFLICT $sha"; git -C /repo cherry-pick --abort; } ;;
    *) echo "skipping non-fix commit $sha $msg" ;;
  esac
done
git -C /repo log --oneline | head -12
