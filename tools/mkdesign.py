#!/usr/bin/env python3
"""Insert design.d/Cxx.md (per-property as-built status) into DESIGN.md between the STATUS markers."""
from pathlib import Path

V = Path(__file__).resolve().parent.parent
d = (V / "DESIGN.md").read_text()
a, b = d.index("<!-- STATUS-BEGIN -->"), d.index("<!-- STATUS-END -->")
body = "\n\n".join(p.read_text().strip() for p in sorted((V / "design.d").glob("C*.md")))
extra = V / "design.d" / "seeded.md"
if extra.exists():
    body += "\n\n" + extra.read_text().strip()
import json
rf = V / "seeded" / "RESULTS.json"
if rf.exists():
    res = json.loads(rf.read_text())
    rows = []
    for k in sorted(res):
        m = json.loads((V / "seeded" / k / "meta.json").read_text())
        rows.append(f"| {k} | {m['property']} | {m.get('breaks','')[:160].replace('|','/')} | {res[k]['outcome']} |")
    n = len(res); c = sum(1 for v in res.values() if v["outcome"] == "caught"); o = sum(1 for v in res.values() if v["outcome"] == "caught-obligation-only")
    body += ("\n\n### Seeded changes (held-out, written by fresh sub-agents from the property text only) vs. the checks\n\n"
             f"{n} changes; {c} caught with a concrete failing input, {o} caught at obligation/correspondence level only "
             f"(`no-failing-input-found`), {n-c-o} missed or not applicable. Each row: `tools/seeded.py run seeded/<id>` "
             "(apply to /repo, run the property's quick check, undo). Where a change was missed the responsible generator/oracle was "
             "extended afterwards (families described in design.d/Cxx.md); the table shows the state of the committed checks.\n\n"
             "| id | property | what it breaks | quick check |\n|---|---|---|---|\n" + "\n".join(rows) + "\n")
(V / "DESIGN.md").write_text(d[:a] + "<!-- STATUS-BEGIN -->\n" + body + "\n" + d[b:])
print("DESIGN.md updated")
