#!/usr/bin/env python3
"""Insert design.d/Cxx.md (per-property as-built status) into DESIGN.md between the STATUS markers."""
from pathlib import Path

V = Path(__file__).resolve().parent.parent
d = (V / "DESIGN.md").read_text()
a, b = d.index("<!-- STATUS-BEGIN -->"), d.index("<!-- STATUS-END -->")
body = "\n\n".join(p.read_text().strip() for p in sorted((V / "design.d").glob("C*.md")))
extra = V / "design.d" / "seeded.md"
if extra.exists():
    body += "\n\n" + extra.read_text().strip()
(V / "DESIGN.md").write_text(d[:a] + "<!-- STATUS-BEGIN -->\n" + body + "\n" + d[b:])
print("DESIGN.md updated")
