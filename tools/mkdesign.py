#!/usr/bin/env python3
"""Insert design.d/Cxx.md (per-property as-built status) into DESIGN.md between the STATUS markers."""
from pathlib import Path

V = Path(__file__).resolve().parent.parent
d = (V / "DESIGN.md").read_text()
a, b = d.index("<!-- STATUS-BEGIN -->"), d.index("<!-- STATUS-END -->")
body = "\n\n".join(p.read_text().strip() for p in sorted((V / "design.d").glob("C*.md")))
extra = V / "design.d" / "seeded.md"
if extra.exists():
    body += "\n\n" + extra.read_text().strip()
import json
# ---- summary table (measured: evidence files, findings.d, seeded results)
rows = []
allk = allf = 0
res_all = json.loads((V / "seeded" / "RESULTS.json").read_text()) if (V / "seeded" / "RESULTS.json").exists() else {}
for pid in [json.loads(l)["id"] for l in (V / "properties.jsonl").read_text().splitlines() if l.strip()]:
    ev = V / "evidence" / f"{pid}.json"
    ob = dis = "-"; wall = "-"
    if ev.exists():
        e = json.loads(ev.read_text()); ob = e["coverage"].get("obligations", "-"); dis = e["coverage"].get("discharged", "-"); wall = e.get("wall_s", "-")
    fd = V / "findings.d" / f"{pid}.json"
    k = f = 0
    if fd.exists():
        for x in json.loads(fd.read_text()).get("findings", []):
            if x.get("status") == "known": k += 1
            elif str(x.get("status", "")).startswith("fixed"): f += 1
    allk += k; allf += f
    sd = {n: v for n, v in res_all.items() if n.startswith(pid + "-")}
    sc = sum(1 for v in sd.values() if v["outcome"] == "caught"); so = sum(1 for v in sd.values() if v["outcome"] == "caught-obligation-only")
    claimed = (V / "manifest.d" / f"{pid}.json").exists()
    rows.append(f"| {pid} | {'yes' if claimed else 'parked'} | {dis}/{ob} | {f} | {k} | {sc}+{so}/{len(sd)} | {wall} |")
summary = ("### 11.1 Summary (generated from evidence/, findings.d/, seeded/RESULTS.json)\n\n"
           "| property | claimed | theorems discharged / audited (last quick run) | defects fixed in /repo (`fix:` entries) | known findings | seeded changes caught (concrete+obligation-only / total) | quick wall s |\n|---|---|---|---|---|---|---|\n"
           + "\n".join(rows) + f"\n\nTotals: {allf} `fixed:` entries, {allk} known findings.\n")
body = summary + "\n" + body
rf = V / "seeded" / "RESULTS.json"
if rf.exists():
    res = json.loads(rf.read_text())
    rows = []
    for k in sorted(res):
        m = json.loads((V / "seeded" / k / "meta.json").read_text())
        rows.append(f"| {k} | {m['property']} | {m.get('breaks','')[:160].replace('|','/')} | {res[k]['outcome']} |")
    n = len(res); c = sum(1 for v in res.values() if v["outcome"] == "caught"); o = sum(1 for v in res.values() if v["outcome"] == "caught-obligation-only")
    body += ("\n\n### Seeded changes (held-out, written by fresh sub-agents from the property text only) vs. the checks\n\n"
             f"{n} changes; {c} caught with a concrete failing input, {o} caught at obligation/correspondence level only "
             f"(`no-failing-input-found`), {n-c-o} missed or not applicable. Each row: `tools/seeded.py run seeded/<id>` "
             "(apply to /repo, run the property's quick check, undo). Where a change was missed the responsible generator/oracle was "
             "extended afterwards (families described in design.d/Cxx.md); the table shows the state of the committed checks.\n\n"
             "| id | property | what it breaks | quick check |\n|---|---|---|---|\n" + "\n".join(rows) + "\n")
(V / "DESIGN.md").write_text(d[:a] + "<!-- STATUS-BEGIN -->\n" + body + "\n" + d[b:])
print("DESIGN.md updated")
