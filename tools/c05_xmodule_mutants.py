"""Round 10 (held-out class): a memo of SUCCESSFUL inference answers keyed on the serialised one-node
graph without the opset import - the newer module's answer is served to the same-named older constructor."""
import os, re, subprocess, sys
from pathlib import Path
REPO = Path(os.environ.get("SPOX_REPO", "/work/repo-c05"))
ROOT = Path(__file__).resolve().parent.parent
S = "src/spox/_standard.py"
def sh(cmd, **kw): return subprocess.run(cmd, shell=True, capture_output=True, text=True, **kw)
MUTS = {
 "memo of accepted answers keyed on graph bytes without the opset import":
   [(S, "        model, _ = self.to_singleton_onnx_model()\n\n        # Attempt to do shape inference",
        "        model, _ = self.to_singleton_onnx_model()\n        _key = model.graph.SerializeToString()\n        _memo = StandardNode.__dict__.get('_ok_memo')\n        if _memo is None:\n            _memo = {}\n            StandardNode._ok_memo = _memo\n        if _key in _memo:\n            return dict(_memo[_key])\n\n        # Attempt to do shape inference"),
    (S, "        return {\n            key: _strip_dim_symbol(\n                type_, lambda x: x.startswith(\"unk__\") and x not in given\n            )\n            for key, type_ in results.items()\n        }\n",
        "        _memo[_key] = {\n            key: _strip_dim_symbol(\n                type_, lambda x: x.startswith(\"unk__\") and x not in given\n            )\n            for key, type_ in results.items()\n        }\n        return dict(_memo[_key])\n")],
}
for name, edits in MUTS.items():
    sh(f"git -C {REPO} checkout -- .")
    for file, old, new in edits:
        p = REPO / file; s = p.read_text(); assert s.count(old) == 1, (name, s.count(old)); p.write_text(s.replace(old, new))
    env = dict(os.environ, SPOX_REPO=str(REPO))
    t = sh(f"cd {REPO} && PYTHONPATH={REPO}/src /venv/bin/python -m pytest -p no:cacheprovider -x -q tests 2>&1 | grep -E 'passed|failed' | tail -1")
    r = sh(f"cd {ROOT} && ./check C05 quick", env=env)
    viol = re.findall(r"^VIOLATION property=C05 replay=(\S+)(.*)$", r.stdout, re.M)
    res = [sh(f"cd {ROOT} && ./check C05 --replay {rp}", env=env).returncode for rp, _ in viol[:2]]
    sh(f"git -C {REPO} checkout -- .")
    resc = [sh(f"cd {ROOT} && ./check C05 --replay {rp}", env=env).returncode for rp, _ in viol[:2]]
    print(name, "| suite:", t.stdout.strip()[:70], "| exit", r.returncode, "| violations", [(Path(a).name, b.strip()[:80]) for a, b in viol[:6]], "| replay mutant", res, "clean", resc, flush=True)
    if viol: print(open(viol[0][0]).read()[:1200])
sh(f"git -C {REPO} checkout -- .")
