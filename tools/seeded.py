#!/usr/bin/env python3
"""Seeded-change bookkeeping.

  tools/seeded.py validate <dir>       confirm (in a throw-away worktree of /repo, removed afterwards) that
                                       the patch applies, the repo test-suite passes with it, demo.py fails
                                       with it and passes without it
  tools/seeded.py run <dir> [tier]     apply the patch to /repo, run ./check <property> <tier>, undo it;
                                       prints CAUGHT / MISSED
  tools/seeded.py runall [tier]        run every /verif/seeded/*/ against its property's check

<dir> holds patch.diff, demo.py, meta.json ({"property": "Cxx", ...}).
Nothing is ever committed to /repo.
"""
import json
import os
import subprocess
import sys
import tempfile
from pathlib import Path

V = Path(__file__).resolve().parent.parent
REPO = Path("/repo")
PY = "/venv/bin/python"


def sh(cmd, cwd=None, env=None, timeout=3600):
    e = dict(os.environ)
    if env:
        e.update(env)
    return subprocess.run(cmd, shell=True, cwd=cwd, env=e, capture_output=True, text=True, timeout=timeout)


def validate(d: Path) -> dict:
    wt = Path(tempfile.mkdtemp(prefix="seedval-", dir="/tmp"))
    wt.rmdir()
    res = {}
    try:
        r = sh(f"git -C {REPO} worktree add -q --detach {wt} HEAD")
        assert r.returncode == 0, r.stderr
        env = {"PYTHONPATH": f"{wt}/src"}
        r = sh(f"{PY} {d / 'demo.py'}", cwd=wt, env=env)
        res["demo_clean_passes"] = r.returncode == 0
        res["demo_clean_tail"] = (r.stdout + r.stderr)[-300:]
        r = sh(f"git apply {d / 'patch.diff'}", cwd=wt)
        res["applies"] = r.returncode == 0
        if not res["applies"]:
            res["apply_err"] = r.stderr[-300:]
            return res
        r = sh(f"{PY} -m pytest -q -p no:cacheprovider -x tests 2>&1 | tail -3", cwd=wt, env=env)
        res["suite_tail"] = r.stdout.strip()[-200:]
        import re as _re
        res["suite_passes"] = bool(_re.search(r"\b\d+ passed", r.stdout)) and not _re.search(r"\b\d+ (failed|error)", r.stdout)
        r = sh(f"{PY} {d / 'demo.py'}", cwd=wt, env=env)
        res["demo_mutant_fails"] = r.returncode != 0
        res["demo_mutant_tail"] = (r.stdout + r.stderr)[-300:]
    finally:
        sh(f"git -C {REPO} worktree remove --force {wt}")
    return res


def run(d: Path, tier: str = "quick") -> bool:
    """Run the property's check against the change. The patch is applied in a throw-away worktree of /repo HEAD
    (SPOX_REPO points the framework at it), so /repo itself and anything else running against it are not disturbed;
    equivalent to `git -C /repo apply`, run, `git -C /repo checkout -- .`."""
    meta = json.loads((d / "meta.json").read_text())
    pid = meta["property"]
    wt = Path(tempfile.mkdtemp(prefix="seedrun-", dir="/tmp"))
    wt.rmdir()
    r0 = sh(f"git -C {REPO} worktree add -q --detach {wt} HEAD")
    assert r0.returncode == 0, r0.stderr
    ev = V / "evidence" / f"{pid}.json"
    ev_saved = ev.read_text() if ev.exists() else None  # evidence committed must come from clean-tree runs
    try:
        r = sh(f"git apply {d / 'patch.diff'}", cwd=wt)
        assert r.returncode == 0, r.stderr
        r = sh(f"./check {pid} {tier}", cwd=V, env={"VERIF_SEED": os.environ.get("VERIF_SEED", "0"), "SPOX_REPO": str(wt)})
    finally:
        sh(f"git -C {REPO} worktree remove --force {wt}")
        if ev_saved is not None:
            ev.write_text(ev_saved)
        # generated Lean files were rewritten from the mutant: regenerate from the clean tree
        sh(f"{PY} -m translator.all", cwd=V)
    viol = [ln for ln in r.stdout.splitlines() if ln.startswith("VIOLATION")]
    caught = r.returncode == 1 and bool(viol)
    tag = "CAUGHT" if caught else f"MISSED (exit {r.returncode})"
    nf = all("no-failing-input-found" in v for v in viol) if viol else False
    print(f"{d.name}: {pid} {tier}: {tag}{' [no-failing-input-found only]' if caught and nf else ''}")
    for v in viol[:3]:
        print("   ", v)
    if r.returncode == 2:
        print(r.stdout[-1500:], r.stderr[-1500:])
    run.last = {"property": pid, "tier": tier, "outcome": ("caught" if caught and not nf else "caught-obligation-only" if caught else f"missed-exit{r.returncode}"), "violations": len(viol)}
    return caught


def main():
    a = sys.argv[1:]
    if not a:
        print(__doc__)
        return 2
    if a[0] == "validate":
        print(json.dumps(validate(Path(a[1]).resolve()), indent=1))
    elif a[0] == "run":
        ok = run(Path(a[1]).resolve(), a[2] if len(a) > 2 else "quick")
        return 0 if ok else 1
    elif a[0] == "runall":
        tier = a[1] if len(a) > 1 else "quick"
        res = {}
        only = a[2:]  # optional list of ids
        rf = V / "seeded" / "RESULTS.json"
        if rf.exists():
            res = json.loads(rf.read_text())
        for d in sorted((V / "seeded").iterdir()):
            if (d / "meta.json").exists() and (not only or d.name in only):
                if sh(f"git apply --check {d / 'patch.diff'}", cwd=REPO).returncode != 0:
                    res[d.name] = {"property": json.loads((d / "meta.json").read_text())["property"], "outcome": "patch-does-not-apply-to-HEAD"}
                    print(d.name, "patch does not apply")
                    continue
                run(d, tier)
                res[d.name] = dict(run.last, repo_head=sh("git rev-parse --short HEAD", cwd=REPO).stdout.strip())
        rf.write_text(json.dumps(res, indent=1, sort_keys=True) + "\n")
    return 0




def import_(name: str, prop: str, breaks: str, needs: str):
    """tools/seeded.py import <name> <prop> <breaks> <needs>: copy from /tmp/mut-out, validate, write meta.json."""
    import shutil

    src = Path("/tmp/mut-out") / name
    dst = V / "seeded" / name
    dst.mkdir(parents=True, exist_ok=True)
    for f in ("patch.diff", "demo.py", "notes.md"):
        if (src / f).exists():
            shutil.copy(src / f, dst / f)
    val = validate(dst)
    ok = val.get("applies") and val.get("suite_passes") and val.get("demo_mutant_fails") and val.get("demo_clean_passes")
    meta = {
        "property": prop,
        "breaks": breaks,
        "needs_to_manifest": needs,
        "origin": "fresh sub-agent given only the property text and a scratch worktree of /repo",
        "confirmed": {
            "patch_applies_to_repo_HEAD": val.get("applies"),
            "repo_test_suite_passes_with_patch": val.get("suite_passes"),
            "suite_tail": val.get("suite_tail"),
            "demo_fails_with_patch": val.get("demo_mutant_fails"),
            "demo_passes_on_clean_tree": val.get("demo_clean_passes"),
            "how": "tools/seeded.py validate (throw-away worktree of /repo HEAD, removed afterwards)",
        },
        "kept": bool(ok),
    }
    (dst / "meta.json").write_text(json.dumps(meta, indent=1) + "\n")
    print(name, "kept" if ok else f"NOT CONFIRMED: {val}")


if __name__ == "__main__" and len(sys.argv) > 1 and sys.argv[1] == "import":
    import_(*sys.argv[2:6])
    sys.exit(0)


if __name__ == "__main__":
    sys.exit(main())
