#!/bin/bash
# Run the seeded changes against the committed checks in K parallel copies of /verif (git worktrees of HEAD under
# /work/par-<i>, each with its own Lean build directory, removed afterwards) and merge the outcomes into
# /verif/seeded/RESULTS.json.  Usage: tools/seeded_par.sh <K> <tier> [ids...]   (default: every seeded/<id>)
# Only COMMITTED state is exercised (like `vp check`); commit first.
set -u
K="${1:-4}"; TIER="${2:-quick}"; shift 2 2>/dev/null
cd /verif || exit 2
ids=("$@")
if [ ${#ids[@]} -eq 0 ]; then ids=($(ls seeded | grep -v RESULTS.json)); fi
mkdir -p /work
for i in $(seq 1 "$K"); do
  d=/work/par-$i
  git worktree remove --force "$d" >/dev/null 2>&1; rm -rf "$d"
  git worktree add -q --detach "$d" HEAD || exit 2
  mkdir -p "$d/lean/.lake"; cp -a /verif/lean/.lake/. "$d/lean/.lake/" 2>/dev/null
done
for i in $(seq 1 "$K"); do ( cd /work/par-$i && ./setup.sh >/work/par-$i.setup.log 2>&1 ) & done; wait
for i in $(seq 1 "$K"); do
  share=()
  for j in "${!ids[@]}"; do if [ $(( j % K + 1 )) -eq "$i" ]; then share+=("${ids[$j]}"); fi; done
  ( cd /work/par-$i && rm -f seeded/RESULTS.json && [ ${#share[@]} -gt 0 ] && python3 tools/seeded.py runall "$TIER" "${share[@]}" >/work/par-$i.run.log 2>&1 ) &
done
wait
python3 - "$K" <<'E'
import json, sys
from pathlib import Path
K = int(sys.argv[1])
rf = Path("/verif/seeded/RESULTS.json")
res = json.loads(rf.read_text()) if rf.exists() else {}
for i in range(1, K + 1):
    p = Path(f"/work/par-{i}/seeded/RESULTS.json")
    if p.exists():
        res.update(json.loads(p.read_text()))
rf.write_text(json.dumps(res, indent=1, sort_keys=True) + "\n")
import collections
print(collections.Counter(v["outcome"] for v in res.values()))
print("not caught concretely:", sorted(k for k, v in res.items() if v["outcome"] != "caught"))
E
for i in $(seq 1 "$K"); do grep -h "CAUGHT\|MISSED\|does not apply" /work/par-$i.run.log; git worktree remove --force /work/par-$i >/dev/null 2>&1; done | sort
git worktree prune
